package main

import (
	"go/constant"
	"go/token"
	"go/types"

	"golang.org/x/tools/go/ssa"
)

// edgeDominates reports whether every path from entry to target passes through the edge
// from -> from.Succs[succ]. (Block dominance is not enough: the true successor of a loop-body
// branch is usually the loop header, which dominates the whole loop.)
func edgeDominates(from *ssa.BasicBlock, succ int, target *ssa.BasicBlock) bool {
	if succ >= len(from.Succs) {
		return false
	}
	s := from.Succs[succ]
	for i, o := range from.Succs {
		if i != succ && o == s {
			return false // both edges lead to s
		}
	}
	if !s.Dominates(target) {
		return false
	}
	for _, p := range s.Preds {
		if p == from {
			continue
		}
		if !s.Dominates(p) { // another way into s that is not a back edge from inside s's region
			return false
		}
	}
	return true
}

// guard describes a dominating branch: cond evaluated to `val` on the way to the block.
type guard struct {
	If   *ssa.If
	Cond ssa.Value
	Val  bool
}

// dominatingGuards lists every (condition, outcome) pair that holds on all paths to block b.
// `!x` conditions are unfolded so that Cond is never a boolean negation.
func dominatingGuards(b *ssa.BasicBlock) []guard {
	var out []guard
	fn := b.Parent()
	for _, blk := range fn.Blocks {
		if len(blk.Instrs) == 0 {
			continue
		}
		iff, ok := blk.Instrs[len(blk.Instrs)-1].(*ssa.If)
		if !ok {
			continue
		}
		for si, val := range []bool{true, false} {
			if edgeDominates(blk, si, b) {
				c, v := unNot(iff.Cond, val)
				out = append(out, guard{If: iff, Cond: c, Val: v})
				out = appendShortCircuitParts(out, iff, c, v, 0)
			}
		}
	}
	return out
}

// appendShortCircuitParts: a condition that was computed as a value (`switch { case a || b: ... }`, `ok := a && b`)
// is the phi of a short-circuit evaluation: [constant from the block that decided early, last operand]. When the
// phi is known to be false for `||` (true for `&&`) every operand is known: the early-deciding blocks did not
// decide (their condition had the other outcome) and the last operand has the phi's value.
func appendShortCircuitParts(out []guard, iff *ssa.If, cond ssa.Value, val bool, depth int) []guard {
	phi, ok := cond.(*ssa.Phi)
	if !ok || depth > 3 || len(phi.Edges) < 2 {
		return out
	}
	for i, e := range phi.Edges {
		pred := phi.Block().Preds[i]
		if isConstBool(e, !val) {
			// this edge carries the outcome the phi does not have: it was not taken. The block it comes from ends in
			// a branch one of whose edges is this one.
			pi, isIf := pred.Instrs[len(pred.Instrs)-1].(*ssa.If)
			if !isIf || len(pred.Succs) != 2 || pred.Succs[0] == pred.Succs[1] {
				return out
			}
			taken := pred.Succs[0] != phi.Block() // the edge into the phi block was not taken, so the other one was
			c2, v2 := unNot(pi.Cond, taken)
			out = append(out, guard{If: iff, Cond: c2, Val: v2})
			out = appendShortCircuitParts(out, iff, c2, v2, depth+1)
			continue
		}
		if isConstBool(e, val) {
			return out // the phi's value says nothing about the other operands
		}
	}
	for _, e := range phi.Edges {
		if _, isC := e.(*ssa.Const); !isC {
			c2, v2 := unNot(e, val)
			out = append(out, guard{If: iff, Cond: c2, Val: v2})
			out = appendShortCircuitParts(out, iff, c2, v2, depth+1)
		}
	}
	return out
}

// unNot strips boolean negations: (!c, v) -> (c, !v).
func unNot(c ssa.Value, v bool) (ssa.Value, bool) {
	for {
		u, ok := c.(*ssa.UnOp)
		if !ok || u.Op != token.NOT {
			break
		}
		c, v = u.X, !v
	}
	// `p == nil` / `p != nil` where p is the result of a helper that answers nil exactly for a null cell: the test
	// is the null test of that cell; it is represented by (p, `p is nil`)
	if cmp, ok := c.(*ssa.BinOp); ok && (cmp.Op == token.EQL || cmp.Op == token.NEQ) {
		for _, side := range [][2]ssa.Value{{cmp.X, cmp.Y}, {cmp.Y, cmp.X}} {
			cst, isC := side[1].(*ssa.Const)
			call, isCall := side[0].(*ssa.Call)
			if isC && cst.IsNil() && isCall {
				if callee := call.Call.StaticCallee(); callee != nil && isNilIffNullHelper(callee) {
					if cmp.Op == token.NEQ {
						v = !v
					}
					return call, v
				}
			}
		}
	}
	return c, v
}

func isConstBool(v ssa.Value, want bool) bool {
	c, ok := v.(*ssa.Const)
	if !ok || c.Value == nil || c.Value.Kind() != constant.Bool {
		return false
	}
	return constant.BoolVal(c.Value) == want
}

func constInt(v ssa.Value) (int64, bool) {
	c, ok := v.(*ssa.Const)
	if !ok || c.Value == nil {
		return 0, false
	}
	if c.Value.Kind() != constant.Int {
		return 0, false
	}
	i, exact := constant.Int64Val(c.Value)
	return i, exact
}

func constString(v ssa.Value) (string, bool) {
	c, ok := v.(*ssa.Const)
	if !ok || c.Value == nil || c.Value.Kind() != constant.String {
		return "", false
	}
	return constant.StringVal(c.Value), true
}

// stripConv removes ChangeType / Convert / ChangeInterface wrappers.
func stripConv(v ssa.Value) ssa.Value {
	for {
		switch t := v.(type) {
		case *ssa.ChangeType:
			v = t.X
		case *ssa.Convert:
			v = t.X
		default:
			return v
		}
	}
}

// sameAddrOperands reports whether two IndexAddr instructions address the same element
// (same base value and same index value, modulo type changes).
func sameElem(a, b *ssa.IndexAddr) bool {
	return stripConv(a.X) == stripConv(b.X) && stripConv(a.Index) == stripConv(b.Index)
}

// staticCallee returns the statically known callee of a call, or nil.
func staticCallee(c ssa.CallInstruction) *ssa.Function {
	return c.Common().StaticCallee()
}

// calleeObj returns the types.Func called (static functions and interface/abstract methods), or nil.
func calleeObj(c ssa.CallInstruction) *types.Func {
	cc := c.Common()
	if cc.IsInvoke() {
		return cc.Method
	}
	if f := cc.StaticCallee(); f != nil {
		if o, ok := f.Object().(*types.Func); ok {
			return o
		}
	}
	return nil
}

// isFuncNamed reports whether obj is function/method `name` of package path `pkg`
// (recv = "" for package-level functions, otherwise the receiver's named type).
func isFuncNamed(obj *types.Func, pkg, recv, name string) bool {
	if obj == nil || obj.Name() != name || obj.Pkg() == nil || obj.Pkg().Path() != pkg {
		return false
	}
	sig := obj.Type().(*types.Signature)
	if sig.Recv() == nil {
		return recv == ""
	}
	t := deref(sig.Recv().Type())
	n, ok := t.(*types.Named)
	return ok && n.Obj().Name() == recv
}

func builtinName(c ssa.CallInstruction) string {
	if b, ok := c.Common().Value.(*ssa.Builtin); ok {
		return b.Name()
	}
	return ""
}

// instrs iterates all instructions of fn.
func eachInstr(fn *ssa.Function, f func(ssa.Instruction)) {
	for _, b := range fn.Blocks {
		for _, in := range b.Instrs {
			f(in)
		}
	}
}

func constantToInt64(v constant.Value) (int64, bool) {
	if v == nil || v.Kind() != constant.Int {
		return 0, false
	}
	return constant.Int64Val(v)
}
