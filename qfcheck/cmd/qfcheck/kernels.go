package main

import (
	"fmt"
	"go/token"
	"go/types"
	"sort"
	"strings"

	"golang.org/x/tools/go/ssa"
)

// Engine E3: shape of the filter kernels and of the comparator tables.

type tableEntry struct {
	table string // global map name
	key   string
	fn    *ssa.Function
	pos   token.Pos
}

// comparatorTables reads every package-level map[string]func(...) of a column package from its init.
func comparatorTables(p *Prog, pkg string) []tableEntry {
	sp := p.SSAPkg(pkg)
	if sp == nil {
		return nil
	}
	init := sp.Func("init")
	if init == nil {
		return nil
	}
	var out []tableEntry
	eachInstr(init, func(in ssa.Instruction) {
		mu, ok := in.(*ssa.MapUpdate)
		if !ok {
			return
		}
		k, ok := constString(mu.Key)
		if !ok {
			return
		}
		var fn *ssa.Function
		switch v := mu.Value.(type) {
		case *ssa.Function:
			fn = v
		case *ssa.ChangeType:
			fn, _ = v.X.(*ssa.Function)
		case *ssa.MakeInterface:
			fn, _ = v.X.(*ssa.Function)
		}
		if fn == nil {
			return
		}
		name := "?"
		// the map is either stored into a global afterwards or loaded from it before
		name = mapGlobalName(mu.Map)
		out = append(out, tableEntry{table: name, key: k, fn: fn, pos: mu.Pos()})
	})
	return out
}

func mapGlobalName(m ssa.Value) string {
	if u, ok := m.(*ssa.UnOp); ok {
		if g, ok := u.X.(*ssa.Global); ok {
			return g.Name()
		}
	}
	// make map ... then *global = map
	for _, r := range *m.Referrers() {
		if st, ok := r.(*ssa.Store); ok && st.Val == m {
			if g, ok := st.Addr.(*ssa.Global); ok {
				return g.Name()
			}
		}
	}
	return "?"
}

var cmpOps = map[string]token.Token{">": token.GTR, ">=": token.GEQ, "<": token.LSS, "<=": token.LEQ, "=": token.EQL, "!=": token.NEQ}

type kernelShape struct {
	store    *ssa.Store // the store into the boolean index
	cmps     []*ssa.BinOp
	polarity string // "true" | "false" | "n/a" | "unknown": bit produced for a null cell
	reason   string
}

// boolStores returns the stores into index.Bool elements in fn (following one level of static callee
// for thin wrappers such as like -> regexFilter).
func boolStores(fn *ssa.Function) []*ssa.Store {
	var out []*ssa.Store
	eachInstr(fn, func(in ssa.Instruction) {
		if st, ok := in.(*ssa.Store); ok {
			if ia, ok := st.Addr.(*ssa.IndexAddr); ok && boolIdxBase(ia.X) {
				out = append(out, st)
			}
		}
	})
	return out
}

// isNullPredicate: v is true exactly when the current cell is null.
func isNullPredicate(v ssa.Value) bool {
	switch t := v.(type) {
	case *ssa.Extract:
		// second result of stringAt / bytesAt style accessors: (value, isNull bool)
		if call, ok := t.Tuple.(*ssa.Call); ok && t.Index == 1 {
			if sig := call.Call.Signature(); sig.Results().Len() == 2 {
				if b, ok := sig.Results().At(1).Type().Underlying().(*types.Basic); ok && b.Kind() == types.Bool {
					if callee := call.Call.StaticCallee(); callee != nil && callee.Pkg != nil && inModule(callee.Pkg.Pkg) {
						return true
					}
				}
			}
		}
	case *ssa.Call:
		o := calleeObj(t)
		if o == nil {
			return false
		}
		if isFuncNamed(o, "math", "", "IsNaN") {
			return true
		}
		if o.Name() == "isNull" || o.Name() == "IsNull" {
			return true
		}
		// the same predicate under any other name: a one-argument method of the module that answers the comparison of
		// its receiver (or of its receiver masked with a constant) with a constant
		if callee := t.Call.StaticCallee(); callee != nil && isNullPredFn(callee) {
			return true
		}
		// the result of a helper that answers nil exactly for a null cell, used as `the cell is null` (guards of the
		// form `p == nil` / `p != nil` are normalised to (p, outcome) by unNot)
		if callee := t.Call.StaticCallee(); callee != nil && isNilIffNullHelper(callee) {
			return true
		}
	}
	return false
}

// isNullPredFn: a method of a module type over an unsigned integer (the enum code, the string pointer) with no other
// parameter and one bool result whose only return is `recv == const` or `recv & const OP 0`.
func isNullPredFn(fn *ssa.Function) bool {
	if fn == nil || fn.Blocks == nil || fn.Pkg == nil || !inModule(fn.Pkg.Pkg) || fn.Signature.Recv() == nil || len(fn.Params) != 1 || fn.Signature.Results().Len() != 1 {
		return false
	}
	if b, ok := fn.Signature.Results().At(0).Type().Underlying().(*types.Basic); !ok || b.Kind() != types.Bool {
		return false
	}
	bt, ok := fn.Params[0].Type().Underlying().(*types.Basic)
	if !ok || bt.Info()&types.IsUnsigned == 0 {
		return false
	}
	if _, isNamed := fn.Params[0].Type().(*types.Named); !isNamed {
		return false
	}
	n, good := 0, false
	eachInstr(fn, func(in ssa.Instruction) {
		r, ok := in.(*ssa.Return)
		if !ok {
			return
		}
		n++
		cmp, ok := r.Results[0].(*ssa.BinOp)
		if !ok {
			return
		}
		x := cmp.X
		if and, ok := x.(*ssa.BinOp); ok && and.Op == token.AND {
			x = and.X
		}
		if _, isC := cmp.Y.(*ssa.Const); isC && x == ssa.Value(fn.Params[0]) {
			switch cmp.Op {
			case token.EQL, token.NEQ, token.GTR:
				good = true
			}
		}
	})
	return n == 1 && good
}

var nilIffNullMemo = map[*ssa.Function]bool{}

// isNilIffNullHelper: a module function with one pointer result that returns the nil constant exactly on the paths
// on which a null predicate of its argument holds, and the address of something (never nil) on all others.
func isNilIffNullHelper(fn *ssa.Function) bool {
	if v, ok := nilIffNullMemo[fn]; ok {
		return v
	}
	nilIffNullMemo[fn] = false
	if fn.Blocks == nil || fn.Pkg == nil || !inModule(fn.Pkg.Pkg) || fn.Signature.Results().Len() != 1 {
		return false
	}
	if _, ok := fn.Signature.Results().At(0).Type().Underlying().(*types.Pointer); !ok {
		return false
	}
	nNil, nVal, ok := 0, 0, true
	eachInstr(fn, func(in ssa.Instruction) {
		ret, isRet := in.(*ssa.Return)
		if !isRet {
			return
		}
		underNull, underNotNull := false, false
		for _, g := range dominatingGuards(ret.Block()) {
			if isNullPredicate(g.Cond) {
				if g.Val {
					underNull = true
				} else {
					underNotNull = true
				}
			}
		}
		switch t := ret.Results[0].(type) {
		case *ssa.Const:
			if !t.IsNil() || !underNull {
				ok = false
			}
			nNil++
		case *ssa.IndexAddr, *ssa.FieldAddr, *ssa.Alloc:
			if !underNotNull {
				ok = false
			}
			nVal++
		default:
			ok = false
		}
	})
	res := ok && nNil > 0 && nVal > 0
	nilIffNullMemo[fn] = res
	return res
}

type tri int

const (
	triUnknown tri = iota
	triTrue
	triFalse
)

func (t tri) String() string {
	switch t {
	case triTrue:
		return "true"
	case triFalse:
		return "false"
	}
	return "unknown"
}

// blockFeasibleUnderNull: block b can be reached when every null predicate is true.
func blockFeasibleUnderNull(b *ssa.BasicBlock) bool {
	for _, g := range dominatingGuards(b) {
		if isNullPredicate(g.Cond) && !g.Val {
			return false
		}
	}
	return true
}

// evalUnderNull evaluates a boolean SSA value assuming the cell is null.
func evalUnderNull(v ssa.Value, depth int) tri {
	if depth > 8 {
		return triUnknown
	}
	if isConstBool(v, true) {
		return triTrue
	}
	if isConstBool(v, false) {
		return triFalse
	}
	if isNullPredicate(v) {
		return triTrue
	}
	switch t := v.(type) {
	case *ssa.UnOp:
		if t.Op == token.NOT {
			switch evalUnderNull(t.X, depth+1) {
			case triTrue:
				return triFalse
			case triFalse:
				return triTrue
			}
		}
	case *ssa.BinOp:
		if isFloatType(t.X.Type()) {
			// IEEE: every comparison with NaN is false except !=
			switch t.Op {
			case token.NEQ:
				return triTrue
			case token.EQL, token.LSS, token.LEQ, token.GTR, token.GEQ:
				return triFalse
			}
		}
	case *ssa.Phi:
		res := triUnknown
		first := true
		for i, e := range t.Edges {
			pred := t.Block().Preds[i]
			if !blockFeasibleUnderNull(pred) {
				continue
			}
			// the edge itself may be a branch on a null predicate
			if iff, ok := pred.Instrs[len(pred.Instrs)-1].(*ssa.If); ok {
				c, val := unNot(iff.Cond, true)
				if isNullPredicate(c) {
					// successor 0 taken when c==val ... edge to phi block feasible only if consistent with c = true
					takenIdx := 0
					if !val {
						takenIdx = 1
					}
					if pred.Succs[takenIdx] != t.Block() {
						continue
					}
				}
			}
			r := evalUnderNull(e, depth+1)
			if first {
				res, first = r, false
			} else if r != res {
				return triUnknown
			}
		}
		return res
	}
	return triUnknown
}

// nullable column packages (cells can be null / NaN)
var nullablePkg = map[string]bool{"internal/fcolumn": true, "internal/scolumn": true, "internal/ecolumn": true}

// kernelPolarity: the bit a kernel produces for a null cell.
func kernelPolarity(fn *ssa.Function, nullable bool) (string, string) {
	if !nullable {
		return "n/a", "column type has no nulls"
	}
	// preferred: evaluate the kernel in its null worlds (E5, as R79 does)
	if src, bIdx, colcol := kernelRoles(fn); bIdx != nil && (len(src) == 1 || len(src) == 2) {
		worlds := [][2]bool{{true, false}}
		if colcol {
			worlds = [][2]bool{{true, false}, {false, true}, {true, true}}
		}
		res, decided := "", true
		for _, w := range worlds {
			kb := evalKernelWorld(fn, src, bIdx, colcol, w[0], w[1], "=")
			if !kb.returned || kb.nStores > 0 && !kb.known {
				decided = false
				break
			}
			r := "false"
			if kb.nStores > 0 && kb.got {
				r = "true"
			}
			if res == "" {
				res = r
			} else if res != r {
				return "unknown", "the null worlds disagree"
			}
		}
		if decided && res != "" {
			return res, ""
		}
	}
	stores := boolStores(fn)
	if len(stores) == 0 {
		// thin wrapper: follow a single static module callee that receives the boolean index
		var inner *ssa.Function
		eachInstr(fn, func(in ssa.Instruction) {
			if call, ok := in.(*ssa.Call); ok {
				if c := call.Call.StaticCallee(); c != nil && c.Pkg != nil && inModule(c.Pkg.Pkg) {
					for _, a := range call.Call.Args {
						if boolIdxBase(a) {
							inner = c
						}
					}
				}
			}
		})
		if inner != nil && inner != fn {
			return kernelPolarity(inner, nullable)
		}
		return "unknown", "no store into the boolean index found"
	}
	res := ""
	for _, st := range stores {
		var r string
		if !blockFeasibleUnderNull(st.Block()) {
			r = "false" // the store is skipped for null cells: the bit stays false
		} else {
			r = evalUnderNull(st.Val, 0).String()
		}
		if res == "" {
			res = r
		} else if res != r {
			return "unknown", "stores disagree"
		}
	}
	return res, ""
}

// cellComparisons: comparison BinOps in the backward slice of the stored bit.
func cellComparisons(st *ssa.Store) []*ssa.BinOp {
	var out []*ssa.BinOp
	seen := map[ssa.Value]bool{}
	var walk func(v ssa.Value, d int)
	walk = func(v ssa.Value, d int) {
		if v == nil || seen[v] || d > 8 {
			return
		}
		seen[v] = true
		switch t := v.(type) {
		case *ssa.BinOp:
			switch t.Op {
			case token.EQL, token.NEQ, token.LSS, token.LEQ, token.GTR, token.GEQ:
				if !isNullCompare(t) {
					out = append(out, t)
				}
				return
			}
			walk(t.X, d+1)
			walk(t.Y, d+1)
		case *ssa.Phi:
			for _, e := range t.Edges {
				walk(e, d+1)
			}
		case *ssa.UnOp:
			walk(t.X, d+1)
		}
	}
	walk(st.Val, 0)
	return out
}

func isNullCompare(b *ssa.BinOp) bool {
	// comparisons that implement a null test (v == nullValue) are not cell comparisons
	for _, o := range []ssa.Value{b.X, b.Y} {
		if c, ok := o.(*ssa.Const); ok && c.IsNil() {
			return true
		}
	}
	return false
}

func init() {
	register(&Rule{ID: "R4", Name: "CMP-TABLE", Floor: 50,
		Text: "for every entry of a column package's comparator table under a key in {>,>=,<,<=,=,!=}: the kernel's stored bit contains exactly one cell comparison, its operator is the key's operator, the cell (value read from column storage) is the left operand and the comparatee parameter (or the second column read at the same position) the right one; the five column types agree key by key",
		Run:  runR4})
	register(&Rule{ID: "R5", Name: "INV-TABLE", Floor: 12,
		Text: "filter.Inverse (and any table used for the negation shortcut) is an involution where defined and pairs only logical complements on non-null values; at the use site in QFrame.filter, for every column type T and every table the shortcut may consult for T (type-switch guards resolved per T), each pair (k, k') with kernels in T has different null polarity when T is nullable - otherwise the shortcut is not the complement that the general path computes",
		Run:  runR5})
}

func runR4(c *Ctx) {
	p := c.P
	f := p.idxFacts()
	res := p.resolver()
	perKey := map[string]map[string]bool{}
	for _, cp := range columnPkgs {
		ents := comparatorTables(p, cp)
		if len(ents) == 0 {
			c.undecided(cp+"|tables", "-", "no comparator table found in package init")
			continue
		}
		for _, e := range ents {
			op, isCmp := cmpOps[e.key]
			if !isCmp {
				c.okTrivial(cp+"."+e.table+"["+e.key+"]|non-comparison key", p.pos(e.pos), "listed; semantics outside R4 ("+fname(e.fn)+")")
				continue
			}
			key := cp + "." + e.table + "[" + e.key + "]"
			pos := p.pos(e.fn.Pos())
			stores := boolStores(e.fn)
			if len(stores) != 1 {
				c.undecided(key, pos, fmt.Sprintf("kernel %s has %d stores into the boolean index; expected 1", fname(e.fn), len(stores)))
				continue
			}
			cmps := cellComparisons(stores[0])
			if len(cmps) != 1 {
				c.bad(key, pos, fmt.Sprintf("kernel %s: %d cell comparisons feed the stored bit; expected exactly one", fname(e.fn), len(cmps)))
				continue
			}
			cmp := cmps[0]
			negated := map[token.Token]token.Token{token.EQL: token.NEQ, token.NEQ: token.EQL, token.LSS: token.GEQ, token.GEQ: token.LSS, token.GTR: token.LEQ, token.LEQ: token.GTR}
			mirror := map[token.Token]token.Token{token.EQL: token.EQL, token.NEQ: token.NEQ, token.LSS: token.GTR, token.GTR: token.LSS, token.LEQ: token.GEQ, token.GEQ: token.LEQ}
			lx := f.posReads(cmp.X, res)
			ly := f.posReads(cmp.Y, res)
			colcol := countStorageParams(f, e.fn) >= 2 || strings.HasSuffix(e.table, "2")
			// which operand is the cell: `comp > cell` is `cell < comp`, and in a column-column kernel the cell of the
			// argument column may stand on the left as long as the operator is the mirrored one
			eff := cmp.Op
			switch {
			case !colcol && len(lx) == 0 && len(ly) != 0:
				eff = mirror[cmp.Op]
			case !colcol && len(lx) == 0:
				c.bad(key, p.instrPos(cmp), "neither operand of the comparison is the cell")
				continue
			case !colcol && len(ly) != 0:
				c.bad(key, p.instrPos(cmp), "both operands read column storage in a column-constant kernel")
				continue
			case colcol && (len(ly) == 0 || len(lx) == 0):
				c.bad(key, p.instrPos(cmp), "column-column kernel compares the cell with something that is not the other column's cell")
				continue
			case colcol && !operandFromParamOrder(f, e.fn, cmp):
				eff = mirror[cmp.Op]
			}
			if eff != op && eff != negated[op] { // the complementary operator under a negation is decided by R79's worlds
				c.bad(key, p.instrPos(cmp), fmt.Sprintf("table key %q is bound to kernel %s which compares cell %s comparatee", e.key, fname(e.fn), eff))
				continue
			}
			if perKey[e.key] == nil {
				perKey[e.key] = map[string]bool{}
			}
			perKey[e.key][cp] = true
			c.ok(key, p.instrPos(cmp), fmt.Sprintf("%s: cell %s comparatee", fname(e.fn), cmp.Op))
		}
	}
	for k, pk := range perKey {
		var l []string
		for x := range pk {
			l = append(l, x)
		}
		sort.Strings(l)
		c.note("key "+k, strings.Join(l, ","))
	}
}

func countStorageParams(f *idxFacts, fn *ssa.Function) int {
	n := 0
	for _, prm := range fn.Params {
		if f.storageParam[prm] {
			n++
		} else if nt, ok := prm.Type().(*types.Named); ok && nt.Obj().Name() == "Column" {
			n++
		}
	}
	return n
}

// operandFromParamOrder: in a column-column kernel the left operand derives from the earlier parameter.
func operandFromParamOrder(f *idxFacts, fn *ssa.Function, cmp *ssa.BinOp) bool {
	idx := func(v ssa.Value) int {
		best := -1
		seen := map[ssa.Value]bool{}
		var walk func(v ssa.Value, d int)
		walk = func(v ssa.Value, d int) {
			if v == nil || seen[v] || d > 10 {
				return
			}
			seen[v] = true
			if pr, ok := v.(*ssa.Parameter); ok {
				for i, q := range fn.Params {
					if q == pr && (f.storageParam[pr] || isColumnStruct(pr.Type())) {
						if best < 0 || i < best {
							best = i
						}
					}
				}
				return
			}
			var ops []*ssa.Value
			if in, ok := v.(ssa.Instruction); ok {
				for _, o := range in.Operands(ops) {
					if o != nil && *o != nil {
						// do not walk through the index (positions are shared by both sides)
						if isIntIndexType((*o).Type()) {
							continue
						}
						walk(*o, d+1)
					}
				}
			}
		}
		walk(v, 0)
		return best
	}
	ix, iy := idx(cmp.X), idx(cmp.Y)
	return ix >= 0 && iy >= 0 && ix < iy
}

func isColumnStruct(t types.Type) bool {
	n, ok := t.(*types.Named)
	return ok && n.Obj().Name() == "Column"
}

// stringTable reads a package-level map[string]string from its package init.
func stringTables(p *Prog, pkg string) map[string]map[string]string {
	out := map[string]map[string]string{}
	sp := p.SSAPkg(pkg)
	if sp == nil {
		return out
	}
	init := sp.Func("init")
	if init == nil {
		return out
	}
	eachInstr(init, func(in ssa.Instruction) {
		mu, ok := in.(*ssa.MapUpdate)
		if !ok {
			return
		}
		k, ok1 := constString(mu.Key)
		v, ok2 := constString(mu.Value)
		if !ok1 || !ok2 {
			return
		}
		name := mapGlobalName(mu.Map)
		if out[name] == nil {
			out[name] = map[string]string{}
		}
		out[name][k] = v
	})
	return out
}

var complements = map[string]string{">": "<=", ">=": "<", "<": ">=", "<=": ">", "=": "!=", "!=": "=", "in": "not in", "not in": "in", "isnull": "isnotnull", "isnotnull": "isnull"}

func runR5(c *Ctx) {
	p := c.P
	tabs := stringTables(p, "filter")
	if len(tabs) == 0 {
		c.undecided("filter|tables", "-", "no string table found in package filter")
		return
	}
	// polarity of every kernel, per column package and key
	type pk struct{ pkg, key string }
	pol := map[pk][]string{}
	for _, cp := range columnPkgs {
		for _, e := range comparatorTables(p, cp) {
			pl, _ := kernelPolarity(e.fn, nullablePkg[cp])
			pol[pk{cp, e.key}] = append(pol[pk{cp, e.key}], pl+" ("+fname(e.fn)+")")
		}
	}
	// (1) every table in package filter: involution + complements
	var names []string
	for n := range tabs {
		names = append(names, n)
	}
	sort.Strings(names)
	for _, n := range names {
		t := tabs[n]
		var ks []string
		for k := range t {
			ks = append(ks, k)
		}
		sort.Strings(ks)
		for _, k := range ks {
			v := t[k]
			key := "filter." + n + "[" + k + "]"
			if complements[k] != v {
				c.bad(key, "filter/filter.go", fmt.Sprintf("%q is mapped to %q, which is not its logical complement (%q)", k, v, complements[k]))
				continue
			}
			if back, ok := t[v]; ok && back != k {
				c.bad(key, "filter/filter.go", fmt.Sprintf("not an involution: %q -> %q -> %q", k, v, back))
				continue
			}
			c.ok(key, "filter/filter.go", fmt.Sprintf("%q <-> %q are complements on non-null values", k, v))
		}
	}
	// (2) use site
	fn := p.anchorFrameFilter()
	if fn == nil {
		c.undecided("qframe.QFrame.filter|use site", "-", "QFrame.filter not found")
		return
	}
	// the shortcut may have been extracted into a helper: take the function (the filter method itself or
	// a root-package function it calls statically) that looks a comparator name up in a string table
	hasTableLookup := func(f *ssa.Function) bool {
		hit := false
		eachInstr(f, func(in ssa.Instruction) {
			if lk, ok := in.(*ssa.Lookup); ok {
				if mt, ok := lk.X.Type().Underlying().(*types.Map); ok {
					if b, ok := mt.Elem().Underlying().(*types.Basic); ok && b.Kind() == types.String {
						hit = true
					}
				}
			}
		})
		return hit
	}
	if !hasTableLookup(fn) {
		// breadth first through the static callees of the same package, three levels deep
		level := []*ssa.Function{fn}
		seenF := map[*ssa.Function]bool{fn: true}
		var hitFn *ssa.Function
		for d := 0; d < 3 && hitFn == nil; d++ {
			var next []*ssa.Function
			for _, f := range level {
				eachInstr(f, func(in ssa.Instruction) {
					if call, ok := in.(*ssa.Call); ok {
						if callee := call.Call.StaticCallee(); callee != nil && callee.Pkg == fn.Pkg && callee.Blocks != nil && !seenF[callee] {
							seenF[callee] = true
							next = append(next, callee)
							if hitFn == nil && hasTableLookup(callee) {
								hitFn = callee
							}
						}
					}
				})
			}
			level = next
		}
		if hitFn != nil {
			fn = hitFn
		}
	}
	found := 0
	eachInstr(fn, func(in ssa.Instruction) {
		lk, ok := in.(*ssa.Lookup)
		if !ok {
			return
		}
		mt, ok := lk.X.Type().Underlying().(*types.Map)
		if !ok {
			return
		}
		if b, ok := mt.Elem().Underlying().(*types.Basic); !ok || b.Kind() != types.String {
			return
		}
		found++
		for _, cp := range columnPkgs {
			T := p.Named(cp, "Column")
			globals := feasibleGlobals(lk.X, lk.Block(), T, 0)
			if !lookupFeasible(lk.Block(), T) {
				c.ok("use site|"+cp, p.instrPos(lk), "shortcut not reachable for this column type")
				continue
			}
			if len(globals) == 0 {
				c.undecided("use site|"+cp, p.instrPos(lk), "cannot resolve which table the shortcut consults for this column type")
				continue
			}
			sort.Strings(globals)
			for _, g := range globals {
				t := tabs[g]
				var ks []string
				for k := range t {
					ks = append(ks, k)
				}
				sort.Strings(ks)
				for _, k := range ks {
					k2 := t[k]
					p1, p2 := pol[pk{cp, k}], pol[pk{cp, k2}]
					key := "use site|" + cp + "|" + g + "[" + k + "]"
					if len(p1) == 0 || len(p2) == 0 {
						c.okTrivial(key, p.instrPos(lk), "no kernel pair in this column type (Filter returns an error and the general path is taken)")
						continue
					}
					if !nullablePkg[cp] {
						c.ok(key, p.instrPos(lk), "column type has no nulls: complement on values suffices")
						continue
					}
					bad := ""
					for _, a := range p1 {
						for _, b := range p2 {
							pa, pb := strings.Fields(a)[0], strings.Fields(b)[0]
							if pa == "unknown" || pb == "unknown" {
								bad = "null polarity of " + a + " / " + b + " cannot be determined"
							} else if pa == pb {
								bad = fmt.Sprintf("for a null cell %q yields %s and its shortcut inverse %q yields %s as well: Not(%s) via the shortcut drops/keeps null rows differently from the general complement", k, a, k2, b, k)
							}
						}
					}
					if bad != "" {
						c.bad(key, p.instrPos(lk), bad)
					} else {
						c.ok(key, p.instrPos(lk), fmt.Sprintf("null polarities differ: %v vs %v", p1, p2))
					}
				}
			}
		}
	})
	if found == 0 {
		c.undecided("qframe.QFrame.filter|use site", p.pos(fn.Pos()), "no lookup in a comparator-name table found in QFrame.filter: the negation shortcut changed shape")
	}
	// (3) the column whose type selects the table is the column that is filtered: no assignment to it in between
	eachInstr(fn, func(in ssa.Instruction) {
		call, ok := in.(*ssa.Call)
		if !ok || !call.Call.IsInvoke() || call.Call.Method.Name() != "Filter" {
			return
		}
		// only the shortcut call: its comparator argument comes from a string-table lookup
		fromTable := false
		if len(call.Call.Args) >= 2 {
			if mi, ok := call.Call.Args[1].(*ssa.MakeInterface); ok {
				if ex, ok := mi.X.(*ssa.Extract); ok {
					if _, ok := ex.Tuple.(*ssa.Lookup); ok {
						fromTable = true
					}
				}
			}
		}
		if !fromTable {
			return
		}
		recvPath := accessPath(call.Call.Value)
		key := "use site|column identity"
		bad := ""
		// the type switch that selects the table: all its assertions on the filtered column
		var sel []*ssa.TypeAssert
		selBlocks := map[*ssa.BasicBlock]bool{}
		eachInstr(fn, func(i2 ssa.Instruction) {
			ta, ok := i2.(*ssa.TypeAssert)
			if ok && ta.CommaOk && isColumnStruct(ta.AssertedType) && accessPath(ta.X) == recvPath && guardsTableSelection(ta) {
				sel = append(sel, ta)
				selBlocks[ta.Block()] = true
			}
		})
		eachInstr(fn, func(i3 ssa.Instruction) {
			st, ok := i3.(*ssa.Store)
			if !ok || accessPath(st.Addr) != recvPath {
				return
			}
			after := false
			for _, ta := range sel {
				if instrReaches(ta, st) {
					after = true
				}
			}
			if !after {
				return
			}
			// can the call run after the store without the switch being evaluated again?
			reach := st.Block() == call.Block() && precedes(st, call)
			for _, s0 := range st.Block().Succs {
				for _, r := range reachableAvoiding(s0, func(x *ssa.BasicBlock) bool { return selBlocks[x] }) {
					if r == call.Block() {
						reach = true
					}
				}
			}
			if reach && len(sel) > 0 {
				bad = fmt.Sprintf("the column is replaced at %s after its type selected the inverse table (at %s) and before it is filtered (at %s): a column promoted to a nullable type is treated as never-null", p.instrPos(st), p.instrPos(sel[0]), p.instrPos(call))
			}
		})
		if bad != "" {
			c.bad(key, p.instrPos(call), bad)
		} else {
			c.ok(key, p.instrPos(call), "the filtered column is the one whose type selected the table")
		}
	})
}

// guardsTableSelection: the assertion's ok result decides between loads of different string tables.
func guardsTableSelection(ta *ssa.TypeAssert) bool {
	for _, r := range *ta.Referrers() {
		ex, ok := r.(*ssa.Extract)
		if !ok || ex.Index != 1 {
			continue
		}
		for _, r2 := range *ex.Referrers() {
			iff, ok := r2.(*ssa.If)
			if !ok {
				continue
			}
			// a successor (transitively, within a few blocks) loads a global string table
			for _, s := range iff.Block().Succs {
				for _, in := range s.Instrs {
					if u, ok := in.(*ssa.UnOp); ok {
						if g, ok := u.X.(*ssa.Global); ok {
							if mt, ok := deref(g.Type()).Underlying().(*types.Map); ok {
								if b, ok := mt.Elem().Underlying().(*types.Basic); ok && b.Kind() == types.String {
									return true
								}
							}
						}
					}
				}
			}
		}
	}
	return false
}

// typeReach: blocks and edges of fn reachable when the dynamic type of every type-asserted column
// value is T: at a branch on the ok result of x.(T') only the edge consistent with T is followed.
type typeReach struct {
	blocks map[*ssa.BasicBlock]bool
	edges  map[[2]*ssa.BasicBlock]bool
}

var typeReachCache = map[*ssa.Function]map[types.Type]*typeReach{}

func reachForType(fn *ssa.Function, T types.Type) *typeReach {
	if m := typeReachCache[fn]; m != nil {
		if r := m[T]; r != nil {
			return r
		}
	} else {
		typeReachCache[fn] = map[types.Type]*typeReach{}
	}
	r := &typeReach{blocks: map[*ssa.BasicBlock]bool{}, edges: map[[2]*ssa.BasicBlock]bool{}}
	var visit func(b *ssa.BasicBlock)
	visit = func(b *ssa.BasicBlock) {
		if r.blocks[b] {
			return
		}
		r.blocks[b] = true
		follow := []bool{true, true}
		if iff, ok := b.Instrs[len(b.Instrs)-1].(*ssa.If); ok {
			c, val := unNot(iff.Cond, true)
			if ex, ok := c.(*ssa.Extract); ok && ex.Index == 1 {
				if ta, ok := ex.Tuple.(*ssa.TypeAssert); ok && isColumnStruct(ta.AssertedType) {
					same := types.Identical(ta.AssertedType, T)
					// cond == val on succ 0; cond is `ok` (true iff same)
					if same == val {
						follow[1] = false
					} else {
						follow[0] = false
					}
				}
			}
		}
		for i, s := range b.Succs {
			if i < 2 && !follow[i] {
				continue
			}
			r.edges[[2]*ssa.BasicBlock{b, s}] = true
			visit(s)
		}
	}
	visit(fn.Blocks[0])
	typeReachCache[fn][T] = r
	return r
}

func lookupFeasible(b *ssa.BasicBlock, T types.Type) bool {
	return reachForType(b.Parent(), T).blocks[b]
}

func feasibleGlobals(m ssa.Value, at *ssa.BasicBlock, T types.Type, d int) []string {
	if d > 6 {
		return nil
	}
	switch t := m.(type) {
	case *ssa.UnOp:
		if g, ok := t.X.(*ssa.Global); ok {
			return []string{g.Name()}
		}
		if al, ok := t.X.(*ssa.Alloc); ok {
			var out []string
			for _, r := range *al.Referrers() {
				if st, ok := r.(*ssa.Store); ok && st.Addr == al && lookupFeasible(st.Block(), T) {
					out = append(out, feasibleGlobals(st.Val, st.Block(), T, d+1)...)
				}
			}
			return out
		}
	case *ssa.Phi:
		var out []string
		tr := reachForType(t.Parent(), T)
		for i, e := range t.Edges {
			if tr.edges[[2]*ssa.BasicBlock{t.Block().Preds[i], t.Block()}] {
				out = append(out, feasibleGlobals(e, t.Block().Preds[i], T, d+1)...)
			}
		}
		return out
	}
	return nil
}

// reachesAvoidingBlock: b can execute after a on a path that does not pass through block avoid again
// (so that the assertion in `avoid` is not re-evaluated in between).
func reachesAvoidingBlock(a, b ssa.Instruction, avoid *ssa.BasicBlock) bool {
	if a.Block() == b.Block() && precedes(a, b) && a != b {
		return true
	}
	if a.Block() == avoid {
		// after the assertion within its own block: continue from the successors
	}
	for _, s := range a.Block().Succs {
		for _, r := range reachableAvoiding(s, func(x *ssa.BasicBlock) bool { return x == avoid }) {
			if r == b.Block() {
				return true
			}
		}
	}
	return false
}
