// qfcheck decides the fixed properties C01..C19 of tobgu/qframe by static analysis of the
// type-checked source of /repo's current working tree. It never executes qframe code.
package main

import (
	"encoding/json"
	"flag"
	"fmt"
	"os"
	"path/filepath"
	"sort"
	"strconv"
	"strings"
	"time"
)

type PropSpec struct {
	ID          string
	Rules       []string
	Decided     string
	NotDecided  string
	Assumptions []string
}

var props = map[string]*PropSpec{}

func prop(id string, ruleIDs []string, decided, notDecided string, assumptions ...string) {
	// every property is also checked against the rule groups of the machinery it is observed through: a change that
	// breaks property X is as often made in shared infrastructure (the frame's bookkeeping, the string cell layout,
	// the error plumbing of a reader) as in the function X is named after
	seen := map[string]bool{}
	var all []string
	add := func(rs ...string) {
		for _, r := range rs {
			if !seen[r] {
				seen[r] = true
				all = append(all, r)
			}
		}
	}
	add(ruleIDs...)
	var groups []string
	for _, g := range propGroups[id] {
		add(ruleGroups[g]...)
		groups = append(groups, g+" = "+strings.Join(ruleGroups[g], " "))
	}
	if len(groups) > 0 {
		decided += " Shared rule groups also run for this property (a violation in them breaks what the property observes): " + strings.Join(groups, "; ") + "."
	}
	props[id] = &PropSpec{ID: id, Rules: all, Decided: decided, NotDecided: notDecided, Assumptions: assumptions}
}

// ruleGroups: rules about machinery that several properties are observed through.
var ruleGroups = map[string][]string{
	// integrity of a frame: immutability, no hidden state, index spaces, row alignment, column bookkeeping
	"FRAME": {"R1", "R2c", "R6", "R7", "R8", "R13", "R42", "R128", "R66", "R125", "R132", "R135", "R139"},
	// string and enum cells: layout, null flags, codes, tables, upper-casing
	"CELLS": {"R19", "R33", "R34", "R73", "R74", "R82", "R94", "R95", "R57", "R101", "R121", "R134", "R136", "R142", "R144", "R145", "R146", "R147", "R148"},
	// error plumbing of readers and writers
	"IOERR": {"R24", "R29", "R30", "R31", "R41", "R50", "R56", "R61", "R110", "R138"},
	// argument decoding and validation shared by all operations
	"ARGS": {"R17", "R20", "R21", "R39", "R47", "R81", "R84", "R107", "R109", "R118", "R122", "R131", "R138"},
	// the JSON writer
	"JSON": {"R27", "R28", "R58", "R85", "R100", "R126"},
	// the CSV reader
	"CSVREAD": {"R25", "R26", "R45", "R49", "R62", "R86", "R87", "R127", "R139"},
}

var propGroups = map[string][]string{
	"C01": {"FRAME"},
	"C02": {"FRAME", "CELLS", "ARGS"},
	"C03": {"FRAME", "CELLS"},
	"C04": {"FRAME", "CELLS", "ARGS"},
	"C05": {"FRAME", "CELLS"},
	"C06": {"FRAME", "CELLS", "ARGS"},
	"C07": {"FRAME", "CELLS", "ARGS"},
	"C08": {"FRAME", "CELLS", "ARGS"},
	"C09": {"FRAME", "CELLS", "JSON"},
	"C10": {"FRAME", "ARGS"},
	"C11": {"FRAME"},
	"C12": {"CELLS", "IOERR", "ARGS", "CSVREAD"},
	"C13": {"CELLS", "IOERR", "FRAME", "CSVREAD"},
	"C14": {"JSON", "IOERR", "FRAME", "CELLS"},
	"C15": {"IOERR"},
	"C16": {"JSON"},
	"C17": {"FRAME", "CELLS", "ARGS"},
	"C18": {"FRAME", "CELLS", "ARGS"},
	"C19": {"IOERR", "FRAME", "CELLS"},
}

type evidence struct {
	PropertyID  string                 `json:"property_id"`
	Tier        string                 `json:"tier"`
	Seed        int                    `json:"seed"`
	Level       string                 `json:"level"`
	Coverage    map[string]interface{} `json:"coverage"`
	Assumptions []string               `json:"assumptions"`
	WallS       float64                `json:"wall_s"`
	Violations  int                    `json:"violations"`
}

func main() {
	propID := flag.String("property", "", "property id (C01..C19)")
	tier := flag.String("tier", "quick", "quick|thorough")
	repo := flag.String("repo", "/repo", "checkout of tobgu/qframe to analyse")
	verif := flag.String("verif", "/verif", "verification directory (known_findings.json, evidence/)")
	only := flag.String("rules", "", "comma-separated rule ids to run instead of a property's rules (debugging; writes no evidence)")
	explain := flag.String("explain", "", "violations file to explain (re-runs the property and prints every obligation of the failing rules)")
	list := flag.Bool("list", false, "list properties and rules")
	verbose := flag.Bool("v", false, "print every obligation")
	noEvidence := flag.Bool("no-evidence", false, "do not write evidence files (used for variant runs)")
	var overlays multiFlag
	flag.Var(&overlays, "overlay", "repo-relative-file=replacement-file (analyse a variant without touching the tree; repeatable)")
	flag.Parse()

	if *list {
		ids := []string{}
		for id := range props {
			ids = append(ids, id)
		}
		sort.Strings(ids)
		for _, id := range ids {
			fmt.Printf("%s: %s\n", id, strings.Join(props[id].Rules, " "))
		}
		rids := []string{}
		for id := range rules {
			rids = append(rids, id)
		}
		for _, id := range ruleIDsSorted(rids) {
			fmt.Printf("%-5s %-16s floor=%d  %s\n", id, rules[id].Name, rules[id].Floor, rules[id].Text)
		}
		return
	}
	if *explain != "" {
		b, err := os.ReadFile(*explain)
		if err != nil {
			fatal("explain: %v", err)
		}
		var v struct {
			Property string `json:"property"`
		}
		if err := json.Unmarshal(b, &v); err != nil || v.Property == "" {
			fatal("explain: %s is not a violations file", *explain)
		}
		*propID = v.Property
		*verbose = true
		*noEvidence = true
	}
	if envTier := os.Getenv("VERIF_TIER"); envTier != "" && !isFlagSet("tier") {
		*tier = envTier
	}
	if *tier != "quick" && *tier != "thorough" {
		fatal("bad tier %q", *tier)
	}
	seed := 0
	if s := os.Getenv("VERIF_SEED"); s != "" {
		seed, _ = strconv.Atoi(s)
	}

	var ruleIDs []string
	var spec *PropSpec
	if *only != "" {
		ruleIDs = strings.Split(*only, ",")
		if *only == "all" {
			ruleIDs = nil
			for id := range rules {
				ruleIDs = append(ruleIDs, id)
			}
			ruleIDs = ruleIDsSorted(ruleIDs)
		}
		*noEvidence = true
		spec = &PropSpec{ID: *propID}
		if spec.ID == "" {
			spec.ID = "adhoc"
		}
	} else {
		spec = props[*propID]
		if spec == nil {
			fatal("unknown property %q (use -list)", *propID)
		}
		ruleIDs = spec.Rules
	}
	var notBuilt []string
	{
		var have []string
		for _, id := range ruleIDs {
			if rules[id] == nil {
				if *only != "" {
					fatal("unknown rule %q", id)
				}
				notBuilt = append(notBuilt, id)
				continue
			}
			have = append(have, id)
		}
		ruleIDs = have
	}
	if len(ruleIDs) == 0 {
		fatal("property %s has no built rule", spec.ID)
	}

	start := time.Now()
	overlay := map[string][]byte{}
	for _, o := range overlays {
		i := strings.Index(o, "=")
		if i < 0 {
			fatal("bad -overlay %q", o)
		}
		b, err := os.ReadFile(o[i+1:])
		if err != nil {
			fatal("overlay: %v", err)
		}
		overlay[filepath.Join(*repo, o[:i])] = b
	}
	p, err := loadProg(*repo, overlay)
	if err != nil {
		// A tree that does not load or type-check cannot be judged: fail, never pass vacuously.
		fmt.Printf("qfcheck: cannot analyse %s: %v\n", *repo, err)
		writeViolations(*verif, spec.ID, *tier, []Obligation{{Rule: "LOAD", Key: "LOAD|load", Pos: "-", Status: Undecided, Detail: err.Error()}}, *noEvidence)
		fmt.Printf("VIOLATION property=%s replay=%s\n", spec.ID, violPath(*verif, spec.ID))
		os.Exit(1)
	}
	known, err := loadKnown(filepath.Join(*verif, "known_findings.json"))
	if err != nil {
		fatal("known findings: %v", err)
	}

	var all []Obligation
	perRule := map[string]interface{}{}
	ruleTexts := []string{}
	for _, id := range ruleIDs {
		r := rules[id]
		obls, info := runRule(p, r)
		all = append(all, obls...)
		nOK, nBad, nUnd := 0, 0, 0
		for _, o := range obls {
			switch o.Status {
			case Discharged:
				nOK++
			case Violated:
				nBad++
			default:
				nUnd++
			}
		}
		pr := map[string]interface{}{"name": r.Name, "obligations": len(obls), "discharged": nOK, "violated": nBad, "undecided": nUnd, "floor": r.Floor}
		if info != nil {
			pr["facts"] = info
		}
		perRule[id] = pr
		ruleTexts = append(ruleTexts, fmt.Sprintf("%s %s: %s", r.ID, r.Name, r.Text))
		if *verbose {
			for _, o := range obls {
				fmt.Printf("  [%s] %-10s %s  %s  -- %s\n", o.Rule, o.Status, o.Key, o.Pos, o.Detail)
			}
		}
	}

	var viol []Obligation
	var knownPrinted []string
	nDischarged, nNontrivial := 0, 0
	distinct := map[string]bool{}
	for _, o := range all {
		if o.Status == Discharged {
			nDischarged++
			if !o.Trivial && !distinct[o.Key] {
				distinct[o.Key] = true
				nNontrivial++
			}
			continue
		}
		if e := known.lookup(spec.ID, o.Key); e != nil {
			line := fmt.Sprintf("KNOWN-FINDING: property=%s %s at %s: %s [%s]", spec.ID, o.Key, o.Pos, e.What, o.Detail)
			fmt.Println(line)
			knownPrinted = append(knownPrinted, line)
			continue
		}
		viol = append(viol, o)
	}

	// samples: a spread of actual obligations
	var samples []map[string]string
	step := 1
	if len(all) > 12 {
		step = len(all) / 12
	}
	for i := 0; i < len(all); i += step {
		o := all[i]
		samples = append(samples, map[string]string{"key": o.Key, "pos": o.Pos, "status": string(o.Status), "detail": o.Detail})
	}

	wall := time.Since(start).Seconds()
	fmt.Printf("qfcheck property=%s tier=%s rules=%s packages=%d functions=%d ssa_instructions=%d obligations=%d discharged=%d known=%d violations=%d wall=%.1fs\n",
		spec.ID, *tier, strings.Join(ruleIDs, ","), len(p.Pkgs), len(p.Funcs), p.nInstr, len(all), nDischarged, len(knownPrinted), len(viol), wall)

	cov := map[string]interface{}{
		"explanation":         "DECIDED (static, on the type-checked source of the working tree): " + spec.Decided + laterRules(spec) + " NOT DECIDED: " + spec.NotDecided,
		"obligations":         len(all),
		"discharged":          nDischarged,
		"evaluations":         len(all),
		"distinct_nontrivial": nNontrivial,
		"rule":                "one obligation = (rule, construct) found by type-resolved anchors in /repo; distinct = distinct obligation keys; non-trivial = not a trivially-fresh write or fixture. Rules: " + strings.Join(ruleTexts, " || "),
		"samples":             samples,
		"exhaustive":          true,
		"checker_cmd":         fmt.Sprintf("bin/qfcheck -property %s -tier %s", spec.ID, *tier),
		"trusted_base":        []string{"go/types, go/ssa, go/packages (x/tools v0.29.0)", "qfcheck rule implementations (not mechanically verified)", "Go stdlib behaves as documented"},
		"analysed":            map[string]interface{}{"packages": len(p.Pkgs), "functions": len(p.Funcs), "ssa_instructions": p.nInstr, "repo": *repo},
		"per_rule":            perRule,
		"known_findings":      knownPrinted,
	}
	if len(notBuilt) > 0 {
		cov["rules_listed_but_not_built"] = notBuilt
		cov["explanation"] = cov["explanation"].(string) + " NOTE: rules " + strings.Join(notBuilt, ",") + " named above are not built yet and did not run; the clauses resting only on them are not decided by this run."
	}
	if *tier == "thorough" && *only == "" {
		cov["variants"] = runVariants(spec, *repo, *verif)
	}
	ev := evidence{PropertyID: spec.ID, Tier: *tier, Seed: seed, Level: "other", Coverage: cov,
		Assumptions: append([]string{"static analysis of source only; no qframe code is executed", "user callbacks honour their documented contracts (do not retain or mutate arguments)"}, spec.Assumptions...),
		WallS:       time.Since(start).Seconds(), Violations: len(viol)}
	if !*noEvidence {
		os.MkdirAll(filepath.Join(*verif, "evidence"), 0o755)
		b, _ := json.MarshalIndent(ev, "", " ")
		if err := os.WriteFile(filepath.Join(*verif, "evidence", spec.ID+".json"), b, 0o644); err != nil {
			fatal("write evidence: %v", err)
		}
	}
	if len(viol) > 0 {
		for _, o := range viol {
			fmt.Printf("  %s %s at %s: %s\n", strings.ToUpper(string(o.Status)), o.Key, o.Pos, o.Detail)
		}
		writeViolations(*verif, spec.ID, *tier, viol, *noEvidence)
		fmt.Printf("VIOLATION property=%s replay=%s\n", spec.ID, violPath(*verif, spec.ID))
		os.Exit(1)
	}
	if !*noEvidence {
		os.Remove(violPath(*verif, spec.ID))
	}
}

func violPath(verif, id string) string {
	return filepath.Join(verif, "evidence", id+".violations.json")
}

func writeViolations(verif, id, tier string, viol []Obligation, skip bool) {
	if skip {
		return
	}
	os.MkdirAll(filepath.Join(verif, "evidence"), 0o755)
	b, _ := json.MarshalIndent(map[string]interface{}{"property": id, "tier": tier, "violations": viol}, "", " ")
	os.WriteFile(violPath(verif, id), b, 0o644)
}

type multiFlag []string

func (m *multiFlag) String() string     { return strings.Join(*m, ",") }
func (m *multiFlag) Set(s string) error { *m = append(*m, s); return nil }

func isFlagSet(name string) bool {
	set := false
	flag.Visit(func(f *flag.Flag) {
		if f.Name == name {
			set = true
		}
	})
	return set
}

func fatal(f string, a ...interface{}) {
	fmt.Fprintf(os.Stderr, "qfcheck: "+f+"\n", a...)
	os.Exit(2)
}

// laterRules names the rules of the property that its summary sentence does not mention yet (rules added in
// later rounds); their full texts are in the evidence's rule list and in DESIGN.md section 3.
func laterRules(spec *PropSpec) string {
	var extra []string
	for _, id := range spec.Rules {
		if r := rules[id]; r != nil && !strings.Contains(spec.Decided, id) {
			extra = append(extra, id+" "+r.Name)
		}
	}
	if len(extra) == 0 {
		return ""
	}
	return " Further rules decided for this property (texts in the rule list): " + strings.Join(extra, ", ") + "."
}
