package main

import (
	"fmt"
	"go/token"
	"go/types"
	"strings"

	"golang.org/x/tools/go/ssa"
)

// Index-space typing (engine E2). Logical row numbers are `int`, physical positions are `uint32`
// values that originate from elements of an index.Int.

type idxFacts struct {
	p            *Prog
	storageField map[*types.Var]string // field -> description
	firstPos     *types.Var            // grouper.tableEntry.firstPos
	valuesField  *types.Var            // ecolumn.Column.values
	storageParam map[*ssa.Parameter]bool
	pParam       map[*ssa.Parameter]bool
	lParam       map[*ssa.Parameter]bool // int parameters used as logical row numbers
	missing      []string
}

var columnPkgs = []string{"internal/icolumn", "internal/fcolumn", "internal/bcolumn", "internal/ecolumn", "internal/scolumn"}

func structField(n *types.Named, name string) *types.Var {
	if n == nil {
		return nil
	}
	st, ok := n.Underlying().(*types.Struct)
	if !ok {
		return nil
	}
	for i := 0; i < st.NumFields(); i++ {
		if st.Field(i).Name() == name {
			return st.Field(i)
		}
	}
	return nil
}

func (p *Prog) idxFacts() *idxFacts {
	if p.idx != nil {
		return p.idx
	}
	f := &idxFacts{p: p, storageField: map[*types.Var]string{}, storageParam: map[*ssa.Parameter]bool{}, pParam: map[*ssa.Parameter]bool{}, lParam: map[*ssa.Parameter]bool{}}
	for _, cp := range columnPkgs {
		fieldName := "data"
		if cp == "internal/scolumn" {
			fieldName = "pointers"
		}
		v := structField(p.Named(cp, "Column"), fieldName)
		if v == nil {
			f.missing = append(f.missing, cp+".Column."+fieldName)
			continue
		}
		f.storageField[v] = cp + ".Column." + fieldName
		// typed Comparable / View of the generated columns hold the same slice
		for _, tn := range []string{"Comparable", "View"} {
			if v2 := structField(p.Named(cp, tn), "data"); v2 != nil {
				f.storageField[v2] = cp + "." + tn + ".data"
			}
		}
	}
	f.valuesField = structField(p.Named("internal/ecolumn", "Column"), "values")
	f.infer()
	// the hash table's entry struct: a struct of internal/grouper with an index.Int field; its position
	// field is the uint32 field that is assigned a physical position (the other uint32 is the hash)
	if es := entryStruct(p); es != nil {
		st := es.Underlying().(*types.Struct)
		for _, fn := range p.FuncsIn("internal/grouper") {
			eachInstr(fn, func(in ssa.Instruction) {
				s, ok := in.(*ssa.Store)
				if !ok || f.firstPos != nil {
					return
				}
				fa, ok := s.Addr.(*ssa.FieldAddr)
				if !ok || !types.Identical(deref(fa.X.Type()), es) {
					return
				}
				fld := st.Field(fa.Field)
				if isUint32(fld.Type()) && f.isP(s.Val) {
					f.firstPos = fld
				}
			})
		}
	}
	if f.firstPos == nil {
		f.missing = append(f.missing, "internal/grouper: position field of the hash table entry")
	} else {
		f.infer() // positions read back from the entry may feed further parameters
	}
	p.idx = f
	return f
}

func isIntIndexType(t types.Type) bool { return isNamed(t, rel("internal/index"), "Int") }

var entryStructCache = map[*Prog]*types.Named{}

// entryStruct: the named struct type of internal/grouper that has an index.Int field and a bool field
// (the open-addressing table's entry), whatever it is called.
func entryStruct(p *Prog) *types.Named {
	if n, ok := entryStructCache[p]; ok {
		return n
	}
	var found *types.Named
	if pk := p.PkgByID[rel("internal/grouper")]; pk != nil {
		sc := pk.Types.Scope()
		for _, name := range sc.Names() {
			tn, ok := sc.Lookup(name).(*types.TypeName)
			if !ok {
				continue
			}
			st, ok := tn.Type().Underlying().(*types.Struct)
			if !ok {
				continue
			}
			hasIx, hasBool := false, false
			for i := 0; i < st.NumFields(); i++ {
				if isIntIndexType(st.Field(i).Type()) {
					hasIx = true
				}
				if b, ok := st.Field(i).Type().(*types.Basic); ok && b.Kind() == types.Bool {
					hasBool = true
				}
			}
			if hasIx && hasBool {
				found, _ = tn.Type().(*types.Named)
			}
		}
	}
	entryStructCache[p] = found
	return found
}

func isUint32(t types.Type) bool {
	b, ok := t.Underlying().(*types.Basic)
	return ok && b.Kind() == types.Uint32
}

// fieldOf returns the struct field read by v (Field, or load through FieldAddr), or nil.
func fieldOf(v ssa.Value) (*types.Var, ssa.Value) {
	switch t := v.(type) {
	case *ssa.Field:
		if st, ok := t.X.Type().Underlying().(*types.Struct); ok {
			return st.Field(t.Field), t.X
		}
	case *ssa.UnOp:
		if t.Op == token.MUL {
			if fa, ok := t.X.(*ssa.FieldAddr); ok {
				if st, ok := deref(fa.X.Type()).Underlying().(*types.Struct); ok {
					return st.Field(fa.Field), fa.X
				}
			}
		}
	}
	return nil, nil
}

func (f *idxFacts) isStorage(v ssa.Value) bool { return f.isStorageD(v, 0) }
func (f *idxFacts) isStorageD(v ssa.Value, d int) bool {
	if d > 8 {
		return false
	}
	if fld, x := fieldOf(v); fld != nil {
		_, ok := f.storageField[fld]
		if ok && compactedByIndex(x) {
			// the data of a column that a callee built from (column, index): compact, physical = logical
			return false
		}
		return ok
	}
	switch t := v.(type) {
	case *ssa.Parameter:
		return f.storageParam[t]
	case *ssa.Phi:
		for _, e := range t.Edges {
			if e != t && f.isStorageD(e, d+1) {
				return true
			}
		}
	case *ssa.Slice:
		return f.isStorageD(t.X, d+1)
	case *ssa.ChangeType:
		return f.isStorageD(t.X, d+1)
	}
	return false
}

// compactedByIndex: x is the Column result of a module function that was handed a row index
// (subset, subsetWithBuf): the callee translated positions, the result is compact.
func compactedByIndex(x ssa.Value) bool {
	x = singleDef(x)
	call, ok := x.(*ssa.Call)
	if !ok {
		return false
	}
	callee := call.Call.StaticCallee()
	if callee == nil || callee.Pkg == nil || !inModule(callee.Pkg.Pkg) {
		return false
	}
	for _, a := range call.Call.Args {
		if isIntIndexType(a.Type()) {
			return true
		}
	}
	return false
}

// isP: v is a physical position.
func (f *idxFacts) isP(v ssa.Value) bool { return f.isPD(v, map[ssa.Value]bool{}) }
func (f *idxFacts) isPD(v ssa.Value, seen map[ssa.Value]bool) bool {
	if seen[v] {
		return true // cycles through phis are neutral
	}
	seen[v] = true
	if fld, _ := fieldOf(v); fld != nil && fld == f.firstPos {
		return true
	}
	switch t := v.(type) {
	case *ssa.Parameter:
		return f.pParam[t]
	case *ssa.UnOp:
		if t.Op == token.MUL {
			if ia, ok := t.X.(*ssa.IndexAddr); ok && isIntIndexType(stripSliceOps(ia.X).Type()) {
				return true
			}
		}
	case *ssa.Phi:
		if len(t.Edges) == 0 {
			return false
		}
		for _, e := range t.Edges {
			if !f.isPD(e, seen) {
				return false
			}
		}
		return true
	case *ssa.Extract:
		// value of `range` over an index.Int handled as loads; nothing else yields positions
	}
	return false
}

// stripSliceOps strips re-slicing so that ix[a:b][i] is still an index.Int access.
func stripSliceOps(v ssa.Value) ssa.Value {
	for {
		s, ok := v.(*ssa.Slice)
		if !ok {
			return v
		}
		v = s.X
	}
}

func (f *idxFacts) infer() {
	res := f.p.resolver()
	changed := true
	for changed {
		changed = false
		for _, fn := range f.p.Funcs {
			eachInstr(fn, func(in ssa.Instruction) {
				switch t := in.(type) {
				case *ssa.IndexAddr:
					// an int parameter used to index a row index is a logical-row parameter
					if bt := stripSliceOps(t.X).Type(); isIntIndexType(bt) || isBoolIndex(bt) {
						if pr, ok := t.Index.(*ssa.Parameter); ok && !f.lParam[pr] {
							f.lParam[pr] = true
							changed = true
						}
					}
					// a uint32 parameter used to index storage is a position parameter
					if f.isStorage(t.X) {
						if pr, ok := stripConv(t.Index).(*ssa.Parameter); ok && isUint32(pr.Type()) && !f.pParam[pr] {
							f.pParam[pr] = true
							changed = true
						}
					}
				case ssa.CallInstruction:
					for _, callee := range res.callees(t) {
						args := argsFor(t, callee)
						if args == nil {
							continue
						}
						for i, a := range args {
							prm := callee.Params[i]
							if f.isStorage(a) && !f.storageParam[prm] {
								f.storageParam[prm] = true
								changed = true
							}
							if f.lParam[prm] {
								if pr, ok := a.(*ssa.Parameter); ok && !f.lParam[pr] {
									f.lParam[pr] = true
									changed = true
								}
							}
							// caller's position parameter is inferred from the callee's
							if f.pParam[prm] {
								if pr, ok := stripConv(a).(*ssa.Parameter); ok && isUint32(pr.Type()) && !f.pParam[pr] {
									f.pParam[pr] = true
									changed = true
								}
							}
						}
					}
					// interface methods of column.Column / column.Comparable with uint32 parameters
				}
			})
		}
	}
}

// accessPath gives a function-local name for the storage a value denotes (for "same slice" tests).
func accessPath(v ssa.Value) string {
	if fld, x := fieldOf(v); fld != nil {
		return accessPath(x) + "." + fld.Name()
	}
	switch t := v.(type) {
	case *ssa.Parameter:
		return "p:" + t.Name()
	case *ssa.UnOp:
		if t.Op == token.MUL {
			return accessPath(t.X)
		}
	case *ssa.Alloc:
		return "l:" + t.Name()
	case *ssa.ChangeType:
		return accessPath(t.X)
	case *ssa.Slice:
		if t.Low == nil && t.High == nil {
			return accessPath(t.X)
		}
	case *ssa.FieldAddr:
		if st, ok := deref(t.X.Type()).Underlying().(*types.Struct); ok {
			return accessPath(t.X) + "." + st.Field(t.Field).Name()
		}
	case *ssa.TypeAssert:
		return accessPath(t.X)
	case *ssa.Extract:
		return accessPath(t.Tuple) + fmt.Sprintf("#%d", t.Index)
	}
	return "v:" + v.Name()
}

// rangeKeyOf reports whether idx is the key variable of a `for k := range base` loop
// (rotated SSA form: k = phi[-1, k+1]; k+1 < len(base)).
func rangeKeyOf(idx ssa.Value, base ssa.Value) bool {
	if classicCounterOf(idx, base) {
		return true
	}
	add, ok := idx.(*ssa.BinOp)
	if !ok || add.Op != token.ADD {
		return false
	}
	if c, ok := constInt(add.Y); !ok || c != 1 {
		return false
	}
	phi, ok := add.X.(*ssa.Phi)
	if !ok || len(phi.Edges) < 2 {
		return false
	}
	nInit := 0
	for _, e := range phi.Edges {
		if c, ok := constInt(e); ok && c == -1 {
			nInit++
		} else if e != ssa.Value(add) {
			return false
		}
	}
	if nInit != 1 {
		return false
	}
	want := accessPath(base)
	for _, r := range *add.Referrers() {
		cmp, ok := r.(*ssa.BinOp)
		if !ok || cmp.Op != token.LSS || cmp.X != add {
			continue
		}
		if call, ok := cmp.Y.(*ssa.Call); ok && builtinName(call) == "len" && len(call.Call.Args) == 1 {
			if accessPath(call.Call.Args[0]) == want {
				return true
			}
		}
	}
	return false
}

func init() {
	register(&Rule{ID: "R6", Name: "IDX-SPACE", Floor: 150,
		Text: "logical row numbers are int, physical positions are uint32 values read from an index.Int: (P) every element access on column storage ({i,f,b,e}column data, scolumn pointers, and slice parameters that receive them) is indexed by a position (element of an index.Int, a position parameter, tableEntry.firstPos, a phi of those) or by the key of a range over that same slice; (L) every access to an index.Int/index.Bool is indexed by an int that is not a converted position; (6a) every argument bound to an inferred position parameter is a position; (6e) no (converted) position is bound to an inferred logical-row parameter; (6f) two positions are never compared for order (<, <=, >, >=), only for identity; (6g) a function that works through a row index (an index.Int parameter, or a receiver carrying one: the views) never reads column storage in bulk (copy / append of the storage slice or a re-slice of it): bulk reads deliver storage order, whatever shortcut test of the index's end points precedes them",
		Run:  runR6})
	register(&Rule{ID: "R7", Name: "IDX-PROV", Floor: 10,
		Text: "every uint32 written into an index.Int (element store, append, composite literal) or into tableEntry.firstPos is a position in the sense of R6: derived indexes contain only positions read from the parent index (frozen exceptions: index.NewAscending, QFrame.Append); the identity index built by index.NewAscending is stored only into the index field of a new frame whose columns slice is allocated in the same function (qframe.New, Grouper.Aggregate) - never into a grouper or a frame that reuses existing columns",
		Run:  runR7})
}

var r7Exempt = map[string]string{
	"internal/index.NewAscending": "builds the identity index of a frame with fresh columns (physical = logical)",
	"(qframe.QFrame).Append":      "work-in-progress API outside every property: offsets positions of appended frames arithmetically",
}

func runR6(c *Ctx) {
	p := c.P
	f := p.idxFacts()
	for _, m := range f.missing {
		c.undecided("anchor|"+m, "-", "storage field no longer resolves")
	}
	res := p.resolver()
	nP, nL, nScan, nEq := 0, 0, 0, 0
	for _, fn := range p.Funcs {
		fnm := fname(fn)
		// (6g) does the function work through a row index? (an index.Int parameter, or a receiver that carries one)
		hasRowIndex := false
		for _, prm := range fn.Params {
			if isIntIndexType(prm.Type()) {
				hasRowIndex = true
			}
			if st, ok := deref(prm.Type()).Underlying().(*types.Struct); ok && prm == fn.Params[0] && fn.Signature.Recv() != nil {
				for i := 0; i < st.NumFields(); i++ {
					if isIntIndexType(st.Field(i).Type()) {
						hasRowIndex = true
					}
				}
			}
		}
		eachInstr(fn, func(in ssa.Instruction) {
			switch t := in.(type) {
			case *ssa.IndexAddr:
				base := stripSliceOps(t.X)
				switch {
				case f.isStorage(t.X):
					key := fnm + "|P-access " + accessPath(t.X)
					idx := stripConvInt(t.Index)
					if f.isP(idx) {
						nP++
						c.ok(key, p.instrPos(t), "indexed by a physical position")
					} else if rangeKeyOf(t.Index, t.X) {
						nScan++
						c.ok(key, p.instrPos(t), "whole-storage scan: key of a range over the same slice")
					} else {
						c.bad(key, p.instrPos(t), fmt.Sprintf("column storage indexed by %s, which is not a physical position taken from the row index (logical row number used as position?)", describe(t.Index)))
					}
				case isIntIndexType(base.Type()) || isBoolIndex(base.Type()):
					key := fnm + "|L-access " + accessPath(base)
					if _, identity := r7Exempt[fnm]; identity {
						nL++
						c.okTrivial(key, p.instrPos(t), "builder of the identity index: row number and position coincide")
						return
					}
					if bt, ok := t.Index.Type().Underlying().(*types.Basic); !ok || bt.Kind() != types.Int && bt.Kind() != types.UntypedInt {
						c.bad(key, p.instrPos(t), fmt.Sprintf("row index accessed with a %s; logical row numbers are int", t.Index.Type()))
						return
					}
					if cv, ok := t.Index.(*ssa.Convert); ok && f.isP(cv.X) {
						c.bad(key, p.instrPos(t), "row index accessed with a converted physical position (position used as logical row number)")
						return
					}
					nL++
					c.okTrivial(key, p.instrPos(t), "indexed by an int row number")
				}
			case *ssa.BinOp:
				// (6f) positions are identities: equality is meaningful, order is an accident of physical layout
				switch t.Op {
				case token.LSS, token.GTR, token.LEQ, token.GEQ:
					if f.isP(stripConvInt(t.X)) && f.isP(stripConvInt(t.Y)) {
						c.bad(fnm+"|P-order", p.instrPos(t), fmt.Sprintf("two physical positions are compared for order (%s %s %s): the outcome depends on where rows happen to be stored, so frames with equal content behave differently", describe(t.X), t.Op, describe(t.Y)))
					}
				case token.EQL, token.NEQ:
					if f.isP(stripConvInt(t.X)) && f.isP(stripConvInt(t.Y)) {
						nEq++
						c.okTrivial(fnm+"|P-identity", p.instrPos(t), "positions compared for identity only")
					}
				}
			case ssa.CallInstruction:
				// bulk reads of column storage (copy / append of the storage slice or a re-slice of it) deliver the
				// cells in physical order; a function that works through a row index must go through that index
				if call, isCall := in.(*ssa.Call); isCall && hasRowIndex && (builtinName(call) == "copy" || builtinName(call) == "append") && len(call.Call.Args) == 2 {
					src := call.Call.Args[1]
					if f.isStorage(stripSliceOps(src)) || f.isStorage(src) {
						key := fnm + "|bulk read of " + accessPath(stripSliceOps(src))
						c.bad(key, p.instrPos(t), "column storage is copied in bulk (physical order) in a function that works through a row index: for a frame whose index is a permutation or a subset with gaps (after Sort, Filter) the cells come out in storage order, not in frame order - whatever test of the index's first and last entries precedes it")
					}
				}
				for _, callee := range res.callees(t) {
					args := argsFor(t, callee)
					if args == nil {
						continue
					}
					for i, a := range args {
						if f.lParam[callee.Params[i]] {
							// (6e) a logical-row parameter must not receive a (converted) physical position
							key := fnm + "|L-arg to " + fname(callee) + "." + callee.Params[i].Name()
							if f.isP(stripConvInt(a)) {
								c.bad(key, p.instrPos(t), fmt.Sprintf("a physical position (%s) is passed where %s expects a logical row number: the row is translated through the index twice", describe(a), fname(callee)))
							} else {
								c.okTrivial(key, p.instrPos(t), "logical row number")
							}
						}
						if !f.pParam[callee.Params[i]] {
							continue
						}
						key := fnm + "|P-arg to " + fname(callee) + "." + callee.Params[i].Name()
						if f.isP(stripConvInt(a)) {
							c.ok(key, p.instrPos(t), "argument is a physical position")
						} else {
							c.bad(key, p.instrPos(t), fmt.Sprintf("%s is passed where %s expects a physical position", describe(a), fname(callee)))
						}
					}
				}
			}
		})
	}
	c.note("position_indexed_accesses", nP)
	c.note("whole_storage_scans", nScan)
	c.note("row_index_accesses", nL)
	c.note("position_identity_comparisons", nEq)
	var pp []string
	for prm := range f.pParam {
		pp = append(pp, fname(prm.Parent())+"."+prm.Name())
	}
	c.note("inferred_position_params", len(pp))
	var sp []string
	for prm := range f.storageParam {
		sp = append(sp, fname(prm.Parent())+"."+prm.Name())
	}
	c.note("inferred_storage_params", len(sp))
}

// stripConvInt strips integer->integer conversions of a position that keep its value (uint32 -> int/uint64).
func stripConvInt(v ssa.Value) ssa.Value {
	for {
		cv, ok := v.(*ssa.Convert)
		if !ok {
			return v
		}
		if !isUint32(cv.X.Type()) {
			return v
		}
		v = cv.X
	}
}

func describe(v ssa.Value) string {
	switch t := v.(type) {
	case *ssa.Const:
		return "constant " + t.String()
	case *ssa.Convert:
		return fmt.Sprintf("a conversion %s(%s)", t.Type(), describe(t.X))
	case *ssa.Parameter:
		return "parameter " + t.Name()
	case *ssa.BinOp:
		if rangeLike(t) {
			return "a loop counter"
		}
		return "the arithmetic result " + t.Name() + " = " + strings.TrimSpace(t.String())
	case *ssa.Phi:
		return "loop variable " + t.Comment
	}
	return v.Name() + " = " + v.String()
}

func rangeLike(b *ssa.BinOp) bool {
	if b.Op != token.ADD {
		return false
	}
	_, ok := b.X.(*ssa.Phi)
	return ok
}

func runR7(c *Ctx) {
	p := c.P
	f := p.idxFacts()
	for _, fn := range p.Funcs {
		fnm := fname(fn)
		if why, ok := r7Exempt[fnm]; ok {
			c.note("exempt "+fnm, why)
			continue
		}
		eachInstr(fn, func(in ssa.Instruction) {
			switch t := in.(type) {
			case *ssa.Store:
				switch a := t.Addr.(type) {
				case *ssa.IndexAddr:
					base := stripSliceOps(a.X)
					isIdx := isIntIndexType(base.Type())
					if !isIdx {
						// backing array of an index.Int literal or of append's variadic argument
						if al, ok := base.(*ssa.Alloc); ok && flowsToIntIndex(al) {
							isIdx = true
						}
					}
					if !isIdx {
						return
					}
					key := fnm + "|index element"
					if f.isP(t.Val) {
						c.ok(key, p.instrPos(t), "value is a position read from an index / position parameter")
					} else {
						c.bad(key, p.instrPos(t), fmt.Sprintf("%s is written into a row index: a derived index must contain only positions taken from its parent index", describe(t.Val)))
					}
				case *ssa.FieldAddr:
					st, ok := deref(a.X.Type()).Underlying().(*types.Struct)
					if !ok || st.Field(a.Field) != f.firstPos {
						return
					}
					key := fnm + "|tableEntry.firstPos"
					if f.isP(t.Val) {
						c.ok(key, p.instrPos(t), "first position of a group is a position of the frame")
					} else {
						c.bad(key, p.instrPos(t), fmt.Sprintf("%s stored as a group's first position", describe(t.Val)))
					}
				}
			case ssa.CallInstruction:
				if call, ok := t.(*ssa.Call); ok && isFuncNamed(calleeObj(call), rel("internal/index"), "", "NewAscending") && fn.Pkg.Pkg.Path() != rel("internal/index") {
					// the identity index 0..n-1 is the index of a frame whose columns were all built here
					key := fnm + "|identity index"
					bad := ""
					for _, r := range *call.Referrers() {
						switch u := r.(type) {
						case *ssa.DebugRef:
						case *ssa.Store:
							fa, ok := u.Addr.(*ssa.FieldAddr)
							if !ok || u.Val != ssa.Value(call) || !isFrameType(deref(fa.X.Type())) || fieldNameAt(fa) != "index" {
								bad = "it is stored somewhere else than in the index field of a new frame"
								break
							}
							// the columns stored into the same frame value
							okCols := false
							if refs := fa.X.Referrers(); refs != nil {
								for _, r2 := range *refs {
									fa2, ok := r2.(*ssa.FieldAddr)
									if !ok || fieldNameAt(fa2) != "columns" {
										continue
									}
									for _, r3 := range *fa2.Referrers() {
										if st, ok := r3.(*ssa.Store); ok && st.Addr == ssa.Value(fa2) {
											okCols = freshSlice(st.Val, map[ssa.Value]bool{})
											if !okCols {
												bad = "the frame it indexes reuses existing columns (" + describe(st.Val) + "): their rows are addressed through the frame's own index, not 0..n-1"
											}
										}
									}
								}
							}
							if !okCols && bad == "" {
								bad = "the frame it indexes has no freshly built columns"
							}
						default:
							bad = "it is used as a row index of existing rows (" + r.String() + ")"
						}
					}
					if bad == "" {
						c.ok(key, p.instrPos(t), "indexes a frame whose columns are built in this function")
					} else {
						c.bad(key, p.instrPos(t), "index.NewAscending builds the identity index, valid only for freshly built columns: "+bad)
					}
				}
				b := builtinName(t)
				args := t.Common().Args
				if b == "copy" && len(args) == 2 && isIntIndexType(stripSliceOps(args[0]).Type()) {
					key := fnm + "|copy into index"
					if isIntIndexType(stripSliceOps(args[1]).Type()) {
						c.ok(key, p.instrPos(t), "copies positions from another index")
					} else {
						c.bad(key, p.instrPos(t), "copy into a row index from something that is not a row index")
					}
				}
				if b == "append" && len(args) == 2 && isIntIndexType(args[0].Type()) {
					// append(ix, other...) with a slice operand
					src := stripSliceOps(args[1])
					if _, isAlloc := src.(*ssa.Alloc); isAlloc {
						return // element stores into the variadic backing array are judged above
					}
					key := fnm + "|append slice to index"
					if isIntIndexType(src.Type()) {
						c.ok(key, p.instrPos(t), "appends positions from another index")
					} else {
						c.bad(key, p.instrPos(t), "appends a non-index slice to a row index")
					}
				}
			}
		})
	}
}

// flowsToIntIndex: the array allocation is sliced and the slice becomes an index.Int
// (composite literal) or the variadic argument of append on an index.Int.
func flowsToIntIndex(al *ssa.Alloc) bool {
	arr, ok := deref(al.Type()).Underlying().(*types.Array)
	if !ok || !isUint32(arr.Elem()) {
		return false
	}
	for _, r := range *al.Referrers() {
		sl, ok := r.(*ssa.Slice)
		if !ok {
			continue
		}
		if isIntIndexType(sl.Type()) {
			return true
		}
		for _, r2 := range *sl.Referrers() {
			switch t := r2.(type) {
			case *ssa.ChangeType:
				if isIntIndexType(t.Type()) {
					return true
				}
			case ssa.CallInstruction:
				if builtinName(t) == "append" && isIntIndexType(t.Common().Args[0].Type()) {
					return true
				}
			}
		}
	}
	return false
}

// singleDef resolves a local variable cell (Alloc) that is assigned exactly once to the assigned value.
func singleDef(x ssa.Value) ssa.Value {
	al, ok := x.(*ssa.Alloc)
	if !ok {
		return x
	}
	var val ssa.Value
	n := 0
	for _, r := range *al.Referrers() {
		if st, ok := r.(*ssa.Store); ok && st.Addr == al {
			val = st.Val
			n++
		}
	}
	if n == 1 {
		return val
	}
	return x
}

func fieldNameAt(fa *ssa.FieldAddr) string {
	st, ok := deref(fa.X.Type()).Underlying().(*types.Struct)
	if !ok {
		return ""
	}
	return st.Field(fa.Field).Name()
}

// freshSlice: v is a slice allocated in this function (make, append to such, re-slice of such).
// freshResult: result number i of h is a freshly allocated slice on every return.
func freshResult(h *ssa.Function, i int, seen map[ssa.Value]bool) bool {
	n, ok := 0, true
	eachInstr(h, func(in ssa.Instruction) {
		if r, isRet := in.(*ssa.Return); isRet && i < len(r.Results) {
			n++
			if !freshSlice(r.Results[i], seen) {
				ok = false
			}
		}
	})
	return n > 0 && ok
}

func freshSlice(v ssa.Value, seen map[ssa.Value]bool) bool {
	if seen[v] {
		return true
	}
	seen[v] = true
	switch t := v.(type) {
	case *ssa.MakeSlice:
		return true
	case *ssa.Slice:
		if al, ok := t.X.(*ssa.Alloc); ok {
			_, isArr := deref(al.Type()).Underlying().(*types.Array)
			return isArr
		}
		return freshSlice(t.X, seen)
	case *ssa.Call:
		if builtinName(t) == "append" && len(t.Call.Args) > 0 {
			return freshSlice(t.Call.Args[0], seen)
		}
		// the single result of a module helper all of whose returns are fresh slices
		if h := t.Call.StaticCallee(); h != nil && h.Blocks != nil && h.Pkg != nil && inModule(h.Pkg.Pkg) && h.Signature.Results().Len() == 1 {
			return freshResult(h, 0, seen)
		}
	case *ssa.Extract:
		if call, ok := t.Tuple.(*ssa.Call); ok {
			if h := call.Call.StaticCallee(); h != nil && h.Blocks != nil && h.Pkg != nil && inModule(h.Pkg.Pkg) {
				return freshResult(h, t.Index, seen)
			}
		}
	case *ssa.Phi:
		for _, e := range t.Edges {
			if !freshSlice(e, seen) {
				return false
			}
		}
		return len(t.Edges) > 0
	case *ssa.UnOp:
		if t.Op == token.MUL {
			if al, ok := t.X.(*ssa.Alloc); ok {
				n := 0
				for _, r := range *al.Referrers() {
					if st, ok := r.(*ssa.Store); ok && st.Addr == ssa.Value(al) {
						n++
						if !freshSlice(st.Val, seen) {
							return false
						}
					}
				}
				return n > 0
			}
		}
	case *ssa.Const:
		return t.IsNil()
	}
	return false
}

// classicCounterOf: idx is the counter of `for i := 0; i < len(base); i++` (or `i < n` with n := len(base)):
// a phi that starts at 0, is advanced by 1, and whose loop condition compares it with the length of base.
func classicCounterOf(idx ssa.Value, base ssa.Value) bool {
	phi, ok := idx.(*ssa.Phi)
	if !ok || len(phi.Edges) != 2 {
		return false
	}
	zero, step := false, false
	for _, e := range phi.Edges {
		if k, ok := constInt(e); ok && k == 0 {
			zero = true
		}
		if add, ok := e.(*ssa.BinOp); ok && add.Op == token.ADD && add.X == ssa.Value(phi) {
			if k, ok := constInt(add.Y); ok && k == 1 {
				step = true
			}
		}
	}
	if !zero || !step {
		return false
	}
	want := accessPath(base)
	for _, r := range *phi.Referrers() {
		cmp, ok := r.(*ssa.BinOp)
		if !ok || cmp.Op != token.LSS || cmp.X != ssa.Value(phi) || cmp.Block() != phi.Block() {
			continue
		}
		if call, ok := cmp.Y.(*ssa.Call); ok && builtinName(call) == "len" && accessPath(call.Call.Args[0]) == want {
			return true
		}
	}
	return false
}
