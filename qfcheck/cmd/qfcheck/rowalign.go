package main

import (
	"fmt"
	"go/token"
	"go/types"

	"golang.org/x/tools/go/ssa"
)

func init() {
	register(&Rule{ID: "R40", Name: "CALLBACK-ORDER", Floor: 30,
		Text: "every call of a user-supplied function value (a func-typed parameter, or a type assertion/switch on an interface-typed parameter such as Instruction.Fn, Filter.Comparator, Aggregation.Fn) in the column packages and the root package happens inside a loop, and every loop enclosing it ranges over a row index (index.Int, index.Bool or []index.Int): the callback runs once per row of the frame, in frame order, never per physical slot or per distinct value; and, except in filter kernels that range over the boolean accumulator and skip rows already decided, every path through an iteration of its innermost row loop passes a call of that function value (one call, or one per branch), so no row is skipped (null rows included) and no result is reused from another row",
		Run:  runR40})
	register(&Rule{ID: "R42", Name: "ROW-ALIGN", Floor: 80,
		Text: "(6b) a fresh slice written at physical positions is allocated with the column's physical length (len of column storage or a Column.Len()), not the index length; (6c) a value stored at position p (or at row k of a boolean index) is computed only from cells read at that same position p (resp. at index[k] for the same k): source and destination are the same row",
		Run:  runR42})
}

// loopInfo describes a rotated range loop `for k := range X` or a classic counted loop.
type loopInfo struct {
	header *ssa.BasicBlock
	base   ssa.Value // X for range loops, nil for other loops
	key    ssa.Value
}

// loopsOf finds the natural loops of fn by back edges, and recognises range-over-slice loops.
func loopsOf(fn *ssa.Function) []loopInfo {
	var out []loopInfo
	seen := map[*ssa.BasicBlock]bool{}
	for _, b := range fn.Blocks {
		for _, s := range b.Succs {
			if s.Dominates(b) && !seen[s] { // back edge b -> s
				seen[s] = true
				li := loopInfo{header: s}
				// range pattern: header has k = phi[-1, k+1]; k+1 < len(X)
				for _, in := range s.Instrs {
					add, ok := in.(*ssa.BinOp)
					if !ok || add.Op != token.ADD {
						continue
					}
					for _, r := range *add.Referrers() {
						cmp, ok := r.(*ssa.BinOp)
						if !ok || cmp.Op != token.LSS || cmp.X != add {
							continue
						}
						if call, ok := cmp.Y.(*ssa.Call); ok && builtinName(call) == "len" {
							if rangeKeyOf(add, call.Call.Args[0]) {
								li.base, li.key = call.Call.Args[0], add
							}
						}
					}
				}
				// classic counted loop: i = phi[0, i+1] in the header, which branches on i < len(X)
				if li.base == nil {
					for _, in := range s.Instrs {
						phi, ok := in.(*ssa.Phi)
						if !ok {
							break
						}
						for _, r := range *phi.Referrers() {
							cmp, ok := r.(*ssa.BinOp)
							if !ok || cmp.Op != token.LSS || cmp.X != ssa.Value(phi) || cmp.Block() != s {
								continue
							}
							if call, ok := cmp.Y.(*ssa.Call); ok && builtinName(call) == "len" && classicCounterOf(phi, call.Call.Args[0]) {
								li.base, li.key = call.Call.Args[0], phi
							}
						}
					}
				}
				out = append(out, li)
			}
		}
	}
	return out
}

func inLoop(li loopInfo, b *ssa.BasicBlock) bool {
	if b == nil || !li.header.Dominates(b) {
		return false
	}
	for _, r := range reachableAvoiding(b, nil) {
		if r == li.header {
			return true
		}
	}
	return false
}

func isRowIndexType(t types.Type) bool {
	if isIntIndexType(t) || isBoolIndex(t) {
		return true
	}
	if s, ok := t.Underlying().(*types.Slice); ok && isIntIndexType(s.Elem()) {
		return true
	}
	return false
}

// userFuncOrigin reports whether the callee value of a dynamic call is user supplied.
func userFuncOrigin(v ssa.Value, depth int) (bool, string) {
	if depth > 6 {
		return false, ""
	}
	switch t := v.(type) {
	case *ssa.Parameter:
		if _, ok := t.Type().Underlying().(*types.Signature); ok {
			return true, "func parameter " + t.Name()
		}
	case *ssa.TypeAssert:
		if pr, ok := rootValue(t.X).(*ssa.Parameter); ok {
			return true, "type assertion on parameter " + pr.Name()
		}
		if f, _ := fieldOf(t.X); f != nil {
			return true, "type assertion on field " + f.Name()
		}
	case *ssa.Extract:
		return userFuncOrigin(t.Tuple, depth+1)
	case *ssa.Phi:
		for _, e := range t.Edges {
			if ok, how := userFuncOrigin(e, depth+1); ok {
				return true, how
			}
		}
	case *ssa.UnOp:
		if t.Op == token.MUL {
			if al, ok := t.X.(*ssa.Alloc); ok {
				for _, r := range *al.Referrers() {
					if st, ok := r.(*ssa.Store); ok && st.Addr == al {
						if ok, how := userFuncOrigin(st.Val, depth+1); ok {
							return true, how
						}
					}
				}
			}
		}
	}
	return false, ""
}

func runR40(c *Ctx) {
	p := c.P
	scope := map[string]bool{rel(""): true}
	for _, cp := range columnPkgs {
		scope[rel(cp)] = true
	}
	for _, fn := range p.Funcs {
		if !scope[fn.Pkg.Pkg.Path()] {
			continue
		}
		var loops []loopInfo
		loopsDone := false
		eachInstr(fn, func(in ssa.Instruction) {
			ci, ok := in.(ssa.CallInstruction)
			if !ok {
				return
			}
			cc := ci.Common()
			if cc.IsInvoke() || cc.StaticCallee() != nil || builtinName(ci) != "" {
				return
			}
			isUser, how := userFuncOrigin(cc.Value, 0)
			if !isUser {
				return
			}
			if prm, ok := cc.Value.(*ssa.Parameter); ok && p.moduleSuppliedFuncParam(prm) {
				return // a helper parametrised by module functions (fold(values, integer.Max)), not a user callback
			}
			// row callbacks only: option/config callbacks take a config pointer, not cells
			if !loopsDone {
				loops, loopsDone = loopsOf(fn), true
			}
			key := fname(fn) + "|callback " + cc.Signature().String()
			pos := p.instrPos(in)
			n := 0
			for _, li := range loops {
				if !inLoop(li, in.Block()) {
					continue
				}
				n++
				if li.base == nil || !isRowIndexType(li.base.Type()) {
					what := "a loop that is not a range over a row index"
					if li.base != nil {
						what = "a range over " + accessPath(li.base) + " (" + li.base.Type().String() + ")"
					}
					c.bad(key, pos, fmt.Sprintf("user callback (%s) is invoked inside %s: it must run once per row of the frame in frame order, not per physical slot / distinct value", how, what))
					return
				}
			}
			if n == 0 {
				c.bad(key, pos, fmt.Sprintf("user callback (%s) is invoked outside any per-row loop", how))
				return
			}
			// executed on every iteration of the innermost row loop: the call dominates every back edge
			var inner *loopInfo
			for i := range loops {
				li := &loops[i]
				if inLoop(*li, in.Block()) && (inner == nil || inner.header.Dominates(li.header)) {
					inner = li
				}
			}
			// the calls of the same function value in this loop (a null branch and a non-null branch may each call it)
			sameFn := map[*ssa.BasicBlock]bool{in.Block(): true}
			eachInstr(fn, func(i2 ssa.Instruction) {
				c2, ok := i2.(ssa.CallInstruction)
				if ok && c2.Common().Value == cc.Value && inLoop(*inner, i2.Block()) {
					sameFn[i2.Block()] = true
				}
			})
			coveredLatch := func(pred *ssa.BasicBlock) bool {
				if sameFn[pred] {
					return true
				}
				// is pred reachable from the loop body without passing a call of the function?
				for _, succ := range inner.header.Succs {
					if !inLoop(*inner, succ) || succ == inner.header {
						continue
					}
					for _, rb := range reachableAvoiding(succ, func(b *ssa.BasicBlock) bool { return sameFn[b] || b == inner.header || !inLoop(*inner, b) }) {
						if rb == pred {
							return false
						}
					}
				}
				return true
			}
			for _, pred := range inner.header.Preds {
				if inner.base != nil && isBoolIndex(inner.base.Type()) {
					break // filter kernels range over the boolean accumulator and skip rows already decided (R3)
				}
				if !inner.header.Dominates(pred) {
					continue // loop entry edge
				}
				if !coveredLatch(pred) {
					c.bad(key, pos, fmt.Sprintf("user callback (%s) is not invoked on every iteration of its row loop: an iteration can reach the next one (via %s) without the call - rows are skipped or results are memoised per value", how, p.pos(pred.Instrs[len(pred.Instrs)-1].Pos())))
					return
				}
			}
			c.ok(key, pos, fmt.Sprintf("%s; %d enclosing loop(s), all ranging over a row index", how, n))
		})
	}
}

// posReads collects, in the backward slice of v, the positions at which column storage is read:
// IndexAddr on storage and arguments bound to inferred position parameters.
func (f *idxFacts) posReads(v ssa.Value, res *callResolver) []ssa.Value {
	var out []ssa.Value
	seen := map[ssa.Value]bool{}
	var walk func(v ssa.Value, d int)
	walk = func(v ssa.Value, d int) {
		if v == nil || seen[v] || d > 10 {
			return
		}
		seen[v] = true
		switch t := v.(type) {
		case *ssa.UnOp:
			if t.Op == token.MUL {
				if ia, ok := t.X.(*ssa.IndexAddr); ok {
					if f.isStorage(ia.X) {
						out = append(out, stripConvInt(ia.Index))
						return
					}
				}
				if al, ok := t.X.(*ssa.Alloc); ok { // local variable: follow its stores
					for _, r := range *al.Referrers() {
						if st, ok := r.(*ssa.Store); ok && st.Addr == al {
							walk(st.Val, d+1)
						}
					}
					return
				}
			}
			walk(t.X, d+1)
		case *ssa.Call:
			for _, callee := range res.callees(t) {
				args := argsFor(t, callee)
				for i, a := range args {
					if f.pParam[callee.Params[i]] {
						out = append(out, stripConvInt(a))
					}
				}
			}
			for _, a := range t.Call.Args {
				walk(a, d+1)
			}
			if !t.Call.IsInvoke() {
				if _, isFn := t.Call.Value.(*ssa.Function); !isFn {
					// dynamic callee value itself is not data
				}
			}
		case *ssa.BinOp:
			walk(t.X, d+1)
			walk(t.Y, d+1)
		case *ssa.Extract:
			walk(t.Tuple, d+1)
		case *ssa.Phi:
			for _, e := range t.Edges {
				walk(e, d+1)
			}
		case *ssa.MakeInterface:
			walk(t.X, d+1)
		case *ssa.Convert:
			walk(t.X, d+1)
		case *ssa.ChangeType:
			walk(t.X, d+1)
		case *ssa.Field:
			walk(t.X, d+1)
		case *ssa.FieldAddr:
			walk(t.X, d+1)
		case *ssa.IndexAddr:
			if f.isStorage(t.X) {
				out = append(out, stripConvInt(t.Index))
				return
			}
			walk(t.X, d+1)
		case *ssa.Slice:
			walk(t.X, d+1)
		}
	}
	walk(v, 0)
	return out
}

// rowOfPos: for a position value loaded as index[k], returns k.
func rowOfPos(v ssa.Value) ssa.Value {
	if u, ok := v.(*ssa.UnOp); ok && u.Op == token.MUL {
		if ia, ok := u.X.(*ssa.IndexAddr); ok && isIntIndexType(stripSliceOps(ia.X).Type()) {
			return ia.Index
		}
	}
	return nil
}

func physicalLen(f *idxFacts, v ssa.Value, d int) (bool, string) {
	if d > 5 {
		return false, ""
	}
	switch t := v.(type) {
	case *ssa.Call:
		if builtinName(t) == "len" && len(t.Call.Args) == 1 {
			if f.isStorage(t.Call.Args[0]) {
				return true, "len(" + accessPath(t.Call.Args[0]) + ")"
			}
			return false, "len(" + accessPath(t.Call.Args[0]) + ")"
		}
		if o := calleeObj(t); o != nil && o.Name() == "Len" && o.Type().(*types.Signature).Params().Len() == 0 {
			if r := recvOf(t); r != nil && !isRowIndexType(r.Type()) {
				return true, "Column.Len()"
			}
		}
	case *ssa.Phi:
		how := ""
		for _, e := range t.Edges {
			if c, ok := constInt(e); ok && c == 0 {
				continue
			}
			ok, h := physicalLen(f, e, d+1)
			if !ok {
				return false, h
			}
			how = h
		}
		return how != "", how
	}
	return false, describe(v)
}

func runR42(c *Ctx) {
	p := c.P
	f := p.idxFacts()
	res := p.resolver()
	for _, fn := range p.Funcs {
		fnm := fname(fn)
		if _, ex := r7Exempt[fnm]; ex {
			continue
		}
		eachInstr(fn, func(in ssa.Instruction) {
			st, ok := in.(*ssa.Store)
			if !ok {
				return
			}
			ia, ok := st.Addr.(*ssa.IndexAddr)
			if !ok {
				return
			}
			base := stripSliceOps(ia.X)
			idx := stripConvInt(ia.Index)
			switch {
			case isBoolIndex(base.Type()):
				// kernel: bit k must be computed from cells at index[k]
				reads := f.posReads(st.Val, res)
				key := fnm + "|bit from row"
				for _, r := range reads {
					k := rowOfPos(r)
					if k == nil {
						if pr, ok := r.(*ssa.Parameter); ok && f.pParam[pr] {
							continue
						}
						c.bad(key, p.instrPos(st), fmt.Sprintf("bit %s of the boolean index is computed from a cell at %s, not at index[%s]", ia.Index.Name(), describe(r), ia.Index.Name()))
						return
					}
					if k != ia.Index {
						c.bad(key, p.instrPos(st), fmt.Sprintf("bit %s of the boolean index is computed from the cell of a different row (index[%s])", ia.Index.Name(), k.Name()))
						return
					}
				}
				if len(reads) == 0 {
					c.okTrivial(key, p.instrPos(st), "no cell read (constant / callback without cell)")
				} else {
					c.ok(key, p.instrPos(st), fmt.Sprintf("%d cell read(s), all at index[k] for the stored bit k", len(reads)))
				}
			case f.isP(idx) && !f.isStorage(ia.X):
				// store at a physical position into a non-storage (fresh) slice
				key := fnm + "|store at position"
				// 6b: allocation size
				if mk, ok := singleDef(rootSlice(ia.X)).(*ssa.MakeSlice); ok {
					if okLen, how := physicalLen(f, mk.Len, 0); okLen {
						c.ok(fnm+"|alloc for positions", p.instrPos(mk), "sized by "+how)
					} else {
						c.bad(fnm+"|alloc for positions", p.instrPos(mk), fmt.Sprintf("slice written at physical positions is sized by %s, not by the column's physical length: positions of a derived frame exceed it", how))
					}
				}
				// 6c: same-row reads
				reads := f.posReads(st.Val, res)
				for _, r := range reads {
					if r != idx {
						c.bad(key, p.instrPos(st), fmt.Sprintf("cell stored at position %s is computed from a cell read at a different position (%s)", idx.Name(), describe(r)))
						return
					}
				}
				c.ok(key, p.instrPos(st), fmt.Sprintf("%d source cell(s), all read at the destination position", len(reads)))
			default:
				// 6d: a slot computed from a row by arithmetic (`result[p+1] = f(data[p])`, `result[k+1] = data[index[k]]`):
				// rows are identities; the neighbour's slot belongs to another row (and the last one is out of range)
				off, isOff := idx.(*ssa.BinOp)
				if !isOff || off.Op != token.ADD && off.Op != token.SUB || f.isStorage(ia.X) {
					return
				}
				var row ssa.Value
				if k, isK := constInt(off.Y); isK && k != 0 {
					row = stripConvInt(off.X)
				} else if k, isK := constInt(off.X); isK && k != 0 && off.Op == token.ADD {
					row = stripConvInt(off.Y)
				}
				if row == nil {
					return
				}
				for _, r := range f.posReads(st.Val, res) {
					if r == row || rowOfPos(r) == row {
						c.bad(fnm+"|store beside the row", p.instrPos(st), fmt.Sprintf("the value computed from the cell of row %s is stored at %s %s a constant: it lands in the slot of a neighbouring row (and the last row is written out of range)", row.Name(), row.Name(), off.Op))
						return
					}
				}
			}
		})
	}
}

// rootSlice follows phis/loads back to the defining value of a slice variable.
func rootSlice(v ssa.Value) ssa.Value {
	for i := 0; i < 6; i++ {
		switch t := v.(type) {
		case *ssa.UnOp:
			if t.Op == token.MUL {
				v = singleDef(t.X)
				continue
			}
		case *ssa.Slice:
			v = t.X
			continue
		}
		break
	}
	return v
}
