package main

import (
	"fmt"
	"go/constant"
	"go/token"
	"go/types"
	"math"

	"golang.org/x/tools/go/ssa"
)

func init() {
	register(&Rule{ID: "R16", Name: "LENCHK", Floor: 2,
		Text: "in New: (a) a comparison between two values that both derive from Column.Len() results exists and its `differs` edge returns; (c) that comparison is executed on every iteration of the loop that creates the columns (it is inside the loop and dominates its back edges), so every column, not only the last, is compared; (b) the reference length of that comparison is not (re)assigned under a guard that compares the reference itself with a constant a legal length can take (a zero sentinel collides with the legal length 0)",
		Run:  runR16})
	register(&Rule{ID: "R12", Name: "HASH-EQ", Floor: 5,
		Text: "hash and equality agree: for every Comparable, Hash and Compare read the same storage projection; when the cell type is floating point the value whose bit pattern is hashed is zero-normalised (f+0, or a `== 0` guarded assignment of the constant 0) and NaN-normalised (an IsNaN guarded assignment of a canonical NaN) because Compare treats 0/-0 as equal and all NaNs alike",
		Run:  runR12})
	register(&Rule{ID: "R27", Name: "JSON-ESCAPE", Floor: 6,
		Text: "in the module-internal call tree of QFrame.ToJSON (all AppendByteStringAt implementations included) no non-constant Go string is turned into output bytes except inside the escaper strings.AppendQuotedString: no []byte(s), append(buf, s...) or copy(buf, s) of a non-constant string elsewhere, and no function outside the module (strconv.AppendQuote, fmt.Append*, ...) that returns bytes is handed a non-constant string",
		Run:  runR27})
	register(&Rule{ID: "R33", Name: "NARROW", Floor: 4,
		Text: "every narrowing or sign-reinterpreting integer conversion to an 8-bit type in internal/ecolumn and internal/strings (int -> enumVal, rune -> byte, uint8 -> int8) is justified by dominating guards: the operand's upper bound is < nullValue (255) for enumVal and < utf8.RuneSelf (0x80) for a rune stored as one byte; lower bound >= 0",
		Run:  runR33})
}

// ---------- R16 ----------

func lenDerived(v ssa.Value, seen map[ssa.Value]bool) bool {
	if seen[v] {
		return true
	}
	seen[v] = true
	switch t := v.(type) {
	case *ssa.Call:
		if o := calleeObj(t); o != nil && o.Name() == "Len" && o.Type().(*types.Signature).Params().Len() == 0 {
			if r := recvOf(t); r != nil && !isRowIndexType(r.Type()) {
				return true
			}
		}
	case *ssa.Phi:
		any := false
		for _, e := range t.Edges {
			if _, isC := e.(*ssa.Const); isC {
				continue
			}
			if !lenDerived(e, seen) {
				return false
			}
			any = true
		}
		return any
	}
	return false
}

func phiClosure(v ssa.Value, out map[ssa.Value]bool) {
	if out[v] {
		return
	}
	out[v] = true
	if p, ok := v.(*ssa.Phi); ok {
		for _, e := range p.Edges {
			phiClosure(e, out)
		}
	}
}

func runR16(c *Ctx) {
	p := c.P
	fn := p.Func("", "New")
	if fn == nil {
		c.undecided("anchor|New", "-", "qframe.New not found")
		return
	}
	var cmp *ssa.BinOp
	eachInstr(fn, func(in ssa.Instruction) {
		b, ok := in.(*ssa.BinOp)
		if !ok || b.Op != token.NEQ && b.Op != token.EQL {
			return
		}
		if lenDerived(b.X, map[ssa.Value]bool{}) && lenDerived(b.Y, map[ssa.Value]bool{}) {
			cmp = b
		}
	})
	if cmp == nil {
		c.bad("qframe.New|length comparison", p.pos(fn.Pos()), "no comparison between two Column.Len() derived values: columns of unequal length are not rejected")
		return
	}
	// (a) differs edge returns
	okA := false
	for _, r := range *cmp.Referrers() {
		if iff, ok := r.(*ssa.If); ok {
			di := 0
			if cmp.Op == token.EQL {
				di = 1
			}
			blk := iff.Block().Succs[di]
			if _, isRet := blk.Instrs[len(blk.Instrs)-1].(*ssa.Return); isRet {
				okA = true
			}
		}
	}
	if okA {
		c.ok("qframe.New|length comparison", p.instrPos(cmp), "two Len()-derived values are compared and the differs edge returns an error frame")
	} else {
		c.bad("qframe.New|length comparison", p.instrPos(cmp), "the differs edge of the length comparison does not return")
	}
	// (c) every column is compared: the comparison sits in the loop that creates the columns and is executed on
	// every iteration that reaches the next one
	var colLoop *loopInfo
	loops := loopsOf(fn)
	eachInstr(fn, func(in ssa.Instruction) {
		call, ok := in.(*ssa.Call)
		if !ok {
			return
		}
		// the column constructor: a function of the package that returns (column.Column, error)
		if callee := call.Call.StaticCallee(); callee != nil && callee.Pkg == fn.Pkg && callee.Signature.Results().Len() == 2 && isErrorType(callee.Signature.Results().At(1).Type()) && isNamed(callee.Signature.Results().At(0).Type(), rel("internal/column"), "Column") {
			for i := range loops {
				if inLoop(loops[i], call.Block()) && (colLoop == nil || colLoop.header.Dominates(loops[i].header)) {
					colLoop = &loops[i]
				}
			}
		}
	})
	switch {
	case colLoop == nil:
		c.undecided("qframe.New|every column compared", p.pos(fn.Pos()), "the loop that creates the columns was not found")
	case !inLoop(*colLoop, cmp.Block()):
		c.bad("qframe.New|every column compared", p.instrPos(cmp), "the length comparison is outside the loop that creates the columns: only the last column is compared with the reference, a column of different length in between goes unnoticed (and later operations index out of range)")
	default:
		// an iteration may skip the comparison only where it (re)defines the reference length itself (`if i == 0 {
		// firstLen = currentLen } else if firstLen != currentLen {...}`): blocks on the `i == 0` side of a test of
		// the loop counter against 0
		isRefDef := func(b *ssa.BasicBlock) bool {
			for _, g := range dominatingGuards(b) {
				bo, ok := g.Cond.(*ssa.BinOp)
				if !ok || bo.Op != token.EQL && bo.Op != token.NEQ {
					continue
				}
				if k, isK := constInt(bo.Y); isK && k == 0 && (bo.Op == token.EQL) == g.Val {
					if colLoop.key != nil && (bo.X == colLoop.key || stripConvInt(bo.X) == colLoop.key) {
						return true
					}
					if phi, ok := bo.X.(*ssa.Phi); ok && phi.Block() == colLoop.header {
						return true
					}
					// len(columns) == 0 where columns is the slice the loop grows: no column has been built yet
					if lc, ok := bo.X.(*ssa.Call); ok && builtinName(lc) == "len" {
						if phi, ok := lc.Call.Args[0].(*ssa.Phi); ok && phi.Block() == colLoop.header {
							return true
						}
					}
				}
			}
			return false
		}
		okC := true
		for _, pred := range colLoop.header.Preds {
			if !colLoop.header.Dominates(pred) {
				continue
			}
			// every path from the body to this latch passes the comparison or a reference definition
			for _, succ := range colLoop.header.Succs {
				if !inLoop(*colLoop, succ) || succ == colLoop.header {
					continue
				}
				for _, rb := range reachableAvoiding(succ, func(b *ssa.BasicBlock) bool {
					return b == cmp.Block() || isRefDef(b) || b == colLoop.header || !inLoop(*colLoop, b)
				}) {
					if rb == pred {
						okC = false
					}
				}
			}
			if cmp.Block() == pred {
				continue
			}
		}
		if okC {
			c.ok("qframe.New|every column compared", p.instrPos(cmp), "the comparison is executed on every iteration of the column loop")
		} else {
			c.bad("qframe.New|every column compared", p.instrPos(cmp), "an iteration of the column loop can reach the next one without the length comparison")
		}
	}
	// (b) sentinel
	refs := map[ssa.Value]bool{}
	phiClosure(cmp.X, refs)
	phiClosure(cmp.Y, refs)
	bad := false
	eachInstr(fn, func(in ssa.Instruction) {
		b, ok := in.(*ssa.BinOp)
		if !ok || b == cmp || b.Op != token.NEQ && b.Op != token.EQL {
			return
		}
		var other ssa.Value
		if _, isPhi := b.X.(*ssa.Phi); isPhi && refs[b.X] {
			other = b.Y
		} else if _, isPhi := b.Y.(*ssa.Phi); isPhi && refs[b.Y] {
			other = b.X
		} else {
			return
		}
		k, isConst := constInt(other)
		if !isConst || k < 0 {
			return
		}
		isGuard := false
		for _, r := range *b.Referrers() {
			if _, ok := r.(*ssa.If); ok {
				isGuard = true
			}
		}
		if isGuard {
			bad = true
			c.bad("qframe.New|reference length sentinel", p.instrPos(b), fmt.Sprintf("the reference length is (re)assigned under a guard comparing it with %d, a value a legal column length can take: after a first column of length %d the reference silently follows the next column, so unequal lengths are accepted", k, k))
		}
	})
	if !bad {
		c.ok("qframe.New|reference length sentinel", p.instrPos(cmp), "the reference length is not guarded by a sentinel that collides with a legal length")
	}
}

// ---------- R12 ----------

func isFloatType(t types.Type) bool {
	b, ok := t.Underlying().(*types.Basic)
	return ok && b.Info()&types.IsFloat != 0
}

func runR12(c *Ctx) {
	p := c.P
	f := p.idxFacts()
	for _, cp := range columnPkgs {
		hash := p.Func(cp, "Comparable.Hash")
		cmp := p.Func(cp, "Comparable.Compare")
		if hash == nil || cmp == nil {
			c.undecided(cp+"|Comparable.Hash/Compare", "-", "method not found")
			continue
		}
		// same storage projection
		proj := func(fn *ssa.Function) map[string]bool {
			out := map[string]bool{}
			res := p.resolver()
			eachInstr(fn, func(in ssa.Instruction) {
				switch t := in.(type) {
				case *ssa.IndexAddr:
					if f.isStorage(t.X) {
						out[accessPathNoRoot(t.X)] = true
					}
				case *ssa.Call:
					for _, callee := range res.callees(t) {
						for i := range callee.Params {
							if f.pParam[callee.Params[i]] {
								out["via "+callee.Name()] = true
							}
						}
					}
				}
			})
			return out
		}
		ph, pc := proj(hash), proj(cmp)
		same := len(ph) == len(pc) && len(ph) > 0
		for k := range ph {
			if !pc[k] {
				same = false
			}
		}
		key := cp + "|Hash/Compare projection"
		if same {
			c.ok(key, p.pos(hash.Pos()), fmt.Sprintf("both read %v at the given position", keys(ph)))
		} else {
			c.bad(key, p.pos(hash.Pos()), fmt.Sprintf("Hash reads %v but Compare reads %v: equal keys may hash differently", keys(ph), keys(pc)))
		}
		// float normalisation
		eachInstr(hash, func(in ssa.Instruction) {
			call, ok := in.(*ssa.Call)
			if !ok {
				return
			}
			o := calleeObj(call)
			if !isFuncNamed(o, "math", "", "Float64bits") && !isFuncNamed(o, "math", "", "Float32bits") {
				return
			}
			arg := call.Call.Args[0]
			zero, nan := floatNormalised(arg)
			k2 := cp + "|float bits hashed"
			switch {
			case zero && nan:
				c.ok(k2, p.instrPos(call), "value is zero- and NaN-normalised before its bits are hashed")
			case !zero:
				c.bad(k2, p.instrPos(call), "raw float bits are hashed: 0.0 and -0.0 have different bit patterns but Compare says Equal, so equal keys land in different groups / Distinct keeps both")
			default:
				c.bad(k2, p.instrPos(call), "NaN bit patterns are hashed as they are: NaNs with different payloads (math.NaN() vs 0/0) compare Equal under Null(true) but hash differently")
			}
		})
		// unsafe reinterpretation of a float cell is also raw bits
		eachInstr(hash, func(in ssa.Instruction) {
			cv, ok := in.(*ssa.Convert)
			if !ok {
				return
			}
			if b, ok := cv.Type().Underlying().(*types.Basic); ok && b.Kind() == types.UnsafePointer {
				if pt, ok := cv.X.Type().Underlying().(*types.Pointer); ok && isFloatType(pt.Elem()) {
					if ia, ok := cv.X.(*ssa.IndexAddr); ok && f.isStorage(ia.X) {
						c.bad(cp+"|float bits hashed", p.instrPos(cv), "the float cell's memory is hashed directly (no zero/NaN normalisation possible)")
					}
				}
			}
		})
	}
}

func keys(m map[string]bool) []string {
	var out []string
	for k := range m {
		out = append(out, k)
	}
	sortStrings(out)
	return out
}

func accessPathNoRoot(v ssa.Value) string {
	if fld, _ := fieldOf(v); fld != nil {
		return "." + fld.Name()
	}
	return accessPath(v)
}

// floatNormalised inspects the definition of a float value about to be bit-cast.
func floatNormalised(v ssa.Value) (zero, nan bool) {
	seen := map[ssa.Value]bool{}
	var walk func(v ssa.Value)
	walk = func(v ssa.Value) {
		if seen[v] {
			return
		}
		seen[v] = true
		switch t := v.(type) {
		case *ssa.BinOp:
			if t.Op == token.ADD {
				if isFloatConst(t.Y, 0) || isFloatConst(t.X, 0) {
					zero = true // f + 0 turns -0 into +0
					walk(t.X)
					walk(t.Y)
				}
			}
		case *ssa.Phi:
			for i, e := range t.Edges {
				pred := t.Block().Preds[i]
				if isFloatConst(e, 0) && guardedBy(pred, func(c ssa.Value, val bool) bool {
					b, ok := c.(*ssa.BinOp)
					return ok && (b.Op == token.EQL && val || b.Op == token.NEQ && !val) && (isFloatConst(b.Y, 0) || isFloatConst(b.X, 0))
				}) {
					zero = true
				}
				if isCanonicalNaN(e) && guardedBy(pred, func(c ssa.Value, val bool) bool {
					if call, ok := c.(*ssa.Call); ok && val {
						return isFuncNamed(calleeObj(call), "math", "", "IsNaN")
					}
					if b, ok := c.(*ssa.BinOp); ok && b.Op == token.NEQ && val && b.X == b.Y {
						return true // f != f
					}
					return false
				}) {
					nan = true
				}
				walk(e)
			}
		case *ssa.UnOp:
			if t.Op == token.MUL {
				if al, ok := t.X.(*ssa.Alloc); ok {
					for _, r := range *al.Referrers() {
						if st, ok := r.(*ssa.Store); ok && st.Addr == al {
							// treat stores like phi edges, guarded at the store's block
							e := st.Val
							blk := st.Block()
							if isFloatConst(e, 0) && guardedByBlock(blk, zeroGuard) {
								zero = true
							}
							if isCanonicalNaN(e) && guardedByBlock(blk, nanGuard) {
								nan = true
							}
							walk(e)
						}
					}
				}
			}
		}
	}
	walk(v)
	return
}

func zeroGuard(c ssa.Value, val bool) bool {
	b, ok := c.(*ssa.BinOp)
	return ok && (b.Op == token.EQL && val || b.Op == token.NEQ && !val) && (isFloatConst(b.Y, 0) || isFloatConst(b.X, 0))
}

func nanGuard(c ssa.Value, val bool) bool {
	if call, ok := c.(*ssa.Call); ok && val {
		return isFuncNamed(calleeObj(call), "math", "", "IsNaN")
	}
	if b, ok := c.(*ssa.BinOp); ok && b.Op == token.NEQ && val && b.X == b.Y {
		return true
	}
	return false
}

func guardedByBlock(b *ssa.BasicBlock, pred func(c ssa.Value, val bool) bool) bool {
	for _, g := range dominatingGuards(b) {
		if pred(g.Cond, g.Val) {
			return true
		}
	}
	return false
}

// guardedBy: block b (a phi predecessor) is reached only under a guard satisfying pred,
// or b itself ends the guarded region (its own dominating guards).
func guardedBy(b *ssa.BasicBlock, pred func(c ssa.Value, val bool) bool) bool {
	return guardedByBlock(b, pred)
}

func isFloatConst(v ssa.Value, want float64) bool {
	c, ok := v.(*ssa.Const)
	if !ok || c.Value == nil {
		return false
	}
	if c.Value.Kind() != constant.Float && c.Value.Kind() != constant.Int {
		return false
	}
	f, _ := constant.Float64Val(c.Value)
	return f == want && !math.Signbit(f)
}

func isCanonicalNaN(v ssa.Value) bool {
	call, ok := v.(*ssa.Call)
	return ok && isFuncNamed(calleeObj(call), "math", "", "NaN")
}

// ---------- R27 ----------

func runR27(c *Ctx) {
	p := c.P
	root := p.Func("", "QFrame.ToJSON")
	esc := p.anchorEscaper()
	if root == nil || esc == nil {
		c.undecided("anchor|ToJSON/AppendQuotedString", "-", "entry point or escaper not found")
		return
	}
	res := p.resolver()
	tree := map[*ssa.Function]bool{}
	var visit func(fn *ssa.Function)
	visit = func(fn *ssa.Function) {
		if tree[fn] || fn == esc || fn.Blocks == nil {
			return
		}
		tree[fn] = true
		eachInstr(fn, func(in ssa.Instruction) {
			if ci, ok := in.(ssa.CallInstruction); ok {
				for _, callee := range res.callees(ci) {
					// stay on the serialisation path: error construction is not output
					if callee.Pkg != nil && callee.Pkg.Pkg.Path() == rel("qerrors") {
						continue
					}
					visit(callee)
				}
			}
		})
	}
	visit(root)
	c.note("call_tree_functions", len(tree))
	var fns []*ssa.Function
	for fn := range tree {
		fns = append(fns, fn)
	}
	sortFuncs(fns)
	isStr := func(v ssa.Value) bool {
		b, ok := v.Type().Underlying().(*types.Basic)
		return ok && b.Info()&types.IsString != 0
	}
	// a compile-time constant, a choice between constants (phi), or the result of a module function all of
	// whose returns are such (infString(neg) = "-Inf" / "+Inf")
	var isConstD func(v ssa.Value, d int) bool
	isConstD = func(v ssa.Value, d int) bool {
		if d > 4 {
			return false
		}
		switch t := v.(type) {
		case *ssa.Const:
			return true
		case *ssa.Phi:
			for _, e := range t.Edges {
				if !isConstD(e, d+1) {
					return false
				}
			}
			return len(t.Edges) > 0
		case *ssa.Call:
			g := t.Call.StaticCallee()
			if g == nil || g.Blocks == nil || g.Pkg == nil || !inModule(g.Pkg.Pkg) {
				return false
			}
			okAll, n := true, 0
			eachInstr(g, func(in ssa.Instruction) {
				if r, ok := in.(*ssa.Return); ok {
					n++
					if len(r.Results) != 1 || !isConstD(r.Results[0], d+1) {
						okAll = false
					}
				}
			})
			return okAll && n > 0
		}
		return false
	}
	isConst := func(v ssa.Value) bool { return isConstD(v, 0) }
	for _, fn := range fns {
		fnm := fname(fn)
		n := 0
		eachInstr(fn, func(in ssa.Instruction) {
			switch t := in.(type) {
			case *ssa.Convert:
				if isStr(t.X) && !isConst(t.X) {
					if s, ok := t.Type().Underlying().(*types.Slice); ok {
						if b, ok := s.Elem().Underlying().(*types.Basic); ok && b.Kind() == types.Byte {
							n++
							c.bad(fnm+"|raw string to bytes", p.instrPos(t), "a Go string is converted to bytes on the JSON output path without escaping: quotes, backslashes, control characters and invalid UTF-8 in it produce invalid JSON")
						}
					}
				}
			case *ssa.Call:
				b := builtinName(t)
				if (b == "append" || b == "copy") && len(t.Call.Args) == 2 && isStr(t.Call.Args[1]) && !isConst(t.Call.Args[1]) {
					n++
					c.bad(fnm+"|raw string to bytes", p.instrPos(t), "a non-constant Go string is appended to the JSON output without escaping")
				}
				// a function outside the module that turns a string into bytes (strconv.AppendQuote, fmt.Append...,
				// json.Marshal of a string): Go literal syntax and other quoting schemes are not JSON's
				if callee := t.Call.StaticCallee(); callee != nil && b == "" && (callee.Pkg == nil || !inModule(callee.Pkg.Pkg)) {
					retBytes := false
					rs := callee.Signature.Results()
					for i := 0; i < rs.Len(); i++ {
						if sl, ok := rs.At(i).Type().Underlying().(*types.Slice); ok {
							if bb, ok := sl.Elem().Underlying().(*types.Basic); ok && bb.Kind() == types.Byte {
								retBytes = true
							}
						}
					}
					if retBytes {
						for _, a := range t.Call.Args {
							if mi, ok := a.(*ssa.MakeInterface); ok {
								a = mi.X
							}
							if isStr(a) && !isConst(a) {
								n++
								c.bad(fnm+"|raw string to bytes", p.instrPos(t), fmt.Sprintf("a non-constant Go string is turned into output bytes by %s, not by the JSON escaper: its quoting rules (\\x01, \\a, \\U000e0001 ...) are not JSON's", fname(callee)))
							}
						}
					}
				}
			}
		})
		if n == 0 {
			c.ok(fnm+"|no raw string bytes", p.pos(fn.Pos()), "only constants, numeric formatters and the escaper produce output bytes")
		}
	}
}

func sortFuncs(fns []*ssa.Function) {
	for i := 1; i < len(fns); i++ {
		for j := i; j > 0 && fname(fns[j]) < fname(fns[j-1]); j-- {
			fns[j], fns[j-1] = fns[j-1], fns[j]
		}
	}
}

func sortStrings(s []string) {
	for i := 1; i < len(s); i++ {
		for j := i; j > 0 && s[j] < s[j-1]; j-- {
			s[j], s[j-1] = s[j-1], s[j]
		}
	}
}

// ---------- R33 ----------

func intWidth(t types.Type) (bits int, signed bool, ok bool) {
	b, isB := t.Underlying().(*types.Basic)
	if !isB || b.Info()&types.IsInteger == 0 {
		return 0, false, false
	}
	switch b.Kind() {
	case types.Int8:
		return 8, true, true
	case types.Uint8:
		return 8, false, true
	case types.Int16:
		return 16, true, true
	case types.Uint16:
		return 16, false, true
	case types.Int32:
		return 32, true, true
	case types.Uint32:
		return 32, false, true
	case types.Int, types.Int64:
		return 64, true, true
	case types.Uint, types.Uint64, types.Uintptr:
		return 64, false, true
	}
	return 0, false, false
}

// upperBound returns the tightest constant upper bound on v implied by the guards dominating block b.
func bounds(v ssa.Value, b *ssa.BasicBlock) (lo, hi int64, hasLo, hasHi bool) {
	for _, g := range dominatingGuards(b) {
		cmp, ok := g.Cond.(*ssa.BinOp)
		if !ok {
			continue
		}
		op := cmp.Op
		var k int64
		var kOK bool
		switch {
		case cmp.X == v:
			k, kOK = constInt(cmp.Y)
		case cmp.Y == v:
			k, kOK = constInt(cmp.X)
			// flip
			switch op {
			case token.LSS:
				op = token.GTR
			case token.LEQ:
				op = token.GEQ
			case token.GTR:
				op = token.LSS
			case token.GEQ:
				op = token.LEQ
			}
		}
		if !kOK {
			continue
		}
		if !g.Val { // negate
			switch op {
			case token.LSS:
				op = token.GEQ
			case token.LEQ:
				op = token.GTR
			case token.GTR:
				op = token.LEQ
			case token.GEQ:
				op = token.LSS
			case token.EQL:
				op = token.NEQ
			case token.NEQ:
				op = token.EQL
			}
		}
		switch op {
		case token.LSS:
			if !hasHi || k-1 < hi {
				hi, hasHi = k-1, true
			}
		case token.LEQ:
			if !hasHi || k < hi {
				hi, hasHi = k, true
			}
		case token.GTR:
			if !hasLo || k+1 > lo {
				lo, hasLo = k+1, true
			}
		case token.GEQ:
			if !hasLo || k > lo {
				lo, hasLo = k, true
			}
		case token.EQL:
			lo, hi, hasLo, hasHi = k, k, true, true
		}
	}
	return
}

func runR33(c *Ctx) {
	p := c.P
	enumT := p.Named("internal/ecolumn", "enumVal")
	for _, pkg := range []string{"internal/ecolumn", "internal/strings"} {
		for _, fn := range p.FuncsIn(pkg) {
			fnm := fname(fn)
			eachInstr(fn, func(in ssa.Instruction) {
				cv, ok := in.(*ssa.Convert)
				if !ok {
					return
				}
				tb, tSigned, okT := intWidth(cv.Type())
				sb, sSigned, okS := intWidth(cv.X.Type())
				if !okT || !okS || tb != 8 || sb < 8 || sb == 8 && tSigned == sSigned {
					return
				}
				limit := int64(255)
				meaning := "the 8-bit target"
				if tSigned {
					limit, meaning = 127, "a signed 8-bit target (values from 128 turn negative)"
				}
				if enumT != nil && types.Identical(cv.Type(), enumT) {
					limit, meaning = 254, "enumVal below nullValue (255)"
				} else if isRune(cv.X.Type()) {
					limit, meaning = 0x7F, "a rune stored as a single byte (< utf8.RuneSelf)"
				}
				key := fnm + "|narrow to " + types.TypeString(cv.Type(), shortQual)
				pos := p.instrPos(cv)
				if k, isC := constInt(cv.X); isC {
					if k >= 0 && k <= limit {
						c.okTrivial(key, pos, "constant fits")
					} else {
						c.bad(key, pos, fmt.Sprintf("constant %d does not fit %s", k, meaning))
					}
					return
				}
				// key of a range over a slice whose length is bounded by dominating guards
				if hiK, ok := rangeKeyBound(cv.X, cv.Block()); ok {
					if hiK <= limit {
						c.ok(key, pos, fmt.Sprintf("key of a range over a slice whose length is guarded to be <= %d, so x <= %d, within %s", hiK+1, hiK, meaning))
					} else {
						c.bad(key, pos, fmt.Sprintf("key of a range over a slice whose length may reach %d: x may be %d, but %s requires x <= %d", hiK+1, hiK, meaning, limit))
					}
					return
				}
				// range key over a slice whose length is bounded by the type invariant
				if why := narrowExempt(p, cv); why != "" {
					c.ok(key, pos, "frozen exception: "+why)
					return
				}
				lo, hi, hasLo, hasHi := bounds(cv.X, cv.Block())
				_ = lo
				if hasHi && hi <= limit && (hasLo && lo >= 0 || !signedType(cv.X.Type())) {
					c.ok(key, pos, fmt.Sprintf("dominating guards imply %d <= x <= %d, within %s", lo, hi, meaning))
				} else if hasHi && hi <= limit {
					c.ok(key, pos, fmt.Sprintf("dominating guards imply x <= %d (lower bound by construction), within %s", hi, meaning))
				} else if hasHi {
					c.bad(key, pos, fmt.Sprintf("dominating guards only imply x <= %d (0x%X), but %s requires x <= %d (0x%X): the boundary value is truncated/misencoded", hi, hi, meaning, limit, limit))
				} else {
					c.bad(key, pos, fmt.Sprintf("no dominating guard bounds the operand; %s requires x <= %d", meaning, limit))
				}
			})
		}
	}
}

func isRune(t types.Type) bool {
	b, ok := t.Underlying().(*types.Basic)
	return ok && b.Kind() == types.Int32
}

func signedType(t types.Type) bool {
	_, s, _ := intWidth(t)
	return s
}

// narrowExempt: frozen, reasoned exceptions of R33.
func narrowExempt(p *Prog, cv *ssa.Convert) string {
	// enumVal(i) where i is the key of a range over a []string that is the values table of an enum
	// column (or the `values` argument handed to NewFactory after its cardinality check).
	add, ok := cv.X.(*ssa.BinOp)
	if ok && add.Op == token.ADD {
		for _, r := range *add.Referrers() {
			cmp, ok := r.(*ssa.BinOp)
			if !ok || cmp.Op != token.LSS {
				continue
			}
			if call, ok := cmp.Y.(*ssa.Call); ok && builtinName(call) == "len" {
				base := call.Call.Args[0]
				if rangeKeyOf(add, base) {
					if s, ok := base.Type().Underlying().(*types.Slice); ok {
						if b, ok := s.Elem().Underlying().(*types.Basic); ok && b.Kind() == types.String {
							// values tables: len(values) <= maxCardinality is established by NewFactory (R34) and
							// preserved by newEnumVal's callers (R34)
							if valuesBounded(p, base) {
								return "index into an enum values table, len(values) <= 255 by R34"
							}
						}
					}
				}
			}
		}
	}
	// enumVal(i) under a dominating guard i < len(values) (classic counted loop over a values table)
	for _, g := range dominatingGuards(cv.Block()) {
		cmp, ok := g.Cond.(*ssa.BinOp)
		if !ok || cmp.Op != token.LSS || !g.Val || stripConv(cmp.X) != stripConv(cv.X) {
			continue
		}
		if call, ok := cmp.Y.(*ssa.Call); ok && builtinName(call) == "len" && valuesBounded(p, call.Call.Args[0]) {
			return "index below len(values) of an enum values table, len(values) <= 255 by R34"
		}
	}
	// enumVal(len(acc)) where acc starts empty and grows by at most one element per iteration of a range over an
	// enum values table: len(acc) <= key of the range <= 254
	if call, ok := cv.X.(*ssa.Call); ok && builtinName(call) == "len" {
		for _, li := range loopsOf(cv.Parent()) {
			if !inLoop(li, cv.Block()) {
				continue
			}
			overValues := li.base != nil && valuesBounded(p, li.base)
			if !overValues {
				// classic counted loop: i < len(values) (possibly through a local holding the length)
				if iff, ok := li.header.Instrs[len(li.header.Instrs)-1].(*ssa.If); ok {
					if cmp, ok := iff.Cond.(*ssa.BinOp); ok && cmp.Op == token.LSS {
						if lc, ok := cmp.Y.(*ssa.Call); ok && builtinName(lc) == "len" && valuesBounded(p, lc.Call.Args[0]) {
							if phi, ok := cmp.X.(*ssa.Phi); ok && phi.Block() == li.header {
								overValues = true
							}
						}
					}
				}
			}
			if !overValues {
				continue
			}
			appends := map[*ssa.Call]bool{}
			okAcc := true
			seen := map[ssa.Value]bool{}
			var walk func(v ssa.Value)
			walk = func(v ssa.Value) {
				if seen[v] || !okAcc {
					return
				}
				seen[v] = true
				switch t := v.(type) {
				case *ssa.Phi:
					for _, e := range t.Edges {
						walk(e)
					}
				case *ssa.MakeSlice:
					if k, isK := constInt(t.Len); !isK || k != 0 || inLoop(li, t.Block()) {
						okAcc = false
					}
				case *ssa.Call:
					if builtinName(t) != "append" || len(t.Call.Args) != 2 || !inLoop(li, t.Block()) {
						okAcc = false
						return
					}
					if n, ok := lenBound(t.Call.Args[1], t.Block(), 0); !ok || n != 1 {
						okAcc = false
						return
					}
					appends[t] = true
					walk(t.Call.Args[0])
				default:
					okAcc = false
				}
			}
			walk(call.Call.Args[0])
			// a single append site executes at most once per iteration unless an inner loop encloses it
			inner := false
			for a := range appends {
				for _, l2 := range loopsOf(cv.Parent()) {
					if l2.header != li.header && li.header.Dominates(l2.header) && inLoop(l2, a.Block()) {
						inner = true
					}
				}
			}
			if okAcc && len(appends) == 1 && !inner {
				return "length of a slice that starts empty and grows by at most one element per iteration of a range over an enum values table: len <= range key <= 254 (len(values) <= 255 by R34)"
			}
		}
	}
	// enumVal(len(values)) in newEnumVal: callers guard len(values) < maxCardinality (R34)
	if call, ok := cv.X.(*ssa.Call); ok && builtinName(call) == "len" {
		if f, _ := fieldOf(call.Call.Args[0]); f != nil && f.Name() == "values" {
			return "rank minted from len(values); every call of the minting function is guarded by len(values) < maxCardinality (R34)"
		}
	}
	return ""
}

// valuesBounded: base is Column.values / a `values []string` parameter of a function in ecolumn.
func valuesBounded(p *Prog, base ssa.Value) bool {
	if f, _ := fieldOf(base); f != nil && f.Name() == "values" {
		return true
	}
	if pr, ok := rootValue(base).(*ssa.Parameter); ok {
		if pr.Parent().Pkg != nil && pr.Parent().Pkg.Pkg.Path() == rel("internal/ecolumn") {
			return true
		}
	}
	if u, ok := base.(*ssa.UnOp); ok {
		if fa, ok := u.X.(*ssa.FieldAddr); ok {
			if st, ok := deref(fa.X.Type()).Underlying().(*types.Struct); ok && st.Field(fa.Field).Name() == "values" {
				return true
			}
		}
	}
	return false
}

// rangeKeyBound: v is the key of `for k := range base`; returns the largest value k can take
// according to guards on len(base) that dominate block b.
func rangeKeyBound(v ssa.Value, b *ssa.BasicBlock) (int64, bool) {
	add, ok := v.(*ssa.BinOp)
	if !ok || add.Op != token.ADD {
		return 0, false
	}
	for _, r := range *add.Referrers() {
		cmp, ok := r.(*ssa.BinOp)
		if !ok || cmp.Op != token.LSS || cmp.X != ssa.Value(add) {
			continue
		}
		call, ok := cmp.Y.(*ssa.Call)
		if !ok || builtinName(call) != "len" || !rangeKeyOf(add, call.Call.Args[0]) {
			continue
		}
		if n, ok := lenBound(call.Call.Args[0], b, 0); ok {
			return n - 1, true
		}
	}
	return 0, false
}

// lenBound: an upper bound on len(base) from constant-length makes and dominating guards on len(x)
// for the same access path.
func lenBound(base ssa.Value, b *ssa.BasicBlock, d int) (int64, bool) {
	if d > 4 {
		return 0, false
	}
	switch t := base.(type) {
	case *ssa.MakeSlice:
		if k, ok := constInt(t.Len); ok {
			return k, true
		}
		// make([]T, len(x)): as long as x
		if lc, ok := t.Len.(*ssa.Call); ok && builtinName(lc) == "len" {
			return lenBound(lc.Call.Args[0], b, d+1)
		}
		return 0, false
	case *ssa.Slice:
		// make([]T, n) with constant n is lowered to new [n]T; slice [:n]
		if arr, ok := deref(t.X.Type()).Underlying().(*types.Array); ok {
			if t.High != nil {
				if n, ok := constInt(t.High); ok {
					return n, true
				}
			}
			return arr.Len(), true
		}
	case *ssa.Call:
		// append(x, y...): the lengths add up (a defensive copy has the length of its source)
		if builtinName(t) == "append" && len(t.Call.Args) == 2 {
			n1, ok1 := lenBound(t.Call.Args[0], b, d+1)
			n2, ok2 := lenBound(t.Call.Args[1], b, d+1)
			if ok1 && ok2 {
				return n1 + n2, true
			}
			return 0, false
		}
	case *ssa.Phi:
		var mx int64
		for _, e := range t.Edges {
			n, ok := lenBound(e, b, d+1)
			if !ok {
				return 0, false
			}
			if n > mx {
				mx = n
			}
		}
		return mx, true
	}
	want := accessPath(base)
	fn := b.Parent()
	best, found := int64(0), false
	eachInstr(fn, func(in ssa.Instruction) {
		call, ok := in.(*ssa.Call)
		if !ok || builtinName(call) != "len" || accessPath(call.Call.Args[0]) != want {
			return
		}
		_, hi, _, hasHi := bounds(call, b)
		if hasHi && (!found || hi < best) {
			best, found = hi, true
		}
	})
	return best, found
}

// ---- R107: constant-index accesses are covered by a dominating length fact ----

func init() {
	register(&Rule{ID: "R107", Name: "CONST-INDEX", Floor: 15,
		Text: "every element access x[k] with a constant index k on a slice or string (arrays excluded) in the packages the properties anchor is justified: the dominating guards on len(x) (same access path) imply len(x) > k - `len(x) == n` with n > k, `len(x) > m`/`>= m` with enough room, or for k = 0 the exclusion of the empty case (`len(x) == 0` left on the other edge, `len(x) != 0`) - or x is allocated in the function with a constant length > k. An emptiness test that compares with 1 instead of 0, or an access moved from [0] to [1], turns the first/only row, record or column into an index-out-of-range panic or silently reads the wrong element",
		Run:  runR107})
}

func runR107(c *Ctx) {
	p := c.P
	skip := map[string]bool{rel("internal/ryu"): true, rel("internal/hash"): true}
	for _, fn := range p.Funcs {
		if fn.Pkg == nil || skip[fn.Pkg.Pkg.Path()] {
			continue
		}
		fnm := fname(fn)
		eachInstr(fn, func(in ssa.Instruction) {
			var x, idx ssa.Value
			switch t := in.(type) {
			case *ssa.IndexAddr:
				x, idx = t.X, t.Index
			case *ssa.Index:
				x, idx = t.X, t.Index
			default:
				return
			}
			k, isK := constInt(idx)
			if !isK {
				return
			}
			switch x.Type().Underlying().(type) {
			case *types.Slice:
			case *types.Basic: // string
			default:
				return // arrays and pointers to arrays: statically sized
			}
			if _, isConstStr := x.(*ssa.Const); isConstStr {
				return
			}
			key := fmt.Sprintf("%s|%s[%d]", fnm, accessPath(x), k)
			pos := p.instrPos(in)
			// allocated here with a constant length
			if n, ok := lenBoundLower(x); ok && n > k {
				c.okTrivial(key, pos, fmt.Sprintf("allocated with length %d", n))
				return
			}
			want := accessPath(x)
			if why := r107ExemptReason(p, fn, x); why != "" {
				c.okTrivial(key, pos, "frozen exception: "+why)
				return
			}
			best := lenLowerBound(fn, x, in.Block(), 0)
			switch {
			case best > k:
				c.ok(key, pos, fmt.Sprintf("dominating guards imply len >= %d", best))
			case rangeKeyOfAny(fn, in):
				c.okTrivial(key, pos, "inside a loop over the same slice")
			default:
				c.bad(key, pos, fmt.Sprintf("element %d of %s is accessed although no dominating guard establishes len(%s) > %d: an input with fewer elements panics here (or the wrong element is read)", k, want, want, k))
			}
		})
	}
}

// lenBoundLower: x is allocated in this function with a known constant length.
func lenBoundLower(x ssa.Value) (int64, bool) {
	switch t := x.(type) {
	case *ssa.MakeSlice:
		return constInt(t.Len)
	case *ssa.Slice:
		if arr, ok := deref(t.X.Type()).Underlying().(*types.Array); ok && t.Low == nil {
			if t.High != nil {
				return constInt(t.High)
			}
			return arr.Len(), true
		}
	}
	return 0, false
}

// rangeKeyOfAny: the access happens inside a range loop over the accessed value itself (non-empty there).
func rangeKeyOfAny(fn *ssa.Function, in ssa.Instruction) bool {
	var x ssa.Value
	switch t := in.(type) {
	case *ssa.IndexAddr:
		x = t.X
	case *ssa.Index:
		x = t.X
	}
	for _, li := range loopsOf(fn) {
		if li.base != nil && accessPath(li.base) == accessPath(x) && inLoop(li, in.Block()) && in.Block() != li.header {
			return true
		}
	}
	return false
}

// r107ExemptReason: element 0 of a group is its first row - groups are never empty by construction (an entry of
// the grouping table is created for a row and holds it).
func r107ExemptReason(p *Prog, fn *ssa.Function, x ssa.Value) string {
	why := "a group holds at least the row that created its table entry (R11, R8): the cells / positions of a group are never empty"
	if fname(fn) == "(qframe.QFrame).Append" {
		return "work-in-progress API outside every property"
	}
	if pr, ok := x.(*ssa.Parameter); ok && groupValuesParam(p, pr, 0) {
		return why
	}
	if isIntIndexType(x.Type()) {
		// an element of a []index.Int (one group's positions)
		if ld, ok := x.(*ssa.UnOp); ok {
			if ia, ok := ld.X.(*ssa.IndexAddr); ok {
				if sl, ok := ia.X.Type().Underlying().(*types.Slice); ok && isIntIndexType(sl.Elem()) {
					return why
				}
			}
		}
	}
	return ""
}

// groupValuesParam: pr receives one group's values: it is the slice parameter of a function registered in a
// column package's aggregation table (func([]T) T), or of a helper all of whose callers pass such a parameter.
func groupValuesParam(p *Prog, pr *ssa.Parameter, depth int) bool {
	if p == nil || depth > 2 {
		return false
	}
	fn := pr.Parent()
	if fn == nil || fn.Pkg == nil {
		return false
	}
	for _, cp := range columnPkgs {
		if fn.Pkg.Pkg.Path() != rel(cp) {
			continue
		}
		for _, e := range comparatorTables(p, cp) {
			if e.fn == fn && len(fn.Params) == 1 && fn.Params[0] == pr {
				if sl, ok := pr.Type().Underlying().(*types.Slice); ok && fn.Signature.Results().Len() == 1 && types.Identical(sl.Elem(), fn.Signature.Results().At(0).Type()) {
					return true
				}
			}
		}
	}
	sites, asValue := p.staticCallSites(fn)
	if asValue || len(sites) == 0 || fn.Signature.Recv() != nil {
		return false
	}
	idx := -1
	for i, q := range fn.Params {
		if q == pr {
			idx = i
		}
	}
	for _, ci := range sites {
		args := ci.Common().Args
		if idx < 0 || idx >= len(args) {
			return false
		}
		a, ok := args[idx].(*ssa.Parameter)
		if !ok || !groupValuesParam(p, a, depth+1) {
			return false
		}
	}
	return true
}

// lenLowerBound: the least length of x at block b implied by the guards on len(x) (same access path): equalities,
// disjunctions of equalities at merge points, excluded constants (len != 0, != 1, ... => mex), lower bounds, and a
// make whose length is len(y) - c.
func lenLowerBound(fn *ssa.Function, x ssa.Value, b *ssa.BasicBlock, d int) int64 {
	if d > 3 {
		return 0
	}
	if mk, ok := x.(*ssa.MakeSlice); ok {
		if k, isK := constInt(mk.Len); isK {
			return k
		}
		if sub, ok := mk.Len.(*ssa.BinOp); ok && sub.Op == token.SUB {
			if call, ok := sub.X.(*ssa.Call); ok && builtinName(call) == "len" {
				if cst, isK := constInt(sub.Y); isK {
					return lenLowerBound(fn, call.Call.Args[0], mk.Block(), d+1) - cst
				}
			}
		}
		if call, ok := mk.Len.(*ssa.Call); ok && builtinName(call) == "len" {
			return lenLowerBound(fn, call.Call.Args[0], mk.Block(), d+1)
		}
		return 0
	}
	want := accessPath(x)
	isLenOfX := func(v ssa.Value) bool {
		call, ok := v.(*ssa.Call)
		return ok && builtinName(call) == "len" && accessPath(call.Call.Args[0]) == want
	}
	lo := int64(0)
	excluded := map[int64]bool{}
	var allowed map[int64]bool
	for _, g := range dominatingGuards(b) {
		cmp, ok := g.Cond.(*ssa.BinOp)
		if !ok {
			continue
		}
		// a string compared with "": x != "" is len(x) != 0
		if cs, isS := constString(cmp.Y); isS && cs == "" && accessPath(cmp.X) == want {
			if (cmp.Op == token.NEQ) == g.Val {
				excluded[0] = true
			}
			continue
		}
		if !isLenOfX(cmp.X) {
			continue
		}
		k, isK := constInt(cmp.Y)
		if !isK {
			continue
		}
		op := cmp.Op
		if !g.Val {
			op = map[token.Token]token.Token{token.LSS: token.GEQ, token.LEQ: token.GTR, token.GTR: token.LEQ, token.GEQ: token.LSS, token.EQL: token.NEQ, token.NEQ: token.EQL}[op]
		}
		switch op {
		case token.EQL:
			allowed = map[int64]bool{k: true}
		case token.NEQ:
			excluded[k] = true
		case token.GTR:
			if k+1 > lo {
				lo = k + 1
			}
		case token.GEQ:
			if k > lo {
				lo = k
			}
		}
	}
	// disjunction of equalities at a merge point on the dominator path
	if allowed == nil {
		for blk := b; blk != nil; blk = blk.Idom() {
			if len(blk.Preds) < 2 {
				continue
			}
			set := map[int64]bool{}
			all := true
			for _, pb := range blk.Preds {
				iff, ok := pb.Instrs[len(pb.Instrs)-1].(*ssa.If)
				if !ok {
					all = false
					break
				}
				cond, val := unNot(iff.Cond, true)
				cmp, ok := cond.(*ssa.BinOp)
				if !ok || !isLenOfX(cmp.X) {
					all = false
					break
				}
				k, isK := constInt(cmp.Y)
				onTrue := pb.Succs[0] == blk
				// the edge carries `len == k`: the true edge of ==, or the false edge of !=
				holds := onTrue == val
				if !isK || !(cmp.Op == token.EQL && holds || cmp.Op == token.NEQ && !holds) {
					all = false
					break
				}
				set[k] = true
			}
			if all && len(set) > 0 {
				allowed = set
				break
			}
		}
	}
	if allowed != nil {
		best := int64(-1)
		for k := range allowed {
			if excluded[k] || k < lo {
				continue
			}
			if best < 0 || k < best {
				best = k
			}
		}
		if best < 0 {
			return 1 << 30 // unreachable
		}
		return best
	}
	for excluded[lo] {
		lo++
	}
	return lo
}

// ---- R108: the row count is only ever tested against zero ----

func init() {
	register(&Rule{ID: "R108", Name: "ROWCOUNT-ZERO", Floor: 2,
		Text: "in the root package every equality test of a frame's row count (QFrame.Len(), index.Int.Len(), len of a row index) against a constant compares with 0: the special cases of Distinct and GroupBy are `the frame has no rows`; a test against 1 would return no groups / no rows for a frame of exactly one row",
		Run:  runR108})
}

func runR108(c *Ctx) {
	p := c.P
	for _, fn := range p.FuncsIn("") {
		fnm := fname(fn)
		eachInstr(fn, func(in ssa.Instruction) {
			b, ok := in.(*ssa.BinOp)
			if !ok || b.Op != token.EQL && b.Op != token.NEQ {
				return
			}
			k, isK := constInt(b.Y)
			if !isK {
				return
			}
			call, ok := b.X.(*ssa.Call)
			if !ok {
				return
			}
			isRows := false
			if callee := call.Call.StaticCallee(); callee != nil && callee.Name() == "Len" && callee.Signature.Recv() != nil {
				rt := deref(callee.Signature.Recv().Type())
				if isFrameType(rt) || isIntIndexType(rt) {
					isRows = true
				}
			}
			if builtinName(call) == "len" && isIntIndexType(call.Call.Args[0].Type()) {
				isRows = true
			}
			if !isRows {
				return
			}
			key := fnm + "|row count test"
			if k == 0 {
				c.ok(key, p.instrPos(b), "compares the row count with 0")
			} else {
				c.bad(key, p.instrPos(b), fmt.Sprintf("the row count is compared with %d: the `no rows` special case is taken (or missed) for frames of %d row(s)", k, k))
			}
		})
	}
}

// ---- R118: allocation sizes computed by subtraction are not negative ----

func init() {
	register(&Rule{ID: "R118", Name: "MAKE-SIZE-NONNEG", Floor: 1,
		Text: "every make([]T, n, c) in the module (ryu excluded) whose length or capacity is a difference a - b is justified: b is a constant and a = len(x) with dominating guards that imply len(x) >= b (R107's length facts), or the site is a frozen exception with its reason. A size that can go negative is a run-time panic (makeslice: len/cap out of range) for the inputs that make it so - the empty argument list, the frame without columns",
		Run:  runR118})
}

func runR118(c *Ctx) {
	p := c.P
	nMake := 0
	r118CallerSizes(c)
	defer func() {
		// the rule's domain is every make in scope; how many of them compute a size by subtraction varies
		if nMake == 0 {
			c.undecided("module|allocations", "-", "no make([]T, ...) found in scope")
		} else {
			c.okTrivial("module|allocations examined", "-", fmt.Sprintf("%d slice allocations examined", nMake))
		}
	}()
	for _, fn := range p.Funcs {
		if fn.Pkg == nil || fn.Pkg.Pkg.Path() == rel("internal/ryu") {
			continue
		}
		fnm := fname(fn)
		eachInstr(fn, func(in ssa.Instruction) {
			mk, ok := in.(*ssa.MakeSlice)
			if !ok {
				return
			}
			nMake++
			for _, sz := range []ssa.Value{mk.Len, mk.Cap} {
				sub, ok := sz.(*ssa.BinOp)
				if !ok || sub.Op != token.SUB {
					continue
				}
				key := fmt.Sprintf("%s|make size %s", fnm, describeShort(sub))
				pos := p.instrPos(in)
				k, isK := constInt(sub.Y)
				if lc, isLen := sub.X.(*ssa.Call); isK && isLen && builtinName(lc) == "len" {
					if lb := lenLowerBound(fn, lc.Call.Args[0], in.Block(), 0); lb >= k {
						c.ok(key, pos, fmt.Sprintf("dominating guards imply len >= %d", lb))
					} else {
						c.bad(key, pos, fmt.Sprintf("the size %s is negative when the slice has fewer than %d element(s); no dominating guard excludes that: make panics", describeShort(sub), k))
					}
					continue
				}
				if why := r118Exempt(sub); why != "" {
					c.okTrivial(key, pos, "frozen exception: "+why)
					continue
				}
				c.undecided(key, pos, "an allocation size computed by subtraction that is neither `len(x) - constant` nor a listed exception")
			}
		})
	}
}

func describeShort(b *ssa.BinOp) string {
	side := func(v ssa.Value) string {
		if call, ok := v.(*ssa.Call); ok {
			if builtinName(call) == "len" {
				return "len(" + accessPath(call.Call.Args[0]) + ")"
			}
			if o := calleeObj(call); o != nil {
				return o.Name() + "()"
			}
		}
		if k, ok := constInt(v); ok {
			return fmt.Sprint(k)
		}
		return v.Name()
	}
	return side(b.X) + " - " + side(b.Y)
}

// r118Exempt: both sides are the Len() of an index.Int - the rows of a frame minus the rows one of its own
// filters kept (NotClause): the kept rows are a subsequence of the frame's rows (R8), so the difference is >= 0.
func r118Exempt(sub *ssa.BinOp) string {
	isIndexLen := func(v ssa.Value) bool {
		call, ok := v.(*ssa.Call)
		if !ok || len(call.Call.Args) != 1 {
			return false
		}
		o := calleeObj(call)
		return o != nil && o.Name() == "Len" && isIntIndexType(call.Call.Args[0].Type())
	}
	if isIndexLen(sub.X) && isIndexLen(sub.Y) {
		return "rows of the frame minus rows kept by a clause applied to that frame: kept rows are a subsequence of the frame's rows (R8)"
	}
	return ""
}
