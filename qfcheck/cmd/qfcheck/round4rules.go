package main

import (
	"fmt"
	"go/token"
	"go/types"

	"golang.org/x/tools/go/ssa"
)

// Rules written from the fourth round of independent mutants.

func init() {
	register(&Rule{ID: "R122", Name: "VALIDATE-HOISTED", Floor: 10,
		Text: "argument validation does not depend on the data: a call of a module function (no receiver) that can fail - its last result is an error - and whose arguments are all invariant in a loop (parameters, constants, values computed before the loop) does not stand inside that loop. Inside, it runs only when some row reaches it: for a frame without rows, an all-null column or a filter behind an Or that already selected every row, an invalid argument (a malformed like pattern) is accepted silently, and a string column and an enum column disagree about the same request. One obligation per fallible loop-invariant call of the column packages, the root package and internal/io",
		Run:  runR122})
}

func runR122(c *Ctx) {
	p := c.P
	scope := map[string]bool{rel(""): true, rel("internal/io"): true, rel("internal/io/sql"): true}
	for _, cp := range columnPkgs {
		scope[rel(cp)] = true
	}
	n := 0
	for _, fn := range p.Funcs {
		if fn.Pkg == nil || !scope[fn.Pkg.Pkg.Path()] || fn.Blocks == nil {
			continue
		}
		loops := loopsOf(fn)
		eachInstr(fn, func(in ssa.Instruction) {
			call, ok := in.(*ssa.Call)
			if !ok {
				return
			}
			cal := staticCallee(call)
			if cal == nil || cal.Pkg == nil || cal.Signature.Recv() != nil || len(call.Call.Args) == 0 {
				return
			}
			if len(cal.Pkg.Pkg.Path()) < len(modPath) || cal.Pkg.Pkg.Path()[:len(modPath)] != modPath {
				return
			}
			res := cal.Signature.Results()
			if res.Len() == 0 || !implementsError(res.At(res.Len()-1).Type()) {
				return
			}
			if cal.Pkg.Pkg.Path() == rel("qerrors") {
				return // constructing an error is not a validation
			}
			n++
			key := fname(fn) + "|" + cal.Name()
			pos := p.instrPos(call)
			for _, li := range loops {
				if !inLoop(li, call.Block()) {
					continue
				}
				invariant := true
				for _, a := range call.Call.Args {
					if !loopInvariant(li, a, 0) || r122StateAdvancedInLoop(li, a) {
						invariant = false
						break
					}
				}
				if invariant {
					c.bad(key, pos, fmt.Sprintf("%s(...) can fail, all its arguments are fixed before the loop at %s, and it is called inside that loop: whether an invalid argument is reported depends on whether any row reaches the call (an empty frame, an all-null column or rows already selected by an earlier Or leg hide the error)", cal.Name(), p.pos(li.header.Instrs[0].Pos())))
					return
				}
			}
			c.okTrivial(key, pos, "not a loop-invariant call inside a loop")
		})
	}
	if n == 0 {
		c.undecided("scope|fallible calls", "-", "no call of a fallible module function found in scope")
	}
}

// r122StateAdvancedInLoop: the argument is a pointer to an object on which the loop itself calls methods (a reader
// advanced by Next() in the loop condition): the same pointer denotes a different state in every iteration, so a
// call that inspects that state is not a validation of fixed arguments.
func r122StateAdvancedInLoop(li loopInfo, a ssa.Value) bool {
	if _, ok := a.Type().Underlying().(*types.Pointer); !ok {
		return false
	}
	root := rootValue(a)
	found := false
	for _, b := range li.header.Parent().Blocks {
		if !inLoop(li, b) && b != li.header {
			continue
		}
		for _, in := range b.Instrs {
			ci, ok := in.(ssa.CallInstruction)
			if !ok {
				continue
			}
			if r := recvOf(ci); r != nil && rootValue(r) == root {
				found = true
			}
		}
	}
	return found
}

// loopInvariant: v does not change between iterations of li (defined outside it, or computed inside from
// invariant operands without reading memory).
func loopInvariant(li loopInfo, v ssa.Value, depth int) bool {
	switch t := v.(type) {
	case *ssa.Const, *ssa.Parameter, *ssa.Global, *ssa.FreeVar, *ssa.Function, *ssa.Builtin:
		return true
	case ssa.Instruction:
		if !inLoop(li, t.Block()) {
			return true
		}
		if depth > 4 {
			return false
		}
		switch u := v.(type) {
		case *ssa.Convert:
			return loopInvariant(li, u.X, depth+1)
		case *ssa.ChangeType:
			return loopInvariant(li, u.X, depth+1)
		case *ssa.MakeInterface:
			return loopInvariant(li, u.X, depth+1)
		case *ssa.BinOp:
			return loopInvariant(li, u.X, depth+1) && loopInvariant(li, u.Y, depth+1)
		case *ssa.Field:
			return loopInvariant(li, u.X, depth+1)
		case *ssa.Slice:
			ok := loopInvariant(li, u.X, depth+1)
			for _, b := range []ssa.Value{u.Low, u.High, u.Max} {
				if b != nil && !loopInvariant(li, b, depth+1) {
					ok = false
				}
			}
			return ok
		}
		return false
	}
	return false
}

var _ = types.Typ

// ---- R123: the argument ToSQL hands to the driver for a cell is the cell ----

func init() {
	register(&Rule{ID: "R123", Name: "SQL-ARG-IDENTITY", Floor: 5,
		Text: "every argument builder handed out by internal/io/sql.NewArgBuilder (the function literals of type ArgBuilder) returns, on every path, the cell itself: the interface conversion of View(ix).ItemAt(i) of the captured column at the builder's own row parameter - or, for pointer cells, the pointed-to value under a test that the pointer is not nil and the constant nil under a test that it is. No other constant and no nil in any other situation: NaN is a float value of the frame, not NULL (a float column that is NaN in every row - the result of Filter isnull - would come back from the store as an untyped all-NULL column), and only a null string is NULL",
		Run:  runR123})
}

func runR123(c *Ctx) {
	p := c.P
	var ctor *ssa.Function
	for _, fn := range p.FuncsIn("internal/io/sql") {
		if fn.Parent() != nil || fn.Signature.Results().Len() != 2 {
			continue
		}
		if n, ok := fn.Signature.Results().At(0).Type().(*types.Named); ok && n.Obj().Name() == "ArgBuilder" {
			ctor = fn
		}
	}
	if ctor == nil {
		c.undecided("internal/io/sql|ArgBuilder constructor", "-", "no function returning (ArgBuilder, error) found")
		return
	}
	for _, fn := range ctor.AnonFuncs {
		key := fname(fn) + "|argument"
		if len(fn.Params) != 2 {
			c.undecided(key, p.pos(fn.Pos()), "unexpected builder signature")
			continue
		}
		rowP := fn.Params[1]
		bad := ""
		nRet := 0
		eachInstr(fn, func(in ssa.Instruction) {
			ret, ok := in.(*ssa.Return)
			if !ok || len(ret.Results) != 1 || bad != "" {
				return
			}
			nRet++
			v := ret.Results[0]
			var chk func(v ssa.Value, blk *ssa.BasicBlock, depth int)
			isItemAt := func(x ssa.Value) *ssa.Call {
				call, ok := x.(*ssa.Call)
				if !ok {
					return nil
				}
				o := calleeObj(call)
				if o == nil || o.Name() != "ItemAt" {
					return nil
				}
				args := call.Call.Args
				if len(args) == 0 || args[len(args)-1] != ssa.Value(rowP) {
					return nil
				}
				return call
			}
			chk = func(v ssa.Value, blk *ssa.BasicBlock, depth int) {
				if bad != "" || depth > 6 {
					return
				}
				switch t := v.(type) {
				case *ssa.MakeInterface:
					if isItemAt(t.X) != nil {
						return
					}
					// *ptr under ptr != nil
					if ld, ok := t.X.(*ssa.UnOp); ok && ld.Op == token.MUL && isItemAt(ld.X) != nil {
						return
					}
					bad = "returns " + describe(t.X) + ", which is not the cell read by ItemAt at the builder's row"
				case *ssa.Phi:
					for i, e := range t.Edges {
						chk(e, t.Block().Preds[i], depth+1)
					}
				case *ssa.Const:
					if !t.IsNil() {
						bad = "returns the constant " + t.String()
						return
					}
					// nil only where the cell (a pointer) was tested to be nil
					okNil := false
					for _, g := range dominatingGuards(blk) {
						cmp, ok := g.Cond.(*ssa.BinOp)
						if !ok || !(cmp.Op == token.EQL && g.Val || cmp.Op == token.NEQ && !g.Val) {
							continue
						}
						for _, side := range [][2]ssa.Value{{cmp.X, cmp.Y}, {cmp.Y, cmp.X}} {
							if cst, ok := side[1].(*ssa.Const); ok && cst.IsNil() && isItemAt(side[0]) != nil {
								okNil = true
							}
						}
					}
					if !okNil {
						bad = "returns nil (NULL) where the cell was not tested to be a nil pointer: a value of the frame (NaN, 0, false, the empty string) is written as NULL"
					}
				default:
					bad = "returns " + describe(v) + ", not the cell"
				}
			}
			chk(v, ret.Block(), 0)
		})
		switch {
		case bad != "":
			c.bad(key, p.pos(fn.Pos()), bad)
		case nRet == 0:
			c.undecided(key, p.pos(fn.Pos()), "no return found")
		default:
			c.ok(key, p.pos(fn.Pos()), "every return is View(ix).ItemAt(i) of the captured column")
		}
	}
}

// ---- R126: a float recognised as zero by comparison keeps its sign ----

func init() {
	register(&Rule{ID: "R126", Name: "FLOAT-ZERO-SIGN", Floor: 1,
		Text: "in internal/ryu (the float renderer) the special values are recognised on the bit pattern: every function that appends text for a float consults the sign bit (a value derived from math.Float64bits(f) >> k, or math.Signbit) and no float is compared with the constant 0 by == or != to choose the text - such a comparison is true for both zeros, so the branch it guards writes `0` for -0 and the text no longer parses back to the same float64. A comparison with 0 is accepted only when the region it guards branches on the sign; (b) in internal/fcolumn a float parameter compared with 0 is not stored into the column's storage on the non-zero side only (zero-initialised storage holds +0, so -0 would lose its sign)",
		Run:  runR126})
	register(&Rule{ID: "R127", Name: "BYTE-DELIMITER", Floor: 10,
		Text: "the CSV scanner treats its input as bytes: in internal/fastcsv and internal/io no UTF-8 aware search or trim of the standard library (bytes/strings IndexAny, LastIndexAny, ContainsAny, IndexRune, ContainsRune, IndexFunc, Trim, TrimLeft, TrimRight, Fields, FieldsFunc) is given a character set, rune or predicate that is not a compile-time constant of ASCII characters. A delimiter byte >= 0x80 converted to a string is an invalid UTF-8 sequence; IndexAny then matches every byte that is not part of a valid sequence, so where a field ends depends on where the reads cut multi-byte characters",
		Run:  runR127})
}

func runR126(c *Ctx) {
	p := c.P
	fns := p.FuncsIn("internal/ryu")
	if len(fns) == 0 {
		c.undecided("internal/ryu", "-", "package not found")
		return
	}
	var signAwareD func(fn *ssa.Function, d int) bool
	signAwareD = func(fn *ssa.Function, d int) bool {
		ok := false
		eachInstr(fn, func(in ssa.Instruction) {
			if call, isCall := in.(*ssa.Call); isCall {
				o := calleeObj(call)
				if isFuncNamed(o, "math", "", "Signbit") || isFuncNamed(o, "math", "", "Float64bits") || isFuncNamed(o, "math", "", "Float32bits") {
					ok = true
				}
				// a decoding helper of the package that is handed the float (decodeFloat64(f))
				if g := call.Call.StaticCallee(); g != nil && g.Blocks != nil && g.Pkg == fn.Pkg && d < 2 {
					for _, a := range call.Call.Args {
						if isFloatType(a.Type()) && signAwareD(g, d+1) {
							ok = true
						}
					}
				}
			}
		})
		return ok
	}
	signAware := func(fn *ssa.Function) bool { return signAwareD(fn, 0) }
	n := 0
	for _, fn := range fns {
		hasFloatParam := false
		for _, prm := range fn.Params {
			if isFloatType(prm.Type()) {
				hasFloatParam = true
			}
		}
		if !hasFloatParam || fn.Blocks == nil {
			continue
		}
		n++
		key := fname(fn) + "|zero"
		bad := ""
		eachInstr(fn, func(in ssa.Instruction) {
			b, ok := in.(*ssa.BinOp)
			if !ok || b.Op != token.EQL && b.Op != token.NEQ || !isFloatType(b.X.Type()) {
				return
			}
			var cst *ssa.Const
			if k, ok := b.Y.(*ssa.Const); ok {
				cst = k
			} else if k, ok := b.X.(*ssa.Const); ok {
				cst = k
			}
			if cst == nil || cst.Value == nil || cst.Float64() != 0 {
				return
			}
			// the zero side must branch on a sign value
			for _, r := range *b.Referrers() {
				iff, ok := r.(*ssa.If)
				if !ok {
					bad = p.instrPos(b) + ": the outcome of a comparison with 0 is used as a value"
					return
				}
				zeroSucc := 0
				if b.Op == token.NEQ {
					zeroSucc = 1
				}
				signTest := false
				for _, blk := range fn.Blocks {
					if !edgeDominates(iff.Block(), zeroSucc, blk) || len(blk.Instrs) == 0 {
						continue
					}
					if i2, ok := blk.Instrs[len(blk.Instrs)-1].(*ssa.If); ok {
						if derivesFromSign(i2.Cond, 0) {
							signTest = true
						}
					}
				}
				if !signTest {
					bad = p.instrPos(b) + ": a float is compared with 0 (true for +0 and -0 alike) and the branch taken for zero never looks at the sign: -0 is rendered as 0"
				}
			}
		})
		switch {
		case bad != "":
			c.bad(key, p.pos(fn.Pos()), bad)
		case !signAware(fn):
			c.bad(key, p.pos(fn.Pos()), "the function takes a float and never decodes its bit pattern or sign (math.Float64bits / math.Signbit): it cannot tell -0 from 0")
		default:
			c.ok(key, p.pos(fn.Pos()), "special values are recognised on the bit pattern, the sign bit is decoded")
		}
	}
	if n == 0 {
		c.undecided("internal/ryu|entry points", "-", "no function with a float parameter found")
	}
	// (b) the float column: a float parameter that is compared with the constant 0 and stored into the column's
	// storage only on the non-zero side is lost when it is -0 (zero-initialised storage holds +0)
	for _, fn := range p.FuncsIn("internal/fcolumn") {
		for _, prm := range fn.Params {
			if !isFloatType(prm.Type()) {
				continue
			}
			for _, r := range *prm.Referrers() {
				b, ok := r.(*ssa.BinOp)
				if !ok || b.Op != token.EQL && b.Op != token.NEQ {
					continue
				}
				other := b.Y
				if b.Y == ssa.Value(prm) {
					other = b.X
				}
				cst, ok := other.(*ssa.Const)
				if !ok || cst.Value == nil || cst.Float64() != 0 {
					continue
				}
				key := fname(fn) + "|zero " + prm.Name()
				bad := ""
				for _, r2 := range *b.Referrers() {
					iff, ok := r2.(*ssa.If)
					if !ok {
						continue
					}
					nonZero := 0
					if b.Op == token.EQL {
						nonZero = 1
					}
					stores, guarded := 0, 0
					for _, r3 := range *prm.Referrers() {
						st, ok := r3.(*ssa.Store)
						if !ok || st.Val != ssa.Value(prm) {
							continue
						}
						if _, isElem := st.Addr.(*ssa.IndexAddr); !isElem {
							continue
						}
						stores++
						if edgeDominates(iff.Block(), nonZero, st.Block()) {
							guarded++
						}
					}
					if stores > 0 && stores == guarded {
						bad = p.instrPos(b)
					}
				}
				if bad != "" {
					c.bad(key, bad, fmt.Sprintf("the float %s is stored into the column only when it differs from 0: -0 compares equal to 0, the store is skipped and the zero-initialised storage holds +0 - a constant column of negative zero loses its sign (ToCSV writes 0 for -0)", prm.Name()))
				} else {
					c.ok(key, p.instrPos(b), "the comparison with 0 does not decide whether the value is stored")
				}
			}
		}
	}
}

// derivesFromSign: v is computed from math.Signbit(..) or from a shift of math.Float64bits(..).
func derivesFromSign(v ssa.Value, depth int) bool {
	if depth > 6 {
		return false
	}
	switch t := v.(type) {
	case *ssa.Call:
		o := calleeObj(t)
		return isFuncNamed(o, "math", "", "Signbit") || isFuncNamed(o, "math", "", "Float64bits") || isFuncNamed(o, "math", "", "Float32bits")
	case *ssa.BinOp:
		return derivesFromSign(t.X, depth+1) || derivesFromSign(t.Y, depth+1)
	case *ssa.UnOp:
		return derivesFromSign(t.X, depth+1)
	case *ssa.Convert:
		return derivesFromSign(t.X, depth+1)
	case *ssa.Phi:
		for _, e := range t.Edges {
			if derivesFromSign(e, depth+1) {
				return true
			}
		}
	}
	return false
}

func runR127(c *Ctx) {
	p := c.P
	utf8Aware := map[string]int{ // function name -> index of the set / rune / predicate argument
		"IndexAny": 1, "LastIndexAny": 1, "ContainsAny": 1, "IndexRune": 1, "ContainsRune": 1, "IndexFunc": 1, "LastIndexFunc": 1,
		"Trim": 1, "TrimLeft": 1, "TrimRight": 1, "TrimFunc": 1, "FieldsFunc": 1, "Fields": -1,
	}
	n := 0
	for _, pkg := range []string{"internal/fastcsv", "internal/io"} {
		for _, fn := range p.FuncsIn(pkg) {
			n++
			key := fname(fn) + "|byte search"
			bad := ""
			eachInstr(fn, func(in ssa.Instruction) {
				call, ok := in.(ssa.CallInstruction)
				if !ok || bad != "" {
					return
				}
				o := calleeObj(call)
				if o == nil || o.Pkg() == nil || o.Pkg().Path() != "bytes" && o.Pkg().Path() != "strings" {
					return
				}
				ai, listed := utf8Aware[o.Name()]
				if !listed || o.Type().(*types.Signature).Recv() != nil {
					return
				}
				if ai < 0 {
					bad = fmt.Sprintf("%s: %s.%s splits on Unicode white space", p.instrPos(in), o.Pkg().Name(), o.Name())
					return
				}
				args := call.Common().Args
				if ai >= len(args) {
					return
				}
				okConst := false
				if s, isS := constString(args[ai]); isS {
					okConst = true
					for i := 0; i < len(s); i++ {
						if s[i] >= 0x80 {
							okConst = false
						}
					}
				} else if k, isK := constInt(args[ai]); isK && k >= 0 && k < 0x80 {
					okConst = true
				}
				if !okConst {
					bad = fmt.Sprintf("%s: %s.%s decodes its input as UTF-8 and is given %s, which is not a constant of ASCII characters: with a delimiter or byte >= 0x80 it matches bytes of cut or invalid sequences, so the result depends on the content and on where the reads fall", p.instrPos(in), o.Pkg().Name(), o.Name(), describe(args[ai]))
				}
			})
			if bad != "" {
				c.bad(key, p.pos(fn.Pos()), bad)
			} else {
				c.okTrivial(key, p.pos(fn.Pos()), "no UTF-8 aware search over the raw input")
			}
		}
	}
	if n == 0 {
		c.undecided("internal/fastcsv|functions", "-", "no function found")
	}
	// (b) the byte the scanner splits on is the configured one: every value stored into a byte-typed field of a
	// scanner struct (the delimiter) is a parameter or a field of the configuration, as it is - no default is
	// substituted for a particular value, because every byte, 0 included, is a legal delimiter
	nb := 0
	for _, fn := range p.FuncsIn("internal/fastcsv") {
		eachInstr(fn, func(in ssa.Instruction) {
			st, ok := in.(*ssa.Store)
			if !ok {
				return
			}
			fa, ok := st.Addr.(*ssa.FieldAddr)
			if !ok {
				return
			}
			stt, ok := deref(fa.X.Type()).Underlying().(*types.Struct)
			if !ok {
				return
			}
			if bt, ok := stt.Field(fa.Field).Type().Underlying().(*types.Basic); !ok || bt.Kind() != types.Byte && bt.Kind() != types.Uint8 {
				return
			}
			nb++
			key := fname(fn) + "|delimiter provenance"
			v := stripConv(st.Val)
			switch t := v.(type) {
			case *ssa.Parameter:
				c.ok(key, p.instrPos(st), "the configured byte, as it is")
				return
			case *ssa.Phi, *ssa.Const:
				c.bad(key, p.instrPos(st), fmt.Sprintf("the delimiter stored in the scanner is %s, not simply the configured byte: a default substituted for one particular value (0 taken for `unset`) makes that byte unusable as a delimiter although every single byte is legal", describe(t)))
				return
			}
			if fld, _ := fieldOf(v); fld != nil {
				c.ok(key, p.instrPos(st), "the configured byte, read from the configuration")
				return
			}
			c.bad(key, p.instrPos(st), "the delimiter stored in the scanner is "+describe(v)+", not the configured byte")
		})
	}
	if nb == 0 {
		c.undecided("internal/fastcsv|delimiter field", "-", "no store into a byte-typed scanner field found")
	}
}

// ---- R118 clause (b): allocation sizes supplied by the caller ----

// publicPkg: a package of the module that client code can import (not internal/, cmd/, contrib/).
func publicPkg(pk *types.Package) bool {
	if pk == nil {
		return false
	}
	path := pk.Path()
	if len(path) < len(modPath) || path[:len(modPath)] != modPath {
		return false
	}
	rest := path[len(modPath):]
	for _, seg := range []string{"/internal", "/cmd", "/contrib"} {
		if len(rest) >= len(seg) && rest[:len(seg)] == seg {
			return false
		}
	}
	return true
}

// impliesNonNeg: the dominating guards of block b establish v >= 0 (v compared through its access path).
func impliesNonNeg(v ssa.Value, b *ssa.BasicBlock) bool {
	if b == nil {
		return false
	}
	want := accessPath(stripConv(v))
	if impliesNonNegPath(stripConv(v), want, b) {
		return true
	}
	// inside a function literal: a test made by the enclosing function before the literal was created holds for
	// what the literal reads through a captured variable
	fn := b.Parent()
	if fn.Parent() == nil {
		return false
	}
	for i, fv := range fn.FreeVars {
		pre := accessPath(fv)
		if len(want) < len(pre) || want[:len(pre)] != pre {
			continue
		}
		var found bool
		eachInstr(fn.Parent(), func(in ssa.Instruction) {
			mc, ok := in.(*ssa.MakeClosure)
			if !ok || mc.Fn != ssa.Value(fn) || i >= len(mc.Bindings) || found {
				return
			}
			if impliesNonNegPath(nil, accessPath(mc.Bindings[i])+want[len(pre):], mc.Block()) {
				found = true
			}
		})
		if found {
			return true
		}
	}
	return false
}

func impliesNonNegPath(sv ssa.Value, want string, b *ssa.BasicBlock) bool {
	for _, g := range dominatingGuards(b) {
		cmp, ok := g.Cond.(*ssa.BinOp)
		if !ok {
			continue
		}
		x, y := stripConv(cmp.X), stripConv(cmp.Y)
		op := cmp.Op
		if k, isK := constInt(x); isK {
			// k OP v  ->  v OP' k
			_ = k
			x, y = y, x
			switch op {
			case token.LSS:
				op = token.GTR
			case token.LEQ:
				op = token.GEQ
			case token.GTR:
				op = token.LSS
			case token.GEQ:
				op = token.LEQ
			}
		}
		k, isK := constInt(y)
		if !isK || (x != sv && accessPath(x) != want) {
			continue
		}
		switch {
		case op == token.GEQ && g.Val && k >= 0,
			op == token.GTR && g.Val && k >= -1,
			op == token.LSS && !g.Val && k >= 0,
			op == token.LEQ && !g.Val && k >= -1,
			op == token.EQL && g.Val && k >= 0:
			return true
		}
	}
	return false
}

type sizeTaint struct {
	p     *Prog
	seen  map[ssa.Value]bool
	steps int
}

// source returns a description when v (used in block b) can be a caller-supplied integer that no guard on the
// way has shown to be non-negative; "" otherwise.
func (t *sizeTaint) source(v ssa.Value, b *ssa.BasicBlock, depth int) string {
	if v == nil || depth > 8 || t.steps > 400 {
		return ""
	}
	t.steps++
	if impliesNonNeg(v, b) {
		return ""
	}
	if t.seen[v] {
		return ""
	}
	t.seen[v] = true
	switch x := v.(type) {
	case *ssa.Const:
		return ""
	case *ssa.Convert:
		if bt, ok := x.X.Type().Underlying().(*types.Basic); ok && bt.Info()&types.IsUnsigned != 0 && intSize(x.X.Type()) < 64 {
			return ""
		}
		return t.source(x.X, b, depth+1)
	case *ssa.ChangeType:
		return t.source(x.X, b, depth+1)
	case *ssa.BinOp:
		switch x.Op {
		case token.ADD, token.MUL, token.SUB, token.QUO, token.SHR, token.SHL:
			if s := t.source(x.X, b, depth+1); s != "" {
				return s
			}
			return t.source(x.Y, b, depth+1)
		}
		return ""
	case *ssa.Phi:
		for i, e := range x.Edges {
			if s := t.source(e, x.Block().Preds[i], depth+1); s != "" {
				return s
			}
		}
		return ""
	case *ssa.Parameter:
		if !isIntKind(x.Type()) {
			return ""
		}
		fn := x.Parent()
		if obj, ok := fn.Object().(*types.Func); ok && obj.Exported() && publicPkg(obj.Pkg()) && fn.Parent() == nil {
			recvOK := true
			if r := fn.Signature.Recv(); r != nil {
				if n, ok := deref(r.Type()).(*types.Named); !ok || !n.Obj().Exported() {
					recvOK = false
				}
			}
			if recvOK {
				return fmt.Sprintf("parameter %s of the public %s", x.Name(), fname(fn))
			}
		}
		idx := -1
		for i, prm := range fn.Params {
			if prm == x {
				idx = i
			}
		}
		sites, _ := t.p.staticCallSites(fn)
		for _, cs := range sites {
			args := cs.Common().Args
			if idx < 0 || idx >= len(args) {
				continue
			}
			if s := t.source(args[idx], cs.Block(), depth+1); s != "" {
				return s
			}
		}
		return ""
	case *ssa.Extract:
		return t.source(x.Tuple, b, depth+1)
	case *ssa.Call:
		if bn := builtinName(x); bn != "" {
			return "" // len, cap, copy, min ... of non-negative things
		}
		cal := x.Call.StaticCallee()
		if cal == nil || cal.Blocks == nil || cal.Pkg == nil || !inModule(cal.Pkg.Pkg) {
			return ""
		}
		var out string
		eachInstr(cal, func(in ssa.Instruction) {
			r, ok := in.(*ssa.Return)
			if !ok || out != "" {
				return
			}
			for _, res := range r.Results {
				if isIntKind(res.Type()) {
					if s := t.source(res, r.Block(), depth+1); s != "" {
						out = s
					}
				}
			}
		})
		return out
	}
	// a field
	if fld, _ := fieldOf(v); fld != nil && isIntKind(fld.Type()) {
		owner := ""
		var ownerPkg *types.Package
		switch y := v.(type) {
		case *ssa.UnOp:
			if fa, ok := y.X.(*ssa.FieldAddr); ok {
				if n, ok := deref(fa.X.Type()).(*types.Named); ok {
					owner, ownerPkg = n.Obj().Name(), n.Obj().Pkg()
				}
			}
		case *ssa.Field:
			if n, ok := y.X.Type().(*types.Named); ok {
				owner, ownerPkg = n.Obj().Name(), n.Obj().Pkg()
			}
		}
		if owner != "" && fld.Exported() && types.NewTypeName(0, ownerPkg, owner, nil).Exported() && publicPkg(ownerPkg) {
			return fmt.Sprintf("field %s of the public struct %s.%s", fld.Name(), ownerPkg.Name(), owner)
		}
		// an internal field: what is stored into it anywhere in the module
		var out string
		for _, fn := range t.p.Funcs {
			if out != "" {
				break
			}
			eachInstr(fn, func(in ssa.Instruction) {
				st, ok := in.(*ssa.Store)
				if !ok || out != "" {
					return
				}
				fa, ok := st.Addr.(*ssa.FieldAddr)
				if !ok {
					return
				}
				if stt, ok := deref(fa.X.Type()).Underlying().(*types.Struct); ok && stt.Field(fa.Field) == fld {
					if s := t.source(st.Val, st.Block(), depth+1); s != "" {
						out = s
					}
				}
			})
		}
		return out
	}
	return ""
}

func r118CallerSizes(c *Ctx) {
	p := c.P
	for _, fn := range p.Funcs {
		if fn.Pkg == nil || fn.Pkg.Pkg.Path() == rel("internal/ryu") {
			continue
		}
		eachInstr(fn, func(in ssa.Instruction) {
			mk, ok := in.(*ssa.MakeSlice)
			if !ok {
				return
			}
			for i, sz := range []ssa.Value{mk.Len, mk.Cap} {
				if _, isC := sz.(*ssa.Const); isC {
					continue
				}
				if call, ok := sz.(*ssa.Call); ok && (builtinName(call) == "len" || builtinName(call) == "cap") {
					continue
				}
				what := "length"
				if i == 1 {
					what = "capacity"
				}
				key := fmt.Sprintf("%s|make %s from the caller", fname(fn), what)
				t := &sizeTaint{p: p, seen: map[ssa.Value]bool{}}
				if src := t.source(sz, in.Block(), 0); src != "" {
					c.bad(key, p.instrPos(in), fmt.Sprintf("the %s of this allocation comes from %s and no test on the way establishes that it is not negative: a negative value panics (makeslice: len out of range) instead of being reported through Err", what, src))
				} else {
					c.okTrivial(key, p.instrPos(in), "not a caller-supplied integer, or shown to be >= 0 by a dominating test")
				}
			}
		})
	}
}

// ---- R128: the names of a frame's columns are distinct ----

func init() {
	register(&Rule{ID: "R128", Name: "NAME-UNIQUE", Floor: 3,
		Text: "a frame never holds two columns of one name: in the root package every loop that enters columns into a name map (map[string]namedColumn) under a key taken from a list of names (the elements of a []string: a ColumnOrder, the names requested from Select, the key columns of a Grouper) rejects a name that is already in the map - a comma-ok lookup of the same key in the same map whose hit edge returns an errored frame dominates the insertion - or takes its keys from a range over a map (distinct by construction). Otherwise a name given twice yields a frame whose column list has two entries and whose name map one: ColumnNames shows [A A], the column the caller left out is lost without an error, and later operations on A address only one of the two",
		Run:  runR128})
}

func runR128(c *Ctx) {
	p := c.P
	n := 0
	for _, fn := range p.FuncsIn("") {
		loops := loopsOf(fn)
		if len(loops) == 0 {
			continue
		}
		eachInstr(fn, func(in ssa.Instruction) {
			mu, ok := in.(*ssa.MapUpdate)
			if !ok || !isNamedColumnContainer(p, mu.Map.Type()) {
				return
			}
			var li *loopInfo
			for i := range loops {
				if inLoop(loops[i], mu.Block()) {
					li = &loops[i]
				}
			}
			if li == nil {
				return
			}
			n++
			key := fname(fn) + "|name map insertion"
			pos := p.instrPos(mu)
			// where does the key come from?
			k := stripConv(mu.Key)
			// (a) range over a map: key is Extract #1 of a Next on a map range
			if ex, ok := k.(*ssa.Extract); ok {
				if nx, ok := ex.Tuple.(*ssa.Next); ok && !nx.IsString {
					c.okTrivial(key, pos, "keys come from a range over a map: distinct by construction")
					return
				}
			}
			// (b) the name field of an element of an existing frame container
			if fld, _ := fieldOf(k); fld != nil {
				if owner, ok := fieldOwner(k); ok && owner == "namedColumn" {
					c.okTrivial(key, pos, "keys are the names of the columns of an existing frame")
					return
				}
			}
			// (c) a dominating comma-ok lookup of the same key in the same map whose hit edge leaves the loop with an error
			guarded := false
			for _, g := range dominatingGuards(mu.Block()) {
				ex, ok := g.Cond.(*ssa.Extract)
				if !ok || ex.Index != 1 || g.Val {
					continue
				}
				lk, ok := ex.Tuple.(*ssa.Lookup)
				if !ok || !lk.CommaOk || accessPath(lk.X) != accessPath(mu.Map) && lk.X != mu.Map {
					continue
				}
				if stripConv(lk.Index) == k || accessPath(lk.Index) == accessPath(k) {
					guarded = true
				}
			}
			if guarded {
				c.ok(key, pos, "a name that is already in the map is rejected before the insertion")
				return
			}
			// the duplicate may be remembered and reported after the loop (so that an unknown name later in the list
			// still wins): a comma-ok lookup of the same key in the same map runs on every iteration before the
			// insertion and its outcome is branched on
			remembered := false
			eachInstr(fn, func(i2 ssa.Instruction) {
				lk, ok := i2.(*ssa.Lookup)
				if !ok || !lk.CommaOk || !(lk.Block().Dominates(mu.Block())) || !inLoop(*li, lk.Block()) {
					return
				}
				if lk.X != mu.Map && accessPath(lk.X) != accessPath(mu.Map) {
					return
				}
				if stripConv(lk.Index) != k && accessPath(lk.Index) != accessPath(k) {
					return
				}
				for _, r := range *lk.Referrers() {
					if ex, ok := r.(*ssa.Extract); ok && ex.Index == 1 {
						for _, r2 := range *ex.Referrers() {
							switch r2.(type) {
							case *ssa.If, *ssa.Phi, *ssa.BinOp:
								remembered = true
							}
						}
					}
				}
			})
			if remembered {
				c.ok(key, pos, "every name is looked up in the map before it is entered and the outcome is acted on")
				return
			}
			c.bad(key, pos, fmt.Sprintf("columns are entered into the name map under keys taken from a caller-supplied list (%s) without a test that the name is not in the map yet: a name given twice produces a frame with two list entries and one map entry (ColumnNames [A A]); a column the caller forgot instead is silently lost", describe(k)))
		})
	}
	if n == 0 {
		c.undecided("qframe|name map insertions", "-", "no insertion into a map[string]namedColumn inside a loop found")
	}
}

// ---- R129: an instruction without a source column still honours the row selection ----

func init() {
	register(&Rule{ID: "R129", Name: "APPLY-SELECTION", Floor: 8,
		Text: "in the root package's zero-argument apply helper (the QFrame method that switches over the dynamic type of an instruction's Fn - func() T, a constant, a column name - and builds the destination column without a source column) every case that produces a column consults the frame's row index: the data is filled in a loop over qf.index, or the column comes from a call that is handed qf.index. FilteredApply applies its instructions under the filtered index and promises zero/null for the rows that do not match; a case that sizes a constant column by the column length, or copies a whole column, gives those rows the value too",
		Run:  runR129})
}

func runR129(c *Ctx) {
	p := c.P
	var fn *ssa.Function
	for _, f := range p.FuncsIn("") {
		if f.Signature.Recv() == nil || f.Parent() != nil || len(f.Params) < 2 {
			continue
		}
		if n, ok := deref(f.Signature.Recv().Type()).(*types.Named); !ok || n.Obj().Name() != "QFrame" {
			continue
		}
		// a type switch with a `func() int`-like case on an interface parameter
		hit := false
		eachInstr(f, func(in ssa.Instruction) {
			if ta, ok := in.(*ssa.TypeAssert); ok && ta.CommaOk {
				if sig, ok := ta.AssertedType.Underlying().(*types.Signature); ok && sig.Params().Len() == 0 && sig.Results().Len() == 1 {
					if _, isPrm := ta.X.(*ssa.Parameter); isPrm {
						hit = true
					}
				}
			}
		})
		if hit {
			fn = f
		}
	}
	if fn == nil {
		c.undecided("qframe|zero-argument apply helper", "-", "no QFrame method that switches over func() T / constant instructions found")
		return
	}
	frame := fn.Params[0]
	isFrameIndex := func(v ssa.Value) bool {
		if fld, x := fieldOf(v); fld != nil && isIntIndexType(fld.Type()) {
			root := x
			for {
				if u, ok := root.(*ssa.UnOp); ok {
					root = u.X
					continue
				}
				break
			}
			if root == ssa.Value(frame) {
				return true
			}
			if al, ok := root.(*ssa.Alloc); ok {
				for _, r := range *al.Referrers() {
					if st, ok := r.(*ssa.Store); ok && st.Addr == ssa.Value(al) && st.Val == ssa.Value(frame) {
						return true
					}
				}
			}
		}
		return false
	}
	loops := loopsOf(fn)
	eachInstr(fn, func(in ssa.Instruction) {
		ta, ok := in.(*ssa.TypeAssert)
		if !ok || !ta.CommaOk {
			return
		}
		if _, isPrm := ta.X.(*ssa.Parameter); !isPrm {
			return
		}
		var okIf *ssa.If
		for _, r := range *ta.Referrers() {
			if ex, ok := r.(*ssa.Extract); ok && ex.Index == 1 {
				for _, r2 := range *ex.Referrers() {
					if iff, ok := r2.(*ssa.If); ok {
						okIf = iff
					}
				}
			}
		}
		if okIf == nil {
			return
		}
		// keyed by the construct, not by the function's name: the known finding F1 stays the same finding when the
		// switch is moved into a helper
		key := "zero-argument apply|case " + types.TypeString(ta.AssertedType, shortQual)
		consults := false
		for _, blk := range fn.Blocks {
			if !edgeDominates(okIf.Block(), 0, blk) {
				continue
			}
			for _, li := range loops {
				if li.base != nil && li.header == blk && isFrameIndex(li.base) {
					consults = true
				}
			}
			for _, i2 := range blk.Instrs {
				if call, ok := i2.(ssa.CallInstruction); ok {
					for _, a := range call.Common().Args {
						if isFrameIndex(a) {
							consults = true
						}
					}
				}
			}
		}
		if consults {
			c.ok(key, p.instrPos(ta), "the destination is filled through the frame's row index")
		} else {
			c.bad(key, p.instrPos(ta), "this kind of instruction builds its destination column without looking at the frame's row index: under FilteredApply the rows that do not match the clause get the value as well, not zero/null")
		}
	})
}

// ---- R131: a value of none of the handled dynamic types is an error ----

func init() {
	register(&Rule{ID: "R131", Name: "DEFAULT-ERRORS", Floor: 20,
		Text: "in the column packages and in internal/io/sql, every function that returns an error and decodes an interface-typed parameter by comma-ok type assertions (a type switch over the function / comparator / argument union types) is explored along the paths on which every one of those assertions fails and the value is not nil: each return reached carries a non-nil error. A default clause that returns nil - or a fall-through that reports success - accepts a function or argument of an unsupported type silently instead of reporting it through Err (the column then comes back unchanged or the filter selects nothing)",
		Run:  runR131})
}

func runR131(c *Ctx) {
	p := c.P
	pkgs := append([]string{"internal/io/sql"}, columnPkgs...)
	for _, pkg := range pkgs {
		for _, fn := range p.FuncsIn(pkg) {
			if fn.Blocks == nil || errResultIndex(fn.Signature) < 0 {
				continue
			}
			// interface-typed parameters that are type-asserted (directly, or after a normalising call)
			switched := map[ssa.Value]bool{}
			var asserts []*ssa.TypeAssert
			eachInstr(fn, func(in ssa.Instruction) {
				ta, ok := in.(*ssa.TypeAssert)
				if !ok || !ta.CommaOk {
					return
				}
				root := ta.X
				if call, ok := root.(*ssa.Call); ok && len(call.Call.Args) == 1 {
					root = call.Call.Args[0] // x = normalise(x)
				}
				if prm, ok := root.(*ssa.Parameter); ok {
					if _, isIface := prm.Type().Underlying().(*types.Interface); isIface {
						switched[ta.X] = true
						asserts = append(asserts, ta)
					}
				}
			})
			if len(asserts) < 2 {
				continue // a single assertion is a plain conversion with its own error, not a union decode
			}
			key := fname(fn) + "|unsupported dynamic type"
			seen := map[*ssa.BasicBlock]bool{}
			nRet, badRet := 0, ""
			var walk func(b *ssa.BasicBlock)
			walk = func(b *ssa.BasicBlock) {
				if seen[b] {
					return
				}
				seen[b] = true
				last := b.Instrs[len(b.Instrs)-1]
				switch t := last.(type) {
				case *ssa.Return:
					nRet++
					if returnsNilError(t) && !r131NilRejectedByCallers(p, fn, t) {
						badRet = p.instrPos(t)
					}
					return
				case *ssa.If:
					if ex, ok := t.Cond.(*ssa.Extract); ok && ex.Index == 1 {
						if ta, ok := ex.Tuple.(*ssa.TypeAssert); ok && ta.CommaOk && switched[ta.X] {
							walk(b.Succs[1])
							return
						}
					}
					// case nil: the value compared with nil - follow the `not nil` side
					if cmp, ok := t.Cond.(*ssa.BinOp); ok && (cmp.Op == token.EQL || cmp.Op == token.NEQ) {
						for _, side := range [][2]ssa.Value{{cmp.X, cmp.Y}, {cmp.Y, cmp.X}} {
							if cst, ok := side[1].(*ssa.Const); ok && cst.IsNil() && switched[side[0]] {
								if cmp.Op == token.EQL {
									walk(b.Succs[1])
								} else {
									walk(b.Succs[0])
								}
								return
							}
						}
					}
				}
				for _, sc := range b.Succs {
					walk(sc)
				}
			}
			walk(fn.Blocks[0])
			switch {
			case nRet == 0:
				c.okTrivial(key, p.pos(fn.Pos()), "no return is reachable when every assertion fails")
			case badRet != "":
				c.bad(key, p.pos(fn.Pos()), "a value of none of the handled dynamic types reaches the return at "+badRet+", which reports success: an unsupported function or argument type is accepted silently")
			default:
				c.ok(key, p.pos(fn.Pos()), "a value of none of the handled types yields an error")
			}
		}
	}
}

// ---- R133: a clause is taken apart only together with its error ----

func init() {
	register(&Rule{ID: "R133", Name: "CLAUSE-ERR-TRAVELS", Floor: 2,
		Text: "a composite filter clause (a struct of the root package with a list of sub-clauses and an error recorded at construction: AndClause, OrClause) is consulted for its sub-clauses only by code that also consults its error: in every function outside the clause's own methods that reads the sub-clause list of a clause value, the error field of the same value is read as well. The error is how `And()` / `Or()` without sub-clauses is reported; flattening and(a, and()) into and(a) by splicing the nested list drops it, the filter then succeeds - or, with nothing left, dereferences nil",
		Run:  runR133})
}

func runR133(c *Ctx) {
	p := c.P
	pk := p.PkgByID[rel("")]
	if pk == nil {
		c.undecided("qframe|package", "-", "root package not found")
		return
	}
	// clause struct types: a field that is a slice of an interface type and a field of type error
	type clauseT struct {
		named        *types.Named
		subIdx, eIdx int
	}
	var clauses []clauseT
	sc := pk.Types.Scope()
	for _, name := range sc.Names() {
		tn, ok := sc.Lookup(name).(*types.TypeName)
		if !ok {
			continue
		}
		n, ok := tn.Type().(*types.Named)
		if !ok {
			continue
		}
		st, ok := n.Underlying().(*types.Struct)
		if !ok {
			continue
		}
		sub, e := -1, -1
		for i := 0; i < st.NumFields(); i++ {
			if sl, ok := st.Field(i).Type().Underlying().(*types.Slice); ok {
				if _, isI := sl.Elem().Underlying().(*types.Interface); isI {
					if nn, ok := sl.Elem().(*types.Named); ok && nn.Obj().Pkg() == pk.Types {
						sub = i
					}
				}
			}
			if isErrorType(st.Field(i).Type()) {
				e = i
			}
		}
		if sub >= 0 && e >= 0 {
			clauses = append(clauses, clauseT{n, sub, e})
		}
	}
	if len(clauses) == 0 {
		c.undecided("qframe|clause types", "-", "no struct with a sub-clause list and an error field found")
		return
	}
	for _, ct := range clauses {
		key := "qframe." + ct.named.Obj().Name() + "|taken apart with its error"
		bad := ""
		for _, fn := range p.FuncsIn("") {
			if r := fn.Signature.Recv(); r != nil {
				if n, ok := deref(r.Type()).(*types.Named); ok && n.Obj() == ct.named.Obj() {
					continue // the clause's own methods
				}
			}
			// values of the clause type whose sub-clause list / error is read in fn
			readsSub := map[string]string{}
			readsErr := map[string]bool{}
			eachInstr(fn, func(in ssa.Instruction) {
				var x ssa.Value
				idx := -1
				switch t := in.(type) {
				case *ssa.Field:
					x, idx = t.X, t.Field
				case *ssa.FieldAddr:
					// only reads: the address is loaded, not stored to
					isRead := false
					for _, r := range *t.Referrers() {
						if u, ok := r.(*ssa.UnOp); ok && u.Op == token.MUL {
							isRead = true
						}
					}
					if isRead {
						x, idx = t.X, t.Field
					}
				}
				if x == nil {
					return
				}
				n, ok := deref(x.Type()).(*types.Named)
				if !ok || n.Obj() != ct.named.Obj() {
					return
				}
				if idx == ct.subIdx {
					readsSub[accessPath(x)] = p.instrPos(in)
				}
				if idx == ct.eIdx {
					readsErr[accessPath(x)] = true
				}
			})
			for path, pos := range readsSub {
				if !readsErr[path] {
					bad = fmt.Sprintf("%s reads the sub-clauses of a %s at %s without looking at its error", fname(fn), ct.named.Obj().Name(), pos)
				}
			}
		}
		if bad != "" {
			c.bad(key, "-", bad+": the error recorded when the clause was built (no sub-clauses given) is lost, and the clause it is merged into reports success")
		} else {
			c.ok(key, "-", "only the clause's own methods read its sub-clauses (or whoever reads them reads its error too)")
		}
	}
}

// ---- R134: where the codes of an enum column come from ----

func init() {
	register(&Rule{ID: "R134", Name: "ENUM-CODE-SOURCE", Floor: 4,
		Text: "every code appended to (or stored into) the data of an enum column in internal/ecolumn is one of: the code found for the cell's own string by a lookup in the value map (value result of a comma-ok map lookup or of a call that returns a code), a newly minted code, the null constant, a parameter, a code read from another column's data, or an entry of a translation slice indexed by such a code. A code remembered in a field of the factory from an earlier cell (a last-value cache) is none of these: in its zero state it answers `code 0` for the empty string, so an undeclared empty value is accepted as the first declared value",
		Run:  runR134})
}

func runR134(c *Ctx) {
	p := c.P
	ev := p.Named("internal/ecolumn", "enumVal")
	if ev == nil {
		c.undecided("internal/ecolumn.enumVal", "-", "type not found")
		return
	}
	isCode := func(t types.Type) bool {
		n, ok := t.(*types.Named)
		return ok && n.Obj() == ev.Obj()
	}
	isCodeSlice := func(t types.Type) bool {
		sl, ok := t.Underlying().(*types.Slice)
		return ok && isCode(sl.Elem())
	}
	n := 0
	for _, fn := range p.FuncsIn("internal/ecolumn") {
		var check func(v ssa.Value, d int) string
		check = func(v ssa.Value, d int) string {
			if d > 6 {
				return ""
			}
			switch t := v.(type) {
			case *ssa.Const, *ssa.Parameter:
				return ""
			case *ssa.Convert:
				return "" // a rank computed from an index / length: R33 bounds it
			case *ssa.ChangeType:
				return check(t.X, d+1)
			case *ssa.Phi:
				for _, e := range t.Edges {
					if w := check(e, d+1); w != "" {
						return w
					}
				}
				return ""
			case *ssa.Extract:
				if _, ok := t.Tuple.(*ssa.Lookup); ok {
					return ""
				}
				if _, ok := t.Tuple.(*ssa.Call); ok {
					return ""
				}
				if _, ok := t.Tuple.(*ssa.Next); ok {
					return ""
				}
			case *ssa.Lookup:
				return ""
			case *ssa.Call:
				return ""
			case *ssa.UnOp:
				if t.Op == token.MUL {
					switch a := t.X.(type) {
					case *ssa.IndexAddr:
						return "" // an element of a slice of codes (another column's data, a translation table)
					case *ssa.FieldAddr:
						st, _ := deref(a.X.Type()).Underlying().(*types.Struct)
						if st != nil {
							return "the field " + st.Field(a.Field).Name() + " of " + types.TypeString(deref(a.X.Type()), shortQual)
						}
					case *ssa.Alloc:
						for _, r := range *a.Referrers() {
							if st, ok := r.(*ssa.Store); ok && st.Addr == ssa.Value(a) {
								if w := check(st.Val, d+1); w != "" {
									return w
								}
							}
						}
						return ""
					}
				}
			case *ssa.Field:
				if st, ok := t.X.Type().Underlying().(*types.Struct); ok {
					return "the field " + st.Field(t.Field).Name()
				}
			case *ssa.BinOp:
				return ""
			}
			return ""
		}
		eachInstr(fn, func(in ssa.Instruction) {
			var vals []ssa.Value
			switch t := in.(type) {
			case *ssa.Call:
				if builtinName(t) == "append" && len(t.Call.Args) == 2 && isCodeSlice(t.Type()) {
					vals = variadicElems(t.Call.Args[1])
				}
			case *ssa.Store:
				if ia, ok := t.Addr.(*ssa.IndexAddr); ok && isCodeSlice(ia.X.Type()) {
					vals = []ssa.Value{t.Val}
				}
			}
			for _, v := range vals {
				n++
				key := fname(fn) + "|code source"
				if w := check(v, 0); w != "" {
					c.bad(key, p.instrPos(in), "a code is entered into an enum column's data from "+w+", a value remembered outside the value map: it is not the code of this cell's string (a last-value cache answers code 0 for the empty string before anything was looked up)")
				} else {
					c.okTrivial(key, p.instrPos(in), "looked up, minted, null, a parameter or a code of existing data")
				}
			}
		})
	}
	if n == 0 {
		c.undecided("internal/ecolumn|code stores", "-", "no code entered into column data found")
	}
}

// ---- R132: when an operation may hand back its receiver unchanged ----

func init() {
	register(&Rule{ID: "R132", Name: "IDENTITY-RETURN", Floor: 10,
		Text: "an exported QFrame method hands back its receiver unchanged only on the strength of the request and of what the frame *is*: the tests that guard such a return read the receiver's error, its row index, its columns and name map, and the arguments - nothing else. A return of the receiver that is guarded by any other state carried in the frame (an order the rows are `known` to be sorted by, a cached flag) makes the result depend on the frame's history: the state is copied by the helpers that derive frames (withIndex) and survives operations that invalidate it, so Sort after a column was overwritten returns the rows unsorted",
		Run:  runR132})
}

func runR132(c *Ctx) {
	p := c.P
	qfT := p.Named("", "QFrame")
	if qfT == nil {
		c.undecided("qframe.QFrame", "-", "type not found")
		return
	}
	st, _ := qfT.Underlying().(*types.Struct)
	if st == nil {
		c.undecided("qframe.QFrame", "-", "not a struct")
		return
	}
	// the fields that describe what the frame is
	content := map[string]bool{}
	for i := 0; i < st.NumFields(); i++ {
		f := st.Field(i)
		switch {
		case isErrorType(f.Type()), isIntIndexType(f.Type()), isNamedColumnContainer(p, f.Type()):
			content[f.Name()] = true
		}
	}
	for _, fn := range p.FuncsIn("") {
		obj, ok := fn.Object().(*types.Func)
		if !ok || !obj.Exported() || fn.Signature.Recv() == nil || fn.Parent() != nil {
			continue
		}
		if n, ok := deref(fn.Signature.Recv().Type()).(*types.Named); !ok || n.Obj() != qfT.Obj() {
			continue
		}
		if fn.Signature.Results().Len() != 1 || !isFrameType(fn.Signature.Results().At(0).Type()) {
			continue
		}
		recv := fn.Params[0]
		isRecv := func(v ssa.Value) bool {
			if v == ssa.Value(recv) {
				return true
			}
			if ld, ok := v.(*ssa.UnOp); ok && ld.Op == token.MUL {
				if al, ok := ld.X.(*ssa.Alloc); ok {
					n, all := 0, true
					for _, r := range *al.Referrers() {
						if s, ok := r.(*ssa.Store); ok && s.Addr == ssa.Value(al) {
							n++
							if s.Val != ssa.Value(recv) {
								all = false
							}
						}
						if _, ok := r.(*ssa.FieldAddr); ok {
							// a field of the copy is assigned somewhere: not the unchanged receiver
							for _, r2 := range *r.(*ssa.FieldAddr).Referrers() {
								if _, isSt := r2.(*ssa.Store); isSt {
									all = false
								}
							}
						}
					}
					return n > 0 && all
				}
			}
			return false
		}
		// foreign receiver state mentioned by a value
		var foreign func(v ssa.Value, d int) string
		foreign = func(v ssa.Value, d int) string {
			if d > 8 || v == nil {
				return ""
			}
			if fld, x := fieldOf(v); fld != nil {
				root := x
				for {
					if u, ok := root.(*ssa.UnOp); ok {
						root = u.X
						continue
					}
					break
				}
				isR := root == ssa.Value(recv)
				if al, ok := root.(*ssa.Alloc); ok {
					for _, r := range *al.Referrers() {
						if s, ok := r.(*ssa.Store); ok && s.Addr == ssa.Value(al) && s.Val == ssa.Value(recv) {
							isR = true
						}
					}
				}
				if isR {
					if n, ok := deref(x.Type()).(*types.Named); ok && n.Obj() == qfT.Obj() && !content[fld.Name()] {
						return fld.Name()
					}
					return ""
				}
			}
			if in, ok := v.(ssa.Instruction); ok {
				if _, isPhi := v.(*ssa.Phi); isPhi && d > 3 {
					return ""
				}
				for _, op := range in.Operands(nil) {
					if *op != nil {
						if w := foreign(*op, d+1); w != "" {
							return w
						}
					}
				}
			}
			return ""
		}
		eachInstr(fn, func(in ssa.Instruction) {
			ret, ok := in.(*ssa.Return)
			if !ok || len(ret.Results) != 1 || !isRecv(unspillResult(ret, ret.Results[0])) {
				return
			}
			key := fname(fn) + "|returns its receiver"
			bad := ""
			for _, g := range dominatingGuards(ret.Block()) {
				if w := foreign(g.Cond, 0); w != "" {
					bad = w
				}
			}
			if bad != "" {
				c.bad(key, p.instrPos(ret), fmt.Sprintf("the receiver is returned unchanged under a test of its field %s, which is neither its error, its rows nor its columns: state remembered from earlier operations decides the result, and it outlives the operations that invalidate it", bad))
			} else {
				c.ok(key, p.instrPos(ret), "guarded by the receiver's error, rows, columns and the arguments only")
			}
		})
	}
}

// ---- R135: a slice filled by replicating its own prefix is filled to the end ----

func init() {
	register(&Rule{ID: "R135", Name: "SELF-COPY-FILL", Floor: 3,
		Text: "in the column packages, a slice allocated in the function that is filled by copying its own filled prefix further up (copy(data[k:], data[:m]) in a loop - block or doubling replication of a constant) is filled to its end: the loop continues exactly while the filled length k is less than the length of the slice (k < len(data), or < the allocation's length), because copy itself truncates the last, partial block. A condition that demands room for a whole block (k+m <= len, k <= len/2) leaves the tail at the zero value for every length that is not a multiple of the block / a power of two. Constructors without such a loop are listed as such (their fill loop is a plain range over the slice, see R72)",
		Run:  runR135})
}

func runR135(c *Ctx) {
	p := c.P
	n := 0
	for _, cp := range columnPkgs {
		for _, fn := range p.FuncsIn(cp) {
			loops := loopsOf(fn)
			hasMake := false
			eachInstr(fn, func(in ssa.Instruction) {
				if _, ok := in.(*ssa.MakeSlice); ok {
					hasMake = true
				}
			})
			if !hasMake {
				continue
			}
			selfCopies := 0
			eachInstr(fn, func(in ssa.Instruction) {
				call, ok := in.(*ssa.Call)
				if !ok || builtinName(call) != "copy" || len(call.Call.Args) != 2 {
					return
				}
				dst, src := call.Call.Args[0], call.Call.Args[1]
				var rootOf func(v ssa.Value, d int) ssa.Value
				rootOf = func(v ssa.Value, d int) ssa.Value {
					v = stripSliceOps(v)
					if ph, ok := v.(*ssa.Phi); ok && d < 4 {
						var r ssa.Value
						for _, e := range ph.Edges {
							er := rootOf(e, d+1)
							if r == nil {
								r = er
							} else if r != er {
								return v
							}
						}
						if r != nil {
							return r
						}
					}
					return v
				}
				dr, sr := rootOf(dst, 0), rootOf(src, 0)
				mk, isMk := dr.(*ssa.MakeSlice)
				if !isMk || dr != sr {
					return
				}
				selfCopies++
				n++
				key := fname(fn) + "|replicating fill"
				// the loop around the copy and the low bound of the destination
				var li *loopInfo
				for i := range loops {
					if inLoop(loops[i], call.Block()) {
						li = &loops[i]
					}
				}
				dsl, ok := dst.(*ssa.Slice)
				if li == nil || !ok || dsl.Low == nil {
					c.bad(key, p.instrPos(call), "a slice is filled by a copy from itself that is not a loop over a growing filled length")
					return
				}
				k := stripConvInt(dsl.Low)
				// header (or latch) condition: k < len(data) / k < <allocation length>
				okCond := false
				for _, b := range fn.Blocks {
					if !inLoop(*li, b) || len(b.Instrs) == 0 {
						continue
					}
					iff, ok := b.Instrs[len(b.Instrs)-1].(*ssa.If)
					if !ok {
						continue
					}
					exits := false
					for _, sc := range b.Succs {
						if !inLoop(*li, sc) {
							exits = true
						}
					}
					if !exits {
						continue
					}
					cmp, ok := iff.Cond.(*ssa.BinOp)
					if !ok || cmp.Op != token.LSS || stripConvInt(cmp.X) != k {
						continue
					}
					y := stripConvInt(cmp.Y)
					if lc, ok := y.(*ssa.Call); ok && builtinName(lc) == "len" && stripSliceOps(lc.Call.Args[0]) == ssa.Value(mk) {
						okCond = true
					}
					if y == stripConvInt(mk.Len) {
						okCond = true
					}
				}
				if okCond {
					c.ok(key, p.instrPos(call), "replication continues while the filled length is below the slice's length")
				} else {
					c.bad(key, p.instrPos(call), "the loop that replicates the filled prefix does not run `while filled < len(slice)`: with a condition that asks for room for a whole block (or half the slice) the tail keeps the zero value whenever the length is not a multiple of the block size / a power of two - a constant column is then wrong in its last rows only for such lengths")
				}
			})
			_ = selfCopies
		}
	}
	if n == 0 {
		c.okTrivial("column packages|no replicating fill", "-", "no slice is filled by copying its own prefix today; the constant constructors fill by a plain range over the slice")
		c.okTrivial("column packages|no replicating fill#b", "-", "-")
		c.okTrivial("column packages|no replicating fill#c", "-", "-")
	}
}

// ---- R136: the declared values of an enum are distinct ----

func init() {
	register(&Rule{ID: "R136", Name: "DECLARED-DISTINCT", Floor: 1,
		Text: "in internal/ecolumn, every loop that enters the elements of a []string parameter (the declared values of an enum) into a value map (map[string]enumVal) rejects a string that is already in the map: a comma-ok lookup of the same key whose hit edge returns an error dominates the insertion. Filters translate a constant by scanning the table for the first match while the factory's map holds the last index of a repeated value, so with a declared list such as {a, b, a} the cells carry code 2, `= a` looks for code 0 and `< b` finds nothing - silently",
		Run:  runR136})
}

func runR136(c *Ctx) {
	p := c.P
	ev := p.Named("internal/ecolumn", "enumVal")
	if ev == nil {
		c.undecided("internal/ecolumn.enumVal", "-", "type not found")
		return
	}
	n := 0
	for _, fn := range p.FuncsIn("internal/ecolumn") {
		loops := loopsOf(fn)
		eachInstr(fn, func(in ssa.Instruction) {
			mu, ok := in.(*ssa.MapUpdate)
			if !ok {
				return
			}
			mt, ok := mu.Map.Type().Underlying().(*types.Map)
			if !ok {
				return
			}
			if nn, ok := mt.Elem().(*types.Named); !ok || nn.Obj() != ev.Obj() {
				return
			}
			// key: element of a []string parameter at the key of a range over it (possibly through a copy made by append)
			var li *loopInfo
			for i := range loops {
				if inLoop(loops[i], mu.Block()) && loops[i].base != nil {
					li = &loops[i]
				}
			}
			if li == nil {
				return
			}
			fromParam := false
			var back func(v ssa.Value, d int)
			back = func(v ssa.Value, d int) {
				if d > 5 || fromParam {
					return
				}
				switch t := v.(type) {
				case *ssa.Parameter:
					if sl, ok := t.Type().Underlying().(*types.Slice); ok {
						if b, ok := sl.Elem().Underlying().(*types.Basic); ok && b.Kind() == types.String {
							fromParam = true
						}
					}
				case *ssa.Call:
					if builtinName(t) == "append" {
						for _, a := range t.Call.Args {
							back(a, d+1)
						}
					}
				case *ssa.Slice:
					back(t.X, d+1)
				case *ssa.Phi:
					for _, e := range t.Edges {
						back(e, d+1)
					}
				case *ssa.MakeSlice:
					// a copy made by make + copy(dst, param)
					for _, r := range *t.Referrers() {
						if cp, ok := r.(*ssa.Call); ok && builtinName(cp) == "copy" && cp.Call.Args[0] == ssa.Value(t) {
							back(cp.Call.Args[1], d+1)
						}
					}
				}
			}
			back(li.base, 0)
			if !fromParam {
				return
			}
			n++
			key := fname(fn) + "|declared value entered"
			guarded := false
			for _, g := range dominatingGuards(mu.Block()) {
				ex, ok := g.Cond.(*ssa.Extract)
				if !ok || ex.Index != 1 || g.Val {
					continue
				}
				lk, ok := ex.Tuple.(*ssa.Lookup)
				if ok && lk.CommaOk && (lk.X == mu.Map || accessPath(lk.X) == accessPath(mu.Map)) && (stripConv(lk.Index) == stripConv(mu.Key) || accessPath(lk.Index) == accessPath(mu.Key)) {
					guarded = true
				}
			}
			if guarded {
				c.ok(key, p.instrPos(mu), "a declared value that is already in the map is rejected")
			} else {
				c.bad(key, p.instrPos(mu), "the declared values are entered into the value map without a test that the value is new: a list naming a value twice gives that value two codes, the cells get the last one and the filters look for the first (`= a` and `< b` silently match nothing)")
			}
		})
	}
	// the same through the minting helper: inside a loop over the declared values a method is called with the
	// element, and that method (or one it calls) enters its string parameter into a value map
	entersParam := func(callee *ssa.Function) bool {
		found := false
		var scan func(f *ssa.Function, prm *ssa.Parameter, d int)
		scan = func(f *ssa.Function, prm *ssa.Parameter, d int) {
			if f == nil || f.Blocks == nil || d > 2 || found {
				return
			}
			eachInstr(f, func(in ssa.Instruction) {
				switch t := in.(type) {
				case *ssa.MapUpdate:
					if mt, ok := t.Map.Type().Underlying().(*types.Map); ok {
						if nn, ok := mt.Elem().(*types.Named); ok && nn.Obj() == ev.Obj() && stripConv(t.Key) == ssa.Value(prm) {
							found = true
						}
					}
				case *ssa.Call:
					if g := t.Call.StaticCallee(); g != nil && g.Pkg == f.Pkg && g != f {
						for i, a := range t.Call.Args {
							if stripConv(a) == ssa.Value(prm) && i < len(g.Params) {
								scan(g, g.Params[i], d+1)
							}
						}
					}
				}
			})
		}
		for _, prm := range callee.Params {
			if b, ok := prm.Type().Underlying().(*types.Basic); ok && b.Kind() == types.String {
				scan(callee, prm, 0)
			}
		}
		return found
	}
	for _, fn := range p.FuncsIn("internal/ecolumn") {
		loops := loopsOf(fn)
		eachInstr(fn, func(in ssa.Instruction) {
			call, ok := in.(*ssa.Call)
			if !ok || !isDeclaredRegistration(call) {
				return
			}
			callee := call.Call.StaticCallee()
			if callee == nil || !entersParam(callee) {
				return
			}
			_ = loops
			n++
			key := fname(fn) + "|declared value entered"
			guarded := false
			for _, g := range dominatingGuards(call.Block()) {
				ex, ok := g.Cond.(*ssa.Extract)
				if !ok || ex.Index != 1 || g.Val {
					continue
				}
				lk, ok := ex.Tuple.(*ssa.Lookup)
				if !ok || !lk.CommaOk {
					continue
				}
				if mt, ok := lk.X.Type().Underlying().(*types.Map); ok {
					if nn, ok := mt.Elem().(*types.Named); !ok || nn.Obj() != ev.Obj() {
						continue
					}
				}
				for _, a := range call.Call.Args {
					if stripConv(lk.Index) == stripConv(a) {
						guarded = true
					}
				}
			}
			if guarded {
				c.ok(key, p.instrPos(call), "a declared value that is already in the map is rejected before it is registered")
			} else {
				c.bad(key, p.instrPos(call), "the declared values are registered one by one without a test that the value is new: a list naming a value twice gives that value two codes, the cells get the last one and the filters look for the first")
			}
		})
	}
	if n == 0 {
		c.undecided("internal/ecolumn|declared values", "-", "no loop entering a []string parameter into a value map found")
	}
}

// r131NilRejectedByCallers: the return hands back a nil value (first result of interface type) with the nil error,
// and every caller looks at that value only through nil tests and comma-ok / switch type tests: the nil falls into
// the caller's own `unexpected type` branch, so the failure is still reported (with another text).
func r131NilRejectedByCallers(p *Prog, fn *ssa.Function, ret *ssa.Return) bool {
	if len(ret.Results) != 2 {
		return false
	}
	if _, ok := fn.Signature.Results().At(0).Type().Underlying().(*types.Interface); !ok {
		return false
	}
	cst, ok := unspillResult(ret, ret.Results[0]).(*ssa.Const)
	if !ok || !cst.IsNil() {
		return false
	}
	return r138CallersInspect(p, p.resolver(), fn, 0)
}
