package main

import (
	"fmt"
	"go/token"
	"go/types"
	"strings"

	"golang.org/x/tools/go/ssa"
)

// R79: every comparison kernel of the per-type filter tables computes, for one undecided row, exactly the
// bit the clause semantics state - in every world of (cell null?, other cell null?, relation of the payloads).

func init() {
	register(&Rule{ID: "R79", Name: "KERNEL-WORLDS", Floor: 120,
		Text: "each kernel bound to a comparison key (<, <=, >, >=, =, !=) or to isnull/isnotnull in a column package's filter tables is evaluated (E5) for one row that is still undecided, in every world of (cell null/NaN, argument cell null/NaN for column-column kernels, payload relation <, =, >): null predicates answer per side, a comparison of the two payloads answers by the world (IEEE semantics for floats; payloads of null cells are otherwise not comparable). The bit stored into the boolean index must be: false when a cell is null, except for != which is true; otherwise the truth of `cell OP argument`; isnull/isnotnull give the cell's nullness. This decides the complete boolean structure of the kernel (an `||` for an `&&`, a dropped null test), not only its comparison operator (R4)",
		Run:  runR79})
}

// kernelRoles: the cell sources of a filter kernel (in order; a scalar second source is the constant argument),
// its boolean index, and whether it compares two columns.
func kernelRoles(fn *ssa.Function) (src []*ssa.Parameter, bIdx *ssa.Parameter, colcol bool) {
	for _, prm := range fn.Params {
		switch {
		case isIntIndexType(prm.Type()):
		case isBoolIndex(prm.Type()):
			bIdx = prm
		default:
			src = append(src, prm)
		}
	}
	if len(src) == 2 {
		switch src[1].Type().Underlying().(type) {
		case *types.Slice, *types.Struct:
			colcol = types.Identical(src[0].Type(), src[1].Type())
		}
	}
	return
}

// kernelBit is what evalKernelWorld reports: the bit stored for the one undecided row in that world.
type kernelBit struct {
	returned bool // the evaluation reached the kernel's return
	nStores  int
	got      bool
	known    bool
	at       ssa.Instruction
	why      string
}

// nullProjection: g is a one-argument projection of a cell type with an isNull method that maps the null cell
// to a negative constant and every other cell to its own (unsigned) code: `if v == null { return -1 }; return
// int(v)`. Comparing two projected cells then orders null before everything else and equal to itself.
func nullProjection(g *ssa.Function) bool {
	if g == nil || g.Blocks == nil || len(g.Params) != 1 || g.Signature.Results().Len() != 1 {
		return false
	}
	prm := g.Params[0]
	bt, ok := prm.Type().Underlying().(*types.Basic)
	if !ok || bt.Info()&types.IsUnsigned == 0 || !hasNullMethod(prm.Type()) {
		return false
	}
	// the constant isNull compares with
	var nullConst *ssa.Const
	if n, ok := prm.Type().(*types.Named); ok {
		for i := 0; i < n.NumMethods(); i++ {
			if m := n.Method(i); m.Name() == "isNull" || m.Name() == "IsNull" || isNullPredFn(g.Prog.FuncValue(m)) {
				if mf := g.Prog.FuncValue(m); mf != nil && mf.Blocks != nil {
					eachInstr(mf, func(in ssa.Instruction) {
						if b, ok := in.(*ssa.BinOp); ok && b.Op == token.EQL {
							if k, ok := b.Y.(*ssa.Const); ok && b.X == ssa.Value(mf.Params[0]) {
								nullConst = k
							}
						}
					})
				}
			}
		}
	}
	if nullConst == nil {
		return false
	}
	okAll := true
	for _, isNull := range []bool{true, false} {
		pe := &pathExec{fn: g}
		decided := true
		pe.oracle = func(pe *pathExec, cond ssa.Value) (bool, bool) {
			return pe.evalBool(cond, func(x ssa.Value) (bool, bool) {
				if b, ok := x.(*ssa.BinOp); ok && (b.Op == token.EQL || b.Op == token.NEQ) && b.X == ssa.Value(prm) {
					if k, ok := b.Y.(*ssa.Const); ok && k.Value != nil && nullConst.Value != nil && k.Value.ExactString() == nullConst.Value.ExactString() {
						return isNull == (b.Op == token.EQL), true
					}
				}
				if call, ok := x.(*ssa.Call); ok && isNullPredicate(call) && len(call.Call.Args) == 1 && call.Call.Args[0] == ssa.Value(prm) {
					return isNull, true
				}
				decided = false
				return false, false
			})
		}
		end, _ := pe.run()
		ret, ok := end.(*ssa.Return)
		if !ok || !decided {
			return false
		}
		r := pe.resolve(ret.Results[0])
		if isNull {
			k, isK := constInt(r)
			if !isK || k >= 0 {
				okAll = false
			}
		} else {
			cv, isCv := r.(*ssa.Convert)
			if !isCv || cv.X != ssa.Value(prm) {
				okAll = false
			}
		}
	}
	return okAll
}

// projectionOf: v is the result of a static one-argument module function; returns that function.
func projectionOf(v ssa.Value) *ssa.Function {
	call, ok := v.(*ssa.Call)
	if !ok || len(call.Call.Args) != 1 {
		return nil
	}
	return call.Call.StaticCallee()
}

// evalKernelWorld evaluates kernel fn (E5) for one undecided row in the world (cell null, argument cell null,
// payload relation).
func evalKernelWorld(fn *ssa.Function, src []*ssa.Parameter, bIdx *ssa.Parameter, colcol bool, n1, n2 bool, rel string) kernelBit {
	sideOf := func(pe *pathExec, v ssa.Value) int {
		seen := map[ssa.Value]bool{}
		has := [3]bool{}
		var walk func(v ssa.Value, d int)
		walk = func(v ssa.Value, d int) {
			if v == nil || seen[v] || d > 14 {
				return
			}
			seen[v] = true
			switch t := v.(type) {
			case *ssa.Parameter:
				if t.Parent() == fn {
					for i, s := range src {
						if s == t {
							has[i+1] = true
						}
					}
					return
				}
				if bound, ok := pe.vals[t]; ok && bound != v {
					walk(bound, d+1)
				}
				return
			case *ssa.Alloc:
				for _, r := range *t.Referrers() {
					if st, ok := r.(*ssa.Store); ok && st.Addr == ssa.Value(t) {
						walk(st.Val, d+1)
					}
				}
				return
			case *ssa.Phi:
				if isIntegerType(t.Type()) && !hasNullMethod(t.Type()) {
					return
				}
			}
			if in, ok := v.(ssa.Instruction); ok {
				var ops []*ssa.Value
				for _, o := range in.Operands(ops) {
					if o != nil && *o != nil {
						walk(*o, d+1)
					}
				}
			}
		}
		walk(v, 0)
		switch {
		case has[1] && !has[2]:
			return 1
		case has[2] && !has[1]:
			return 2
		}
		return 0
	}

	var out kernelBit
	anyNull := n1 || n2
	pe := &pathExec{fn: fn}
	pe.lenOf = func(call *ssa.Call) (int64, bool) { return 1, true }
	why := ""
	var atom func(x ssa.Value) (bool, bool)
	atom = func(x ssa.Value) (bool, bool) {
		switch t := x.(type) {
		case *ssa.UnOp:
			// the row's current bit: undecided
			if t.Op == token.MUL {
				if ia, ok := t.X.(*ssa.IndexAddr); ok && rootValue(ia.X) == ssa.Value(bIdx) {
					return false, true
				}
			}
		case *ssa.Extract:
			if t.Index == 1 && isNullPredicate(t) {
				switch sideOf(pe, t.Tuple) {
				case 1:
					return n1, true
				case 2:
					return n2 && colcol, true
				}
			}
		case *ssa.Call:
			if isNullPredicate(t) && len(t.Call.Args) > 0 {
				switch sideOf(pe, t.Call.Args[0]) {
				case 1:
					return n1, true
				case 2:
					return n2 && colcol, true
				}
			}
		case *ssa.BinOp:
			if isIntegerType(t.X.Type()) && !hasNullMethod(t.X.Type()) && sideOf(pe, t.X) == 0 && sideOf(pe, t.Y) == 0 {
				if a, ok1 := pe.intOf(t.X, 0); ok1 {
					if b, ok2 := pe.intOf(t.Y, 0); ok2 {
						switch t.Op {
						case token.LSS:
							return a < b, true
						case token.LEQ:
							return a <= b, true
						case token.GTR:
							return a > b, true
						case token.GEQ:
							return a >= b, true
						case token.EQL:
							return a == b, true
						case token.NEQ:
							return a != b, true
						}
					}
				}
			}
			sx, sy := sideOf(pe, t.X), sideOf(pe, t.Y)
			if !(sx == 1 && sy == 2 || sx == 2 && sy == 1) {
				return false, false
			}
			if anyNull {
				if isFloatType(t.X.Type()) {
					return t.Op == token.NEQ, true // IEEE comparisons with NaN
				}
				// both sides projected by the same null-ordered projection (enum compVal): null sorts first
				if g := projectionOf(t.X); g != nil && g == projectionOf(t.Y) && nullProjection(g) {
					nx, ny := n1, n2
					if sx == 2 {
						nx, ny = n2, n1
					}
					pr := "="
					switch {
					case nx && !ny:
						pr = "<"
					case !nx && ny:
						pr = ">"
					}
					switch t.Op {
					case token.LSS:
						return pr == "<", true
					case token.GTR:
						return pr == ">", true
					case token.LEQ:
						return pr != ">", true
					case token.GEQ:
						return pr != "<", true
					case token.EQL:
						return pr == "=", true
					case token.NEQ:
						return pr != "=", true
					}
				}
				why = "the payload of a null cell takes part in the comparison"
				return false, false
			}
			r := rel
			if sx == 2 {
				r = map[string]string{"<": ">", ">": "<", "=": "="}[rel]
			}
			switch t.Op {
			case token.LSS:
				return r == "<", true
			case token.GTR:
				return r == ">", true
			case token.LEQ:
				return r != ">", true
			case token.GEQ:
				return r != "<", true
			case token.EQL:
				return r == "=", true
			case token.NEQ:
				return r != "=", true
			}
		}
		return false, false
	}
	pe.oracle = func(pe *pathExec, cond ssa.Value) (bool, bool) { return pe.evalBool(cond, atom) }
	pe.inline = func(callee *ssa.Function) bool {
		if callee.Pkg != fn.Pkg || callee.Name() == "isNull" || callee.Name() == "IsNull" || isNullPredFn(callee) || nullProjection(callee) {
			return false
		}
		if r := callee.Signature.Results(); r.Len() == 2 {
			if b, ok := r.At(1).Type().Underlying().(*types.Basic); ok && b.Kind() == types.Bool {
				return false
			}
		}
		return true
	}
	nStores := 0
	var got, known bool
	var at ssa.Instruction
	pe.onInstr = func(pe *pathExec, in ssa.Instruction) {
		st, ok := in.(*ssa.Store)
		if !ok {
			return
		}
		ia, ok := st.Addr.(*ssa.IndexAddr)
		if !ok || !isBoolIndex(ia.X.Type()) {
			return
		}
		nStores++
		got, known = pe.evalBool(st.Val, atom)
		at = in
	}
	end, whyNot := pe.run()
	switch end.(type) {
	case *ssa.Return:
	default:
		if why != "" {
			whyNot = why
		}
		out.why = whyNot
		return out
	}

	out.returned = true
	if why != "" && !known {
		out.why = why
	}
	out.nStores, out.got, out.known, out.at = nStores, got, known, at
	return out
}

func runR79(c *Ctx) {
	p := c.P
	for _, cp := range columnPkgs {
		ents := comparatorTables(p, cp)
		if len(ents) == 0 {
			c.undecided(cp+"|tables", "-", "no comparator table found in package init")
			continue
		}
		nullable := nullablePkg[cp]
		for _, e := range ents {
			op, isCmp := cmpOps[e.key]
			nullKey := e.key == "isnull" || e.key == "isnotnull"
			if e.key == "any_bits" || e.key == "all_bits" {
				r79Bits(c, p, cp, e)
				continue
			}
			if !isCmp && !nullKey {
				continue
			}
			fn := e.fn
			// parameter roles
			var src []*ssa.Parameter // cell sources, in order; a scalar second source is the constant argument
			var bIdx *ssa.Parameter
			for _, prm := range fn.Params {
				switch {
				case isIntIndexType(prm.Type()):
				case isBoolIndex(prm.Type()):
					bIdx = prm
				default:
					src = append(src, prm)
				}
			}
			base := cp + "." + e.table + "[" + e.key + "]"
			if bIdx == nil || len(src) == 0 || len(src) > 2 {
				c.undecided(base, p.pos(fn.Pos()), "unexpected kernel signature "+fn.Signature.String())
				continue
			}
			colcol := false
			if len(src) == 2 {
				switch src[1].Type().Underlying().(type) {
				case *types.Slice, *types.Struct:
					colcol = types.Identical(src[0].Type(), src[1].Type())
				}
			}
			rels := []string{"<", "=", ">"}
			for nv := 0; nv < 4; nv++ {
				n1, n2 := nv&1 != 0, nv&2 != 0
				if !nullable && (n1 || n2) || !colcol && n2 {
					continue
				}
				for _, rel := range rels {
					if (n1 || n2 || nullKey) && rel != "=" {
						continue
					}
					key := fmt.Sprintf("%s world null=%v", base, n1)
					if colcol {
						key += fmt.Sprintf(" argNull=%v", n2)
					}
					if !(n1 || n2 || nullKey) {
						key += " cell" + rel + "arg"
					}
					anyNull := n1 || n2
					kb := evalKernelWorld(fn, src, bIdx, colcol, n1, n2, rel)
					if !kb.returned {
						c.undecided(key, p.pos(fn.Pos()), "cannot evaluate "+fname(fn)+": "+kb.why)
						continue
					}
					nStores, got, known, at, why := kb.nStores, kb.got, kb.known, kb.at, kb.why
					var want bool
					switch {
					case e.key == "isnull":
						want = n1
					case e.key == "isnotnull":
						want = !n1
					case anyNull:
						want = op == token.NEQ
					default:
						switch op {
						case token.LSS:
							want = rel == "<"
						case token.GTR:
							want = rel == ">"
						case token.LEQ:
							want = rel != ">"
						case token.GEQ:
							want = rel != "<"
						case token.EQL:
							want = rel == "="
						case token.NEQ:
							want = rel != "="
						}
					}
					switch {
					case nStores == 0:
						// an undecided row keeps false: acceptable only if false is wanted
						if !want {
							c.ok(key, p.pos(fn.Pos()), fname(fn)+": the bit stays false")
						} else {
							c.bad(key, p.pos(fn.Pos()), fname(fn)+": no bit is stored for the row although the clause is true for it")
						}
					case !known:
						if why == "" {
							why = "the stored value is not decided by the world"
						}
						c.undecided(key, p.instrPos(at), "cannot evaluate "+fname(fn)+": "+why)
					case got == want:
						c.ok(key, p.instrPos(at), fmt.Sprintf("%s stores %v", fname(fn), got))
					default:
						c.bad(key, p.instrPos(at), fmt.Sprintf("%s stores %v, but the clause is %v for this row (%s)", fname(fn), got, want, strings.TrimSpace("null/NaN makes every comparison false except !=")))
					}
				}
			}
		}
	}
}

// operatorDecision: the block branches on the comparison operator itself (`comparator == filter.Neq`): what
// happens to the boolean index afterwards is a decision about that operator's truth value for all rows
// (an unknown constant on a non-strict enum equals no cell: != is true everywhere, everything else false).
func operatorDecision(b *ssa.BasicBlock) bool {
	iff, ok := b.Instrs[len(b.Instrs)-1].(*ssa.If)
	if !ok {
		return false
	}
	cond, _ := unNot(iff.Cond, true)
	bo, ok := cond.(*ssa.BinOp)
	if !ok || bo.Op != token.EQL && bo.Op != token.NEQ {
		return false
	}
	isStrParam := func(v ssa.Value) bool {
		pr, ok := v.(*ssa.Parameter)
		if !ok {
			return false
		}
		bt, ok := pr.Type().Underlying().(*types.Basic)
		return ok && bt.Kind() == types.String
	}
	_, cx := bo.X.(*ssa.Const)
	_, cy := bo.Y.(*ssa.Const)
	return isStrParam(bo.X) && cy || isStrParam(bo.Y) && cx
}

// r79Bits: the bit-mask kernels by definition: any_bits stores (cell & arg) > 0 (or != 0), all_bits stores (cell & arg) == arg.
func r79Bits(c *Ctx, p *Prog, cp string, e tableEntry) {
	key := cp + "." + e.table + "[" + e.key + "] definition"
	stores := boolStores(e.fn)
	if len(stores) != 1 {
		c.undecided(key, p.pos(e.fn.Pos()), fmt.Sprintf("%d stores into the boolean index; expected 1", len(stores)))
		return
	}
	var arg *ssa.Parameter
	for _, prm := range e.fn.Params {
		if isIntegerType(prm.Type()) {
			arg = prm
		}
	}
	cmp, ok := stores[0].Val.(*ssa.BinOp)
	if !ok || arg == nil {
		c.undecided(key, p.instrPos(stores[0]), "the stored bit is not a comparison / the mask argument was not found")
		return
	}
	and, ok := cmp.X.(*ssa.BinOp)
	if !ok || and.Op != token.AND || and.X != ssa.Value(arg) && and.Y != ssa.Value(arg) {
		c.bad(key, p.instrPos(cmp), "the stored bit does not compare `cell & mask`")
		return
	}
	k, isK := constInt(cmp.Y)
	switch e.key {
	case "any_bits":
		unsigned := false
		if bt, ok := and.Type().Underlying().(*types.Basic); ok && bt.Info()&types.IsUnsigned != 0 {
			unsigned = true
		}
		if isK && k == 0 && cmp.Op == token.GTR && !unsigned {
			c.bad(key, p.instrPos(cmp), "any_bits stores `cell & mask > 0` on a signed integer: when the shared bits include the sign bit the conjunction is negative and the row is dropped although cell and mask have bits in common (-1 any_bits -1 is false); `!= 0` is the definition")
		} else if isK && k == 0 && (cmp.Op == token.GTR || cmp.Op == token.NEQ) {
			c.ok(key, p.instrPos(cmp), "cell & mask != 0")
		} else {
			c.bad(key, p.instrPos(cmp), fmt.Sprintf("any_bits stores `cell & mask %s %s`; a cell sharing only the lowest bit with the mask (cell & mask = 1) must be selected", cmp.Op, describe(cmp.Y)))
		}
	case "all_bits":
		if cmp.Op == token.EQL && cmp.Y == ssa.Value(arg) {
			c.ok(key, p.instrPos(cmp), "cell & mask == mask")
		} else {
			c.bad(key, p.instrPos(cmp), fmt.Sprintf("all_bits stores `cell & mask %s %s`, not `== mask`", cmp.Op, describe(cmp.Y)))
		}
	}
}

// ---- R80: a filter dispatcher never reports success without a kernel having seen the boolean index ----

func init() {
	register(&Rule{ID: "R80", Name: "FILTER-DISPATCH", Floor: 10,
		Text: "in the column packages, every function that receives the boolean row index (index.Bool) and returns an error is explored path by path (acyclic paths, phis resolved by the edge taken): on every path whose returned error is nil or the forwarded result of a call, the boolean index was handed to a callee or written directly, or the path branches on the comparison operator itself (an operator-specific all-rows decision such as `!= unknown constant`). A case of the comparator type switch that does nothing (a dropped kernel call), or a default case that forgets to produce its error, would accept the filter and select no row",
		Run:  runR80})
}

func runR80(c *Ctx) {
	p := c.P
	for _, cp := range columnPkgs {
		for _, fn := range p.FuncsIn(cp) {
			if fn.Parent() != nil || fn.Blocks == nil {
				continue
			}
			var bIdx *ssa.Parameter
			for _, prm := range fn.Params {
				if isBoolIndex(prm.Type()) {
					bIdx = prm
				}
			}
			ei := errResultIndex(fn.Signature)
			if bIdx == nil || ei < 0 {
				continue
			}
			fnm := fname(fn)
			touches := func(b *ssa.BasicBlock) bool {
				for _, in := range b.Instrs {
					switch t := in.(type) {
					case ssa.CallInstruction:
						for _, a := range t.Common().Args {
							if fieldPathRootIsParam(a, bIdx) {
								return true
							}
						}
					case *ssa.Store:
						if ia, ok := t.Addr.(*ssa.IndexAddr); ok && fieldPathRootIsParam(ia.X, bIdx) {
							return true
						}
					}
				}
				return false
			}
			nPaths, nSuccess, bad := successPathsWithoutAction(p, fn, ei, func(b *ssa.BasicBlock) bool { return touches(b) || operatorDecision(b) })
			key := fnm + "|success implies a kernel ran"
			switch {
			case nPaths > 20000:
				c.undecided(key, p.pos(fn.Pos()), "too many paths to enumerate")
			case bad != "":
				c.bad(key, bad, "a path returns without an error although the boolean index was neither handed to a kernel nor written: the filter is accepted and selects nothing (dropped kernel call, or an error that is no longer produced)")
			case nSuccess == 0:
				c.okTrivial(key, p.pos(fn.Pos()), "no path can return success")
			default:
				c.ok(key, p.pos(fn.Pos()), fmt.Sprintf("%d acyclic paths, %d can report success, each passes the boolean index on", nPaths, nSuccess))
			}
		}
	}
}

// successPathsWithoutAction enumerates the acyclic paths of fn; for each path whose returned error (result ei,
// phis resolved by the edge taken) is nil or a forwarded call result, it requires a block satisfying acts.
// Returns the number of paths, of success-capable paths, and the position of an offending return ("" if none).
func successPathsWithoutAction(p *Prog, fn *ssa.Function, ei int, acts func(b *ssa.BasicBlock) bool) (int, int, string) {
	nPaths, nSuccess := 0, 0
	bad := ""
	var path []*ssa.BasicBlock
	onPath := map[*ssa.BasicBlock]bool{}
	var dfs func(b *ssa.BasicBlock)
	dfs = func(b *ssa.BasicBlock) {
		if bad != "" || nPaths > 20000 || onPath[b] {
			return
		}
		onPath[b] = true
		path = append(path, b)
		defer func() { onPath[b] = false; path = path[:len(path)-1] }()
		if ret, ok := b.Instrs[len(b.Instrs)-1].(*ssa.Return); ok {
			nPaths++
			v := ret.Results[ei]
			for i := 0; i < 10; i++ {
				phi, ok := v.(*ssa.Phi)
				if !ok {
					break
				}
				var pred *ssa.BasicBlock
				for k := len(path) - 1; k > 0; k-- {
					if path[k] == phi.Block() {
						pred = path[k-1]
						break
					}
				}
				if pred == nil {
					break
				}
				for k, pb := range phi.Block().Preds {
					if pb == pred {
						v = phi.Edges[k]
					}
				}
			}
			success := false
			switch t := v.(type) {
			case *ssa.Const:
				success = t.IsNil()
			case *ssa.Call:
				if o := calleeObj(t); o == nil || o.Pkg() == nil || o.Pkg().Path() != rel("qerrors") {
					success = !alwaysError(t.Call.StaticCallee(), 0)
				}
			case *ssa.Extract:
				success = true
			}
			// `if err := check(..); err != nil { return err }`: the forwarded result is known not to be nil here
			if success && testedNonNil(v, b) {
				success = false
			}
			if !success {
				return
			}
			nSuccess++
			for _, pb := range path {
				if acts(pb) {
					return
				}
			}
			bad = p.instrPos(ret)
			return
		}
		for _, s := range b.Succs {
			dfs(s)
		}
	}
	dfs(fn.Blocks[0])
	return nPaths, nSuccess, bad
}

// r99DependsOnTableSize: v is computed (through arithmetic, conversions, phis and calls of module functions) from
// the length or capacity of a slice held in a struct field - the table's entries; returns a description, "" if not.
func r99DependsOnTableSize(v ssa.Value, depth int, seen map[ssa.Value]bool) string {
	if v == nil || depth > 8 || seen[v] {
		return ""
	}
	seen[v] = true
	switch t := v.(type) {
	case *ssa.Call:
		if bn := builtinName(t); bn == "len" || bn == "cap" {
			if fld, _ := fieldOf(t.Call.Args[0]); fld != nil {
				if _, isSlice := fld.Type().Underlying().(*types.Slice); isSlice {
					return bn + " of field " + fld.Name()
				}
			}
			return ""
		}
		callee := t.Call.StaticCallee()
		if callee == nil || callee.Blocks == nil || callee.Pkg == nil || !inModule(callee.Pkg.Pkg) {
			for _, a := range t.Call.Args {
				if d := r99DependsOnTableSize(a, depth+1, seen); d != "" {
					return d
				}
			}
			return ""
		}
		dep := ""
		eachInstr(callee, func(in ssa.Instruction) {
			if r, ok := in.(*ssa.Return); ok && dep == "" {
				for _, x := range r.Results {
					if d := r99DependsOnTableSize(x, depth+1, seen); d != "" {
						dep = d
					}
				}
			}
		})
		return dep
	case *ssa.BinOp:
		if d := r99DependsOnTableSize(t.X, depth+1, seen); d != "" {
			return d
		}
		return r99DependsOnTableSize(t.Y, depth+1, seen)
	case *ssa.UnOp:
		if t.Op == token.MUL {
			return ""
		}
		return r99DependsOnTableSize(t.X, depth+1, seen)
	case *ssa.Convert:
		return r99DependsOnTableSize(t.X, depth+1, seen)
	case *ssa.ChangeType:
		return r99DependsOnTableSize(t.X, depth+1, seen)
	case *ssa.Phi:
		for _, e := range t.Edges {
			if d := r99DependsOnTableSize(e, depth+1, seen); d != "" {
				return d
			}
		}
	case *ssa.Extract:
		return r99DependsOnTableSize(t.Tuple, depth+1, seen)
	}
	return ""
}

// ---- R81: no call through a function variable that may still be nil ----

func init() {
	register(&Rule{ID: "R81", Name: "NIL-FUNC-CALL", Floor: 20,
		Text: "for every call through a function-typed value in the module (dispatch on user callbacks and table entries: `var fn func(..); switch t := x.(type) { case string: fn, ok = table[t] ...; case func(..): fn = t; default: return err }; fn(..)`) no definition that reaches the call is the nil constant, unless a dominating guard tests the value against nil: a case that forgets its assignment calls a nil function and panics instead of reporting an error",
		Run:  runR81})
}

func runR81(c *Ctx) {
	p := c.P
	for _, fn := range p.Funcs {
		fnm := fname(fn)
		eachInstr(fn, func(in ssa.Instruction) {
			ci, ok := in.(ssa.CallInstruction)
			if !ok {
				return
			}
			cc := ci.Common()
			if cc.IsInvoke() || cc.StaticCallee() != nil || builtinName(ci) != "" {
				return
			}
			if _, ok := cc.Value.Type().Underlying().(*types.Signature); !ok {
				return
			}
			key := fnm + "|call through " + describe(cc.Value)
			nilEdge := false
			seen := map[ssa.Value]bool{}
			var walk func(v ssa.Value)
			walk = func(v ssa.Value) {
				if seen[v] {
					return
				}
				seen[v] = true
				switch t := v.(type) {
				case *ssa.Const:
					if t.IsNil() {
						nilEdge = true
					}
				case *ssa.Phi:
					for _, e := range t.Edges {
						walk(e)
					}
				case *ssa.UnOp:
					if t.Op == token.MUL {
						if al, ok := t.X.(*ssa.Alloc); ok {
							n := 0
							for _, r := range *al.Referrers() {
								if st, ok := r.(*ssa.Store); ok && st.Addr == ssa.Value(al) {
									n++
									walk(st.Val)
								}
							}
							_ = n
						}
					}
				}
			}
			walk(cc.Value)
			if !nilEdge {
				c.okTrivial(key, p.instrPos(in), "no nil definition reaches the call")
				return
			}
			for _, g := range dominatingGuards(in.Block()) {
				if b, ok := g.Cond.(*ssa.BinOp); ok && (b.Op == token.NEQ && g.Val || b.Op == token.EQL && !g.Val) {
					if cst, ok := b.Y.(*ssa.Const); ok && cst.IsNil() && b.X == cc.Value {
						c.ok(key, p.instrPos(in), "a nil definition exists but the call is guarded by a nil test")
						return
					}
				}
			}
			c.bad(key, p.instrPos(in), "one of the definitions reaching this call is nil (a dispatch case that does not assign the function): the call panics with a nil function instead of returning an error")
		})
	}
}

// ---- R82: string cells address exactly the bytes appended for them ----

func init() {
	register(&Rule{ID: "R82", Name: "BLOB-LAYOUT", Floor: 4,
		Text: "in internal/scolumn, for every strings.NewPointer(offset, length, isNull) inside a loop that also grows the byte blob (New, NewStrings, subset, the built-in ToUpper): (i) the loop appends to the blob, (ii) `length` is the length of exactly the bytes appended for that cell (len of the same value, or the width of the same re-slice), and (iii) `offset` is the blob's length before that append - written as len(blob) or as an accumulator that is advanced by that same length in the block that appends. A cell whose recorded length differs from the bytes written (upper-casing can change the byte length of a string) shifts every later cell",
		Run:  runR82})
}

func stripBytesConv(v ssa.Value) ssa.Value {
	for {
		switch t := v.(type) {
		case *ssa.Convert:
			v = t.X
		case *ssa.ChangeType:
			v = t.X
		default:
			return v
		}
	}
}

// sameVal: the two values denote the same thing: identical, loads of the same cell, len of the same value,
// or calls of the same parameterless accessor on the same receiver.
// sameModuloParams: a (a value of a helper) denotes b (a value of its caller) when the helper's parameters are
// replaced by the call's arguments.
func sameModuloParams(a, b ssa.Value, bind map[*ssa.Parameter]ssa.Value, d int) bool {
	if d > 6 {
		return false
	}
	if pr, ok := a.(*ssa.Parameter); ok {
		if v, ok := bind[pr]; ok {
			return sameValue2(v, b, d)
		}
	}
	switch x := a.(type) {
	case *ssa.Call:
		y, ok := b.(*ssa.Call)
		if !ok || len(x.Call.Args) != len(y.Call.Args) || builtinName(x) != builtinName(y) {
			return false
		}
		if builtinName(x) == "" {
			cx, cy := x.Call.StaticCallee(), y.Call.StaticCallee()
			if cx == nil || cx != cy || len(x.Call.Args) != 1 {
				return false
			}
		} else if builtinName(x) != "len" {
			return false
		}
		for i := range x.Call.Args {
			if !sameModuloParams(x.Call.Args[i], y.Call.Args[i], bind, d+1) {
				return false
			}
		}
		return true
	case *ssa.Convert:
		if y, ok := b.(*ssa.Convert); ok {
			return sameModuloParams(x.X, y.X, bind, d+1)
		}
	}
	return sameValue2(a, b, d)
}

func sameValue2(a, b ssa.Value, d int) bool {
	a, b = stripBytesConv(a), stripBytesConv(b)
	if a == b {
		return true
	}
	if d > 6 {
		return false
	}
	switch x := a.(type) {
	case *ssa.UnOp:
		if y, ok := b.(*ssa.UnOp); ok && x.Op == y.Op {
			return sameValue2(x.X, y.X, d+1)
		}
	case *ssa.Call:
		y, ok := b.(*ssa.Call)
		if !ok || len(x.Call.Args) != len(y.Call.Args) {
			return false
		}
		if bn := builtinName(x); bn != "" {
			if bn != builtinName(y) || bn != "len" {
				return false
			}
		} else {
			cx, cy := x.Call.StaticCallee(), y.Call.StaticCallee()
			if cx == nil || cx != cy || len(x.Call.Args) != 1 {
				return false
			}
		}
		for i := range x.Call.Args {
			if !sameValue2(x.Call.Args[i], y.Call.Args[i], d+1) {
				return false
			}
		}
		return true
	case *ssa.FieldAddr:
		if y, ok := b.(*ssa.FieldAddr); ok && x.Field == y.Field {
			return sameValue2(x.X, y.X, d+1)
		}
	case *ssa.IndexAddr:
		if y, ok := b.(*ssa.IndexAddr); ok {
			return sameValue2(x.X, y.X, d+1) && sameValue2(x.Index, y.Index, d+1)
		}
	}
	return false
}

// sameIndexExpr: the same SSA value, or the same `x op k` over the same x and constant k.
func sameIndexExpr(a, b ssa.Value) bool {
	a, b = stripConv(a), stripConv(b)
	if a == b {
		return true
	}
	ba, ok1 := a.(*ssa.BinOp)
	bb, ok2 := b.(*ssa.BinOp)
	if !ok1 || !ok2 || ba.Op != bb.Op {
		return false
	}
	ka, okA := constInt(ba.Y)
	kb, okB := constInt(bb.Y)
	return okA && okB && ka == kb && sameIndexExpr(ba.X, bb.X)
}

func runR82(c *Ctx) {
	p := c.P
	for _, fn := range p.FuncsIn("internal/scolumn") {
		loops := loopsOf(fn)
		if len(loops) == 0 {
			continue
		}
		fnm := fname(fn)
		// (iv) in a loop that mints cells, every cell stored into the pointer slice under construction is minted
		// in that iteration: a cell copied from another element of the same slice carries that row's bytes
		// and that row's null flag
		for i := range loops {
			li := loops[i]
			mints := false
			eachInstr(fn, func(in ssa.Instruction) {
				if call, ok := in.(*ssa.Call); ok && inLoop(li, call.Block()) && isFuncNamed(calleeObj(call), rel("internal/strings"), "", "NewPointer") {
					mints = true
				}
				// a loop that grows a byte blob and stores cells builds a column as well, whatever it mints them with
				if call, ok := in.(*ssa.Call); ok && inLoop(li, call.Block()) && builtinName(call) == "append" {
					if sl, ok := call.Type().Underlying().(*types.Slice); ok {
						if b, ok := sl.Elem().Underlying().(*types.Basic); ok && b.Kind() == types.Byte {
							mints = true
						}
					}
				}
			})
			if !mints {
				continue
			}
			eachInstr(fn, func(in ssa.Instruction) {
				st, ok := in.(*ssa.Store)
				if !ok || !inLoop(li, st.Block()) {
					return
				}
				ia, ok := st.Addr.(*ssa.IndexAddr)
				if !ok {
					return
				}
				sl, ok := ia.X.Type().Underlying().(*types.Slice)
				if !ok || !isNamed(sl.Elem(), rel("internal/strings"), "Pointer") {
					return
				}
				key := fnm + "|cell source"
				var bad string
				seen := map[ssa.Value]bool{}
				var chk func(v ssa.Value)
				chk = func(v ssa.Value) {
					if seen[v] || bad != "" {
						return
					}
					seen[v] = true
					switch t := v.(type) {
					case *ssa.Call:
						if !isFuncNamed(calleeObj(t), rel("internal/strings"), "", "NewPointer") {
							// a wrapper all of whose returns are NewPointer calls mints a cell as well; anything else
							// (pointer arithmetic on an existing cell) may lose the length or the null bit
							wrapper := false
							if g := t.Call.StaticCallee(); g != nil && g.Blocks != nil {
								wrapper = true
								n := 0
								eachInstr(g, func(i2 ssa.Instruction) {
									if r, ok := i2.(*ssa.Return); ok {
										n++
										rc, isCall := r.Results[0].(*ssa.Call)
										if len(r.Results) != 1 || !isCall || !isFuncNamed(calleeObj(rc), rel("internal/strings"), "", "NewPointer") {
											wrapper = false
										}
									}
								})
								if n == 0 {
									wrapper = false
								}
							}
							if !wrapper {
								bad = "the result of " + describe(t) + ", which is not strings.NewPointer(offset, length, isNull)"
							}
						} else if !inLoop(li, t.Block()) {
							// a cell minted once before the loop and shared by every row (constant columns) is fine
						}
					case *ssa.Phi:
						for _, e := range t.Edges {
							chk(e)
						}
					case *ssa.UnOp:
						if la, ok := t.X.(*ssa.IndexAddr); ok && t.Op == token.MUL && accessPath(la.X) == accessPath(ia.X) {
							// fine when the two rows are known to hold the same source value: a dominating test
							// src[i] == src[j] for the very j copied from (run-length sharing done right)
							justified := false
							for _, g := range dominatingGuards(st.Block()) {
								cmp, ok := g.Cond.(*ssa.BinOp)
								if !ok || !(cmp.Op == token.EQL && g.Val || cmp.Op == token.NEQ && !g.Val) {
									continue
								}
								idxOf := func(v ssa.Value) ssa.Value {
									if l, ok := v.(*ssa.UnOp); ok && l.Op == token.MUL {
										if sa, ok := l.X.(*ssa.IndexAddr); ok {
											return sa.Index
										}
									}
									return nil
								}
								ix, iy := idxOf(cmp.X), idxOf(cmp.Y)
								if ix == nil || iy == nil {
									continue
								}
								if sameIndexExpr(ix, ia.Index) && sameIndexExpr(iy, la.Index) || sameIndexExpr(iy, ia.Index) && sameIndexExpr(ix, la.Index) {
									justified = true
								}
							}
							if !justified {
								bad = "a copy of another element of the same slice (" + describe(la.Index) + ")"
							}
						}
					}
				}
				chk(st.Val)
				if bad != "" {
					c.bad(key, p.instrPos(st), "a cell of the column under construction is "+bad+" instead of being minted for this row: the row then shows the bytes and the null flag of the row it was copied from")
				} else {
					c.okTrivial(key, p.instrPos(st), "minted for this row")
				}
			})
		}
		eachInstr(fn, func(in ssa.Instruction) {
			call, ok := in.(*ssa.Call)
			if !ok || !isFuncNamed(calleeObj(call), rel("internal/strings"), "", "NewPointer") || len(call.Call.Args) != 3 {
				return
			}
			var li *loopInfo
			for i := range loops {
				if inLoop(loops[i], call.Block()) && (li == nil || li.header.Dominates(loops[i].header)) {
					li = &loops[i]
				}
			}
			if li == nil {
				return
			}
			offArg, lenArg, flag := call.Call.Args[0], call.Call.Args[1], call.Call.Args[2]
			key := fnm + "|cell layout"
			pos := p.instrPos(call)
			if k, isK := constInt(lenArg); isK && k == 0 && isConstBool(flag, true) {
				c.okTrivial(key, pos, "null cell: zero length")
				return
			}
			// byte appends in the loop
			var appends []*ssa.Call
			eachInstr(fn, func(i2 ssa.Instruction) {
				ac, ok := i2.(*ssa.Call)
				if !ok || builtinName(ac) != "append" || len(ac.Call.Args) != 2 || !inLoop(*li, ac.Block()) {
					return
				}
				if sl, ok := ac.Type().Underlying().(*types.Slice); ok {
					if b, ok := sl.Elem().Underlying().(*types.Basic); ok && b.Kind() == types.Byte {
						appends = append(appends, ac)
					}
				}
			})
			if len(appends) == 0 {
				if _, isK := constInt(offArg); isK && !inLoop(*li, valueBlock(lenArg)) {
					c.okTrivial(key, pos, "every row shares one cell built before the loop (constant offset, loop-invariant length)")
					return
				}
				c.bad(key, pos, "the loop records a non-null cell but never appends its bytes to the blob")
				return
			}
			// (ii) length matches the appended bytes
			var matched *ssa.Call
			for _, ac := range appends {
				src := stripBytesConv(ac.Call.Args[1])
				okLen := false
				if lc, ok := stripConvInt(lenArg).(*ssa.Call); ok && builtinName(lc) == "len" && sameValue2(lc.Call.Args[0], src, 0) {
					okLen = true
				}
				if sl, ok := src.(*ssa.Slice); ok && sl.High != nil && sl.Low != nil {
					if add, ok := sl.High.(*ssa.BinOp); ok && add.Op == token.ADD {
						if sameValue2(add.X, sl.Low, 0) && sameValue2(add.Y, lenArg, 0) || sameValue2(add.Y, sl.Low, 0) && sameValue2(add.X, lenArg, 0) {
							okLen = true
						}
					}
				}
				// the bytes come from a helper that slices the blob (`c.pointerBytes(p)` = data[off : off+p.Len()]):
				// its length expression, with the helper's parameters replaced by this call's arguments
				if hc, ok := src.(*ssa.Call); ok && !okLen {
					if h := hc.Call.StaticCallee(); h != nil && h.Blocks != nil && h.Pkg == fn.Pkg && len(hc.Call.Args) == len(h.Params) {
						bind := map[*ssa.Parameter]ssa.Value{}
						for i, prm := range h.Params {
							bind[prm] = hc.Call.Args[i]
						}
						nRet := 0
						eachInstr(h, func(i2 ssa.Instruction) {
							r, ok := i2.(*ssa.Return)
							if !ok || len(r.Results) != 1 {
								return
							}
							nRet++
							if sl, ok := r.Results[0].(*ssa.Slice); ok && sl.High != nil && sl.Low != nil {
								if add, ok := sl.High.(*ssa.BinOp); ok && add.Op == token.ADD {
									if sameValue2(add.X, sl.Low, 0) && sameModuloParams(add.Y, lenArg, bind, 0) || sameValue2(add.Y, sl.Low, 0) && sameModuloParams(add.X, lenArg, bind, 0) {
										okLen = true
									}
								}
							}
						})
						if nRet != 1 {
							okLen = false
						}
					}
				}
				if okLen {
					matched = ac
				}
			}
			if matched == nil {
				c.bad(key, pos, fmt.Sprintf("the recorded length (%s) is not the length of the bytes appended for the cell (%s): when the two differ every later cell of the column is shifted", describe(lenArg), describe(appends[0].Call.Args[1])))
				return
			}
			// (iii) offset
			okOff := false
			if lc, ok := stripConvInt(offArg).(*ssa.Call); ok && builtinName(lc) == "len" {
				// len(blob) where blob is the accumulator the append result flows into
				if phi, ok := lc.Call.Args[0].(*ssa.Phi); ok {
					for _, e := range phi.Edges {
						if e == ssa.Value(matched) {
							okOff = true
						}
						if ph2, ok := e.(*ssa.Phi); ok {
							for _, e2 := range ph2.Edges {
								if e2 == ssa.Value(matched) {
									okOff = true
								}
							}
						}
					}
				}
				if sameValue2(lc.Call.Args[0], matched.Call.Args[0], 0) && matched.Block() != call.Block() || sameValue2(lc.Call.Args[0], matched.Call.Args[0], 0) {
					okOff = true
				}
			}
			if phi, ok := offArg.(*ssa.Phi); ok {
				var walk func(v ssa.Value, d int)
				walk = func(v ssa.Value, d int) {
					if d > 4 {
						return
					}
					switch t := v.(type) {
					case *ssa.Phi:
						if t != phi {
							for _, e := range t.Edges {
								walk(e, d+1)
							}
						}
					case *ssa.BinOp:
						if t.Op == token.ADD && inLoop(*li, t.Block()) && t.Block() == matched.Block() {
							if t.X == ssa.Value(phi) && sameValue2(t.Y, lenArg, 0) || t.Y == ssa.Value(phi) && sameValue2(t.X, lenArg, 0) {
								okOff = true
							}
						}
					}
				}
				for _, e := range phi.Edges {
					walk(e, 0)
				}
				// the accumulator and the blob start in step: initial offset = initial blob length
				if okOff {
					offInit, okO := int64(0), false
					for i, e := range phi.Edges {
						if !inLoop(*li, phi.Block().Preds[i]) {
							offInit, okO = constInt(e)
						}
					}
					blobInit, okB := int64(0), false
					if bphi, ok := matched.Call.Args[0].(*ssa.Phi); ok {
						for i, e := range bphi.Edges {
							if !inLoop(*li, bphi.Block().Preds[i]) {
								if mk, ok := e.(*ssa.MakeSlice); ok {
									blobInit, okB = constInt(mk.Len)
								}
								if cst, ok := e.(*ssa.Const); ok && cst.IsNil() {
									blobInit, okB = 0, true
								}
							}
						}
					}
					if okO && okB && offInit != blobInit {
						c.bad(key, pos, fmt.Sprintf("the offset accumulator starts at %d but the blob starts with %d byte(s): every cell addresses bytes shifted by the difference", offInit, blobInit))
						return
					}
					if !okO || !okB {
						c.undecided(key, pos, "cannot relate the initial offset to the initial length of the blob")
						return
					}
				}
			}
			if okOff {
				c.ok(key, pos, "length = bytes appended for the cell; offset = blob length before the append")
			} else {
				c.bad(key, pos, fmt.Sprintf("the recorded offset (%s) is neither len(blob) before the append nor an accumulator advanced by the cell's length in the appending block", describe(offArg)))
			}
		})
	}
}

// valueBlock: the block defining v (nil for parameters and constants, which are loop invariant).
func valueBlock(v ssa.Value) *ssa.BasicBlock {
	if in, ok := v.(ssa.Instruction); ok {
		return in.Block()
	}
	return nil
}

// ---- R83: ToSQL executes its statement once per row ----

func init() {
	register(&Rule{ID: "R83", Name: "SQL-EXEC-EVERY-ROW", Floor: 2,
		Text: "in QFrame.ToSQL the loop over the frame's row index executes the INSERT on every iteration: a call of database/sql (Tx or Stmt) Exec/ExecContext lies in the loop, dominates every back edge of the loop, receives the argument slice filled in that iteration, and its error is tested (R31); the statement text comes from the module's Insert builder",
		Run:  runR83})
}

func runR83(c *Ctx) {
	p := c.P
	fn := p.Func("", "QFrame.ToSQL")
	if fn == nil {
		c.undecided("QFrame.ToSQL", "-", "method not found")
		return
	}
	fnm := fname(fn)
	var rowLoop *loopInfo
	loops := loopsOf(fn)
	for i := range loops {
		li := &loops[i]
		if li.base != nil && isIntIndexType(li.base.Type()) && fieldPathRootIsParam(li.base, fn.Params[0]) {
			rowLoop = li
		}
	}
	if rowLoop == nil {
		c.undecided(fnm+"|row loop", p.pos(fn.Pos()), "no loop over the receiver's row index found")
		return
	}
	var exec *ssa.Call
	eachInstr(fn, func(in ssa.Instruction) {
		call, ok := in.(*ssa.Call)
		if !ok || !inLoop(*rowLoop, call.Block()) {
			return
		}
		if o := calleeObj(call); o != nil && o.Pkg() != nil && o.Pkg().Path() == "database/sql" && strings.HasPrefix(o.Name(), "Exec") {
			exec = call
		}
	})
	if exec == nil {
		c.bad(fnm+"|exec per row", p.pos(fn.Pos()), "the loop over the rows contains no database/sql Exec call: rows are not written")
		return
	}
	every := true
	for _, pred := range rowLoop.header.Preds {
		if rowLoop.header.Dominates(pred) && !(exec.Block() == pred || exec.Block().Dominates(pred)) {
			every = false
		}
	}
	if every {
		c.ok(fnm+"|exec per row", p.instrPos(exec), "Exec dominates every back edge of the row loop")
	} else {
		c.bad(fnm+"|exec per row", p.instrPos(exec), "an iteration of the row loop can reach the next one without executing the INSERT")
	}
	// statement text from the Insert builder
	fromInsert := false
	for _, a := range exec.Call.Args {
		if ac, ok := a.(*ssa.Call); ok {
			if callee := ac.Call.StaticCallee(); callee != nil && callee.Pkg != nil && inModule(callee.Pkg.Pkg) && callee.Name() == "Insert" {
				fromInsert = true
			}
		}
	}
	if fromInsert {
		c.ok(fnm+"|statement text", p.instrPos(exec), "the statement is built by the module's Insert builder")
	} else {
		c.bad(fnm+"|statement text", p.instrPos(exec), "the executed statement is not the result of the module's Insert builder")
	}
}

// ---- R84: the value of a comma-ok lookup or assertion is used only where ok holds ----

func init() {
	register(&Rule{ID: "R84", Name: "OK-THEN-USE", Floor: 60,
		Text: "for every comma-ok map lookup and comma-ok type assertion in the module whose ok result is branched on: every use of the value result lies on the ok==true side of that branch (edge dominance), or merges through a phi whose other inputs do. A negated or dropped test (`if ok { return error }`) hands the zero value (a nil column, an empty name entry) to the code that follows: a panic or a silently wrong result instead of the `unknown column` / `wrong type` error; (c) a lookup / assertion whose value is used although its ok result is never looked at at all (the remains of `if !ok { return error }` with the body gone) is the same defect; (d) in a function that reports errors, the branch entered directly when ok is false does not return a nil error together with nothing but zero values (`return IntView{}, nil`, `return nil` from a decoder): a missing key or a foreign type is then reported as success - a failure branch that returns a value instead (the string column when the name is not configured as an enum) is an alternative, not a failure, and is left alone. Every one of the module's failure branches of this shape returns an error today",
		Run:  runR84})
}

func runR84(c *Ctx) {
	p := c.P
	for _, fn := range p.Funcs {
		fnm := fname(fn)
		eachInstr(fn, func(in ssa.Instruction) {
			var tuple ssa.Value
			what := ""
			switch t := in.(type) {
			case *ssa.Lookup:
				if t.CommaOk {
					tuple, what = t, "lookup"
				}
			case *ssa.TypeAssert:
				if t.CommaOk {
					tuple, what = t, "assertion to "+types.TypeString(t.AssertedType, shortQual)
				}
			}
			if tuple == nil {
				return
			}
			var val, okv *ssa.Extract
			for _, r := range *tuple.Referrers() {
				if ex, ok := r.(*ssa.Extract); ok {
					if ex.Index == 0 {
						val = ex
					} else {
						okv = ex
					}
				}
			}
			if val == nil || okv == nil {
				return
			}
			// the branch on ok
			var trueEdges [][2]*ssa.BasicBlock
			for _, r := range *okv.Referrers() {
				iff, ok := r.(*ssa.If)
				if !ok {
					// ok used otherwise (stored, returned, combined): out of scope
					if _, isDbg := r.(*ssa.DebugRef); !isDbg {
						if u, isNot := r.(*ssa.UnOp); isNot && u.Op == token.NOT {
							for _, r2 := range *u.Referrers() {
								if iff2, ok := r2.(*ssa.If); ok {
									trueEdges = append(trueEdges, [2]*ssa.BasicBlock{iff2.Block(), iff2.Block().Succs[1]})
								}
							}
							continue
						}
						return
					}
					continue
				}
				trueEdges = append(trueEdges, [2]*ssa.BasicBlock{iff.Block(), iff.Block().Succs[0]})
			}
			key := fnm + "|" + what
			if len(*okv.Referrers()) == 0 || onlyDebugRefs(okv) {
				// (c) the ok result is never looked at: the branch on it guards nothing (an emptied `if !ok { }`)
				used := false
				for _, r := range *val.Referrers() {
					if _, isDbg := r.(*ssa.DebugRef); !isDbg {
						used = true
					}
				}
				if used {
					c.bad(key, p.instrPos(in), fmt.Sprintf("the ok result of this %s is never tested although its value is used: when the key is missing / the type differs the zero value is used instead of reporting the error", what))
				}
				return
			}
			if len(trueEdges) == 0 {
				return
			}
			// (d) where the failure edge leads straight to a return of a function that reports errors, the return
			// reports one
			if ei := errResultIndex(fn.Signature); ei >= 0 {
				for _, e := range trueEdges {
					fail := e[0].Succs[0]
					if fail == e[1] {
						fail = e[0].Succs[1]
					}
					if len(fail.Preds) != 1 {
						continue
					}
					if ret, isRet := fail.Instrs[len(fail.Instrs)-1].(*ssa.Return); isRet && returnsNilError(ret) && !returnsSomeValue(ret, ei) && !r131NilRejectedByCallers(p, fn, ret) {
						c.bad(key+" failure return", p.instrPos(ret), fmt.Sprintf("when this %s fails the function returns at once with a nil error: a missing key / an unexpected type is reported as success", what))
					} else if isRet {
						c.okTrivial(key+" failure return", p.instrPos(ret), "the failure edge returns an error")
					}
				}
			}
			underOk := func(b *ssa.BasicBlock) bool {
				for _, e := range trueEdges {
					si := 0
					if e[0].Succs[1] == e[1] {
						si = 1
					}
					if edgeDominates(e[0], si, b) {
						return true
					}
				}
				return false
			}
			bad := ""
			for _, r := range *val.Referrers() {
				switch u := r.(type) {
				case *ssa.DebugRef:
					continue
				case *ssa.Phi:
					// the edge carrying the value must come from the ok side
					for i, e := range u.Edges {
						if e == ssa.Value(val) {
							pred := u.Block().Preds[i]
							if !underOk(pred) && !(len(trueEdges) > 0 && pred == trueEdges[0][0] && u.Block() == trueEdges[0][1]) {
								bad = p.instrPos(u)
							}
						}
					}
				case *ssa.Store:
					// `v, ok := m[k]` spilled into a local variable: judge the reads of that variable
					if al, isAl := u.Addr.(*ssa.Alloc); isAl && u.Val == ssa.Value(val) {
						for _, r2 := range *al.Referrers() {
							if r2 == ssa.Instruction(u) {
								continue
							}
							if _, isDbg := r2.(*ssa.DebugRef); isDbg {
								continue
							}
							if st2, isSt := r2.(*ssa.Store); isSt && st2.Addr == ssa.Value(al) {
								continue // another assignment of the variable
							}
							if phi, isPhi := r2.(*ssa.Phi); isPhi {
								// the variable's address taken on one branch (`cell = &s`): the edge must come from the ok side
								for i, e := range phi.Edges {
									if e == ssa.Value(al) && !underOk(phi.Block().Preds[i]) {
										bad = p.instrPos(r2)
									}
								}
								continue
							}
							if !underOk(r2.Block()) {
								bad = p.instrPos(r2)
							}
						}
						continue
					}
					if !underOk(r.Block()) {
						bad = p.instrPos(r)
					}
				default:
					if !underOk(r.Block()) {
						bad = p.instrPos(r)
					}
				}
			}
			if bad == "" {
				c.ok(key, p.instrPos(in), "the value is used only where ok holds")
			} else {
				c.bad(key, p.instrPos(in), fmt.Sprintf("the value of this %s is used at %s although ok is not known to hold there: when the key is missing / the type differs the zero value is used instead of reporting the error", what, bad))
			}
		})
	}
}

// returnsSomeValue: besides the error slot the return carries a result that is not the zero value of its type - the
// failed lookup selected an alternative (`if values, ok := enums[name]; ok { enum column } ; return string column, nil`).
func returnsSomeValue(ret *ssa.Return, ei int) bool {
	for i, r := range ret.Results {
		if i == ei {
			continue
		}
		r = unspillResult(ret, r)
		if mi, isMI := r.(*ssa.MakeInterface); isMI {
			r = mi.X // a zero struct wrapped in an interface (`return Column{}, nil`) is still no value
		}
		cst, ok := r.(*ssa.Const)
		if !ok {
			return true
		}
		if cst.Value != nil {
			// a basic constant other than the zero value
			if k, isK := constInt(cst); isK && k == 0 {
				continue
			}
			if isConstBool(cst, false) {
				continue
			}
			if sv, isS := constString(cst); isS && sv == "" {
				continue
			}
			return true
		}
	}
	return false
}

func onlyDebugRefs(v ssa.Value) bool {
	for _, r := range *v.Referrers() {
		if _, isDbg := r.(*ssa.DebugRef); !isDbg {
			return false
		}
	}
	return true
}

// ---- R90: every database/sql Scanner of the module consumes the value it accepts ----

func init() {
	register(&Rule{ID: "R90", Name: "SCAN-DISPATCH", Floor: 1,
		Text: "in every Scan(interface{}) error method of the module (database/sql.Scanner), on every acyclic path that can report success the scanned value was handed on: a method of the receiver was called (the typed appenders Bool/String/Int/Float/Null) or the configured coercion function was invoked. A case of the type switch that returns nil without appending loses the cell and leaves the column shorter than the others",
		Run:  runR90})
}

func runR90(c *Ctx) {
	p := c.P
	for _, fn := range p.Funcs {
		if fn.Parent() != nil || fn.Name() != "Scan" || fn.Signature.Recv() == nil || len(fn.Params) != 2 {
			continue
		}
		ei := errResultIndex(fn.Signature)
		if ei < 0 {
			continue
		}
		if _, isIface := fn.Params[1].Type().Underlying().(*types.Interface); !isIface {
			continue
		}
		recv := fn.Params[0]
		acts := func(b *ssa.BasicBlock) bool {
			for _, in := range b.Instrs {
				call, ok := in.(*ssa.Call)
				if !ok {
					continue
				}
				if callee := call.Call.StaticCallee(); callee != nil && callee.Signature.Recv() != nil && len(call.Call.Args) > 0 && fieldPathRootIsParam(call.Call.Args[0], recv) {
					return true
				}
				if call.Call.StaticCallee() == nil && !call.Call.IsInvoke() && builtinName(call) == "" {
					if f, _ := fieldOf(call.Call.Value); f != nil {
						return true // c.coerce(t)
					}
				}
			}
			return false
		}
		nPaths, nSuccess, bad := successPathsWithoutAction(p, fn, ei, acts)
		key := fname(fn) + "|success implies the value was consumed"
		switch {
		case bad != "":
			c.bad(key, bad, "a path returns nil although the scanned value was passed to no appender: the cell is dropped")
		default:
			c.ok(key, p.pos(fn.Pos()), fmt.Sprintf("%d acyclic paths, %d can report success, each hands the value on", nPaths, nSuccess))
		}
	}
}

// ---- R91: the text of the INSERT statement ----

func init() {
	register(&Rule{ID: "R91", Name: "SQL-SKELETON", Floor: 12,
		Text: "the INSERT builder (internal/io/sql.Insert) is evaluated (E5) for 1..3 column names in the four worlds of (an escape character is configured, incrementing placeholders), with strings abstracted to token lists (constants; T = the table name, N<j> = column name j, Q = the escape character): writes to a bytes.Buffer / strings.Builder, string concatenation, fmt.Sprintf with %d, strconv.Itoa, the helpers and the counted loops are interpreted. The returned text must be exactly `INSERT INTO ` [Q]T[Q] ` (` [Q]N0[Q] (`,` [Q]Nj[Q])* `) VALUES (` m1 (`,` mj)* `);` with mj = `?`, or `$j` counting from 1 when incrementing: every column named once in order, identifiers wrapped on both sides or not at all, one marker per column",
		Run:  runR91})
}

func runR91(c *Ctx) {
	p := c.P
	fn := p.Func("internal/io/sql", "Insert")
	if fn == nil || len(fn.Params) != 2 {
		c.undecided("internal/io/sql.Insert", "-", "not found")
		return
	}
	namesP := fn.Params[0]
	for n := 1; n <= 3; n++ {
		for w := 0; w < 4; w++ {
			esc, incr := w&1 != 0, w&2 != 0
			key := fmt.Sprintf("internal/io/sql.Insert|statement columns=%d escapeChar=%v incrementing=%v", n, esc, incr)
			pe := &pathExec{fn: fn, maxStep: 3000}
			writers := map[ssa.Value][]string{} // keyed by the resolved receiver
			strs := map[ssa.Value][]string{}
			bad := ""
			var tokOf func(v ssa.Value) ([]string, bool)
			tokOf = func(v ssa.Value) ([]string, bool) {
				v = pe.resolve(v)
				if ts, ok := strs[v]; ok {
					return ts, true
				}
				if sc, ok := constString(v); ok {
					var out []string
					for i := 0; i < len(sc); i++ {
						out = append(out, sc[i:i+1])
					}
					return out, true
				}
				if fieldNameOfLoad(v) == "Table" {
					return []string{"T"}, true
				}
				if f, ok := v.(*ssa.Field); ok {
					if st, ok := f.X.Type().Underlying().(*types.Struct); ok && st.Field(f.Field).Name() == "Table" {
						return []string{"T"}, true
					}
				}
				// element of the column names
				if ld, ok := v.(*ssa.UnOp); ok && ld.Op == token.MUL {
					if ia, ok := ld.X.(*ssa.IndexAddr); ok && pe.resolve(ia.X) == ssa.Value(namesP) {
						if j, ok := pe.intOf(ia.Index, 0); ok {
							return []string{fmt.Sprintf("N%d", j)}, true
						}
					}
				}
				return nil, false
			}
			isEscChar := func(v ssa.Value) bool {
				v = pe.resolve(v)
				if fieldNameOfLoad(v) == "EscapeChar" {
					return true
				}
				if f, ok := v.(*ssa.Field); ok {
					if st, ok := f.X.Type().Underlying().(*types.Struct); ok && st.Field(f.Field).Name() == "EscapeChar" {
						return true
					}
				}
				return false
			}
			isIncr := func(v ssa.Value) bool {
				v = pe.resolve(v)
				if fieldNameOfLoad(v) == "Incrementing" {
					return true
				}
				if f, ok := v.(*ssa.Field); ok {
					if st, ok := f.X.Type().Underlying().(*types.Struct); ok && st.Field(f.Field).Name() == "Incrementing" {
						return true
					}
				}
				return false
			}
			pe.lenOf = func(call *ssa.Call) (int64, bool) {
				if pe.resolve(call.Call.Args[0]) == ssa.Value(namesP) {
					return int64(n), true
				}
				if ts, ok := tokOf(call.Call.Args[0]); ok {
					return int64(len(ts)), true
				}
				return 0, false
			}
			atom := func(x ssa.Value) (bool, bool) {
				if isIncr(x) {
					return incr, true
				}
				b, ok := x.(*ssa.BinOp)
				if !ok {
					return false, false
				}
				if isEscChar(b.X) {
					if k, isK := constInt(b.Y); isK && k == 0 {
						switch b.Op {
						case token.EQL:
							return !esc, true
						case token.NEQ:
							return esc, true
						}
					}
				}
				if isIntegerType(b.X.Type()) {
					x1, ok1 := pe.intOf(b.X, 0)
					y1, ok2 := pe.intOf(b.Y, 0)
					if ok1 && ok2 {
						switch b.Op {
						case token.LSS:
							return x1 < y1, true
						case token.LEQ:
							return x1 <= y1, true
						case token.GTR:
							return x1 > y1, true
						case token.GEQ:
							return x1 >= y1, true
						case token.EQL:
							return x1 == y1, true
						case token.NEQ:
							return x1 != y1, true
						}
					}
				}
				return false, false
			}
			pe.oracle = func(pe *pathExec, cond ssa.Value) (bool, bool) { return pe.evalBool(cond, atom) }
			pe.inline = func(callee *ssa.Function) bool { return callee.Pkg == fn.Pkg }
			recvKey := func(v ssa.Value) ssa.Value { return pe.resolve(v) }
			var result []string
			haveResult := false
			pe.onInstr = func(pe *pathExec, in ssa.Instruction) {
				switch t := in.(type) {
				case *ssa.Phi:
					if ts, ok := tokOf(pe.phi[t]); ok {
						strs[t] = append([]string(nil), ts...)
					}
				case *ssa.BinOp:
					if bt, ok := t.Type().Underlying().(*types.Basic); ok && bt.Info()&types.IsString != 0 && t.Op == token.ADD {
						a, ok1 := tokOf(t.X)
						b, ok2 := tokOf(t.Y)
						if ok1 && ok2 {
							strs[t] = append(append([]string(nil), a...), b...)
						} else {
							delete(strs, t)
						}
					}
				case *ssa.Call:
					o := calleeObj(t)
					if o == nil {
						return
					}
					name := o.Name()
					pkg := ""
					if o.Pkg() != nil {
						pkg = o.Pkg().Path()
					}
					switch {
					case pkg == "strconv" && name == "Itoa":
						if k, ok := pe.intOf(t.Call.Args[0], 0); ok {
							strs[t], _ = tokOf(ssa.Value(nil))
							strs[t] = strings.Split(fmt.Sprint(k), "")
						}
					case pkg == "fmt" && name == "Sprintf":
						f, ok := constString(t.Call.Args[0])
						if !ok {
							return
						}
						// one %d verb with one int argument
						var arg ssa.Value
						if sl, ok := t.Call.Args[1].(*ssa.Slice); ok {
							if al, ok := sl.X.(*ssa.Alloc); ok {
								for _, r := range *al.Referrers() {
									if ia, ok := r.(*ssa.IndexAddr); ok {
										for _, r2 := range *ia.Referrers() {
											if st, ok := r2.(*ssa.Store); ok {
												arg = st.Val
											}
										}
									}
								}
							}
						}
						if mi, ok := arg.(*ssa.MakeInterface); ok {
							arg = mi.X
						}
						if strings.Count(f, "%") == 1 && strings.Contains(f, "%d") && arg != nil {
							if k, ok := pe.intOf(arg, 0); ok {
								strs[t] = strings.Split(strings.Replace(f, "%d", fmt.Sprint(k), 1), "")
							}
						}
					case (pkg == "bytes" || pkg == "strings") && (name == "WriteString" || name == "WriteRune" || name == "WriteByte"):
						rk := recvKey(t.Call.Args[0])
						switch name {
						case "WriteString":
							ts, ok := tokOf(t.Call.Args[1])
							if !ok {
								bad = "a string written at " + p.instrPos(t) + " is not built from constants, the table name, a column name or a number"
								return
							}
							writers[rk] = append(writers[rk], ts...)
						default:
							if isEscChar(t.Call.Args[1]) {
								writers[rk] = append(writers[rk], "Q")
							} else if k, isK := constInt(pe.resolve(t.Call.Args[1])); isK {
								writers[rk] = append(writers[rk], string(rune(k)))
							} else {
								bad = "a character written at " + p.instrPos(t) + " is neither a constant nor the escape character"
							}
						}
					case (pkg == "bytes" || pkg == "strings") && name == "String":
						rk := recvKey(t.Call.Args[0])
						strs[t] = append([]string(nil), writers[rk]...)
					}
				case *ssa.Return:
					if t.Parent() == fn && len(t.Results) == 1 {
						result, haveResult = tokOf(t.Results[0])
					}
				}
			}
			end, why := pe.run()
			if _, ok := end.(*ssa.Return); !ok {
				c.undecided(key, p.pos(fn.Pos()), "cannot evaluate: "+why)
				continue
			}
			if bad != "" {
				c.undecided(key, p.pos(fn.Pos()), bad)
				continue
			}
			if !haveResult {
				c.undecided(key, p.pos(fn.Pos()), "the returned statement is not a string the evaluation tracks")
				continue
			}
			q := ""
			if esc {
				q = "Q"
			}
			want := "INSERT INTO " + q + "T" + q + " ("
			for j := 0; j < n; j++ {
				if j > 0 {
					want += ","
				}
				want += fmt.Sprintf("%sN%d%s", q, j, q)
			}
			want += ") VALUES ("
			for j := 0; j < n; j++ {
				if j > 0 {
					want += ","
				}
				if incr {
					want += fmt.Sprintf("$%d", j+1)
				} else {
					want += "?"
				}
			}
			want += ");"
			got := strings.Join(result, "")
			if got == want {
				c.ok(key, p.pos(fn.Pos()), got)
			} else {
				c.bad(key, p.pos(fn.Pos()), fmt.Sprintf("builds %q where %q is required (T table, Nj column j, Q escape character)", got, want))
			}
		}
	}
}

// ---- R93: every option constructor has the effect its parameters name ----

func init() {
	register(&Rule{ID: "R93", Name: "OPTION-EFFECT", Floor: 25,
		Text: "for every exported option constructor of the config packages (a function returning a named option function type, e.g. sql.Precision(n), sql.Incrementing(), csv.Delimiter(d)): the returned closure stores every parameter of the constructor (or a value computed from it) into a field of the configuration it receives, or passes it to another option; a constructor without parameters stores a non-zero constant into at least one field or applies other options; and the dialect presets of config/sql apply the escape character and placeholder style of their dialect (PostgreSQL: \" and $n; SQLite: \"; MySQL: `). An option that silently does nothing leaves the default in force",
		Run:  runR93})
}

func runR93(c *Ctx) {
	p := c.P
	presets := map[string]struct {
		esc  int64
		incr bool
	}{"Postgres": {'"', true}, "SQLite": {'"', false}, "MySQL": {'`', false}}
	for _, fn := range p.Funcs {
		if fn.Parent() != nil || fn.Pkg == nil || !strings.HasPrefix(fn.Pkg.Pkg.Path(), rel("config")+"/") || fn.Object() == nil || !fn.Object().Exported() {
			continue
		}
		res := fn.Signature.Results()
		if res.Len() != 1 || !isOptionFuncType(res.At(0).Type()) || fn.Signature.Recv() != nil {
			continue
		}
		if len(fn.AnonFuncs) == 0 {
			// `return OtherOption(args)`: the effect is the other option's; presets are still judged
			if want, ok := presets[fn.Name()]; ok && fn.Pkg.Pkg.Path() == rel("config/sql") {
				pk := fname(fn) + "|dialect preset"
				eff := optionEffects(fn, nil, 0)
				switch {
				case eff["EscapeChar"] != want.esc:
					c.bad(pk, p.pos(fn.Pos()), fmt.Sprintf("the preset does not apply the dialect's escape character %q", rune(want.esc)))
				case want.incr && eff["Incrementing"] == 0:
					c.bad(pk, p.pos(fn.Pos()), "the preset does not select $n placeholders")
				default:
					c.ok(pk, p.pos(fn.Pos()), "escape character and placeholder style of the dialect are applied")
				}
				c.ok(fname(fn)+"|effect", p.pos(fn.Pos()), "delegates to another option")
			}
			continue
		}
		fnm := fname(fn)
		cl := fn.AnonFuncs[0]
		// what the closure does
		storesFrom := map[int]bool{} // free var index -> stored into config / passed to option
		nonZeroConst := false
		appliesOption := false
		escStored, incrStored := int64(-1), false
		var scan func(f *ssa.Function, fvOf map[*ssa.FreeVar]int, depth int)
		scan = func(f *ssa.Function, fvOf map[*ssa.FreeVar]int, depth int) {
			derives := func(v ssa.Value) int {
				seen := map[ssa.Value]bool{}
				found := -1
				var walk func(v ssa.Value, d int)
				walk = func(v ssa.Value, d int) {
					if v == nil || seen[v] || d > 12 {
						return
					}
					seen[v] = true
					if fv, ok := v.(*ssa.FreeVar); ok {
						if i, ok := fvOf[fv]; ok {
							found = i
						}
						return
					}
					if al, ok := v.(*ssa.Alloc); ok {
						for _, r := range *al.Referrers() {
							if st, ok := r.(*ssa.Store); ok && st.Addr == ssa.Value(al) {
								walk(st.Val, d+1)
							}
						}
						return
					}
					if in, ok := v.(ssa.Instruction); ok {
						var ops []*ssa.Value
						for _, o := range in.Operands(ops) {
							if o != nil && *o != nil {
								walk(*o, d+1)
							}
						}
					}
				}
				walk(v, 0)
				return found
			}
			eachInstr(f, func(in ssa.Instruction) {
				switch t := in.(type) {
				case *ssa.Store:
					if _, ok := t.Addr.(*ssa.FieldAddr); ok || isMapOrIndexOfField(t.Addr) {
						if i := derives(t.Val); i >= 0 {
							storesFrom[i] = true
						}
						if k, isK := constInt(t.Val); isK && k != 0 {
							nonZeroConst = true
						}
						if isConstBool(t.Val, true) {
							nonZeroConst = true
						}
					}
				case *ssa.MapUpdate:
					if i := derives(t.Value); i >= 0 {
						storesFrom[i] = true
					}
					if i := derives(t.Key); i >= 0 {
						storesFrom[i] = true
					}
				case *ssa.Call:
					// another option applied to the same config: Opt(args)(c)
					if inner, ok := t.Call.Value.(*ssa.Call); ok {
						if callee := inner.Call.StaticCallee(); callee != nil && isOptionFuncType(inner.Type()) {
							appliesOption = true
							for _, a := range inner.Call.Args {
								if i := derives(a); i >= 0 {
									storesFrom[i] = true
								}
							}
							switch callee.Name() {
							case "EscapeChar":
								if k, ok := constInt(inner.Call.Args[0]); ok {
									escStored = k
								}
							case "Incrementing":
								incrStored = true
							}
						}
					}
					// range loops over a captured slice that store elements count through derives() on the stores
				}
			})
		}
		fvOf := map[*ssa.FreeVar]int{}
		// map free variables of the closure to the constructor's parameters
		eachInstr(fn, func(in ssa.Instruction) {
			mc, ok := in.(*ssa.MakeClosure)
			if !ok || mc.Fn != ssa.Value(cl) {
				return
			}
			for bi, b := range mc.Bindings {
				for pi, prm := range fn.Params {
					if b == ssa.Value(prm) || isAllocOfParam(b, prm) {
						fvOf[cl.FreeVars[bi]] = pi
					}
				}
			}
		})
		scan(cl, fvOf, 0)
		key := fnm + "|effect"
		var missing []string
		for pi, prm := range fn.Params {
			if !storesFrom[pi] {
				missing = append(missing, prm.Name())
			}
		}
		switch {
		case len(fn.Params) > 0 && len(missing) > 0:
			c.bad(key, p.pos(fn.Pos()), fmt.Sprintf("the option does not store its parameter(s) %s into the configuration: it has no effect and the default stays in force", strings.Join(missing, ", ")))
		case len(fn.Params) == 0 && !nonZeroConst && !appliesOption:
			c.bad(key, p.pos(fn.Pos()), "the parameterless option stores no non-zero constant and applies no other option: it has no effect")
		default:
			c.ok(key, p.pos(fn.Pos()), "every parameter reaches the configuration")
		}
		if want, ok := presets[fn.Name()]; ok && fn.Pkg.Pkg.Path() == rel("config/sql") {
			pk := fnm + "|dialect preset"
			eff := optionEffects(fn, nil, 0)
			if v, ok := eff["EscapeChar"]; ok {
				escStored = v
			}
			if v, ok := eff["Incrementing"]; ok && v != 0 {
				incrStored = true
			}
			switch {
			case escStored != want.esc:
				c.bad(pk, p.pos(fn.Pos()), fmt.Sprintf("the preset does not apply the dialect's escape character %q", rune(want.esc)))
			case want.incr && !incrStored:
				c.bad(pk, p.pos(fn.Pos()), "the preset does not select $n placeholders")
			default:
				c.ok(pk, p.pos(fn.Pos()), "escape character and placeholder style of the dialect are applied")
			}
		}
	}
}

func isMapOrIndexOfField(addr ssa.Value) bool {
	if ia, ok := addr.(*ssa.IndexAddr); ok {
		_, isF := fieldOf(ia.X)
		return isF != nil
	}
	return false
}

func isAllocOfParam(v ssa.Value, prm *ssa.Parameter) bool {
	al, ok := v.(*ssa.Alloc)
	return ok && singleDef(al) == ssa.Value(prm)
}

// ---- R98: a slice that is filled by append starts empty ----

func init() {
	register(&Rule{ID: "R98", Name: "APPEND-FROM-EMPTY", Floor: 25,
		Text: "every slice allocated by make with a constant length that is then grown by append (directly or through the accumulator of a loop) is allocated with length 0: make([]T, 0, n) followed by append, or make([]T, n) followed by indexed stores, are the two idioms of the code base; make([]T, 1, n) followed by append starts the result with a zero element, so every row of a subset, an aggregation input or a resized column buffer is shifted by one",
		Run:  runR98})
}

func runR98(c *Ctx) {
	p := c.P
	for _, fn := range p.Funcs {
		fnm := fname(fn)
		eachInstr(fn, func(in ssa.Instruction) {
			mk, ok := in.(*ssa.MakeSlice)
			if !ok {
				return
			}
			k, isK := constInt(mk.Len)
			if !isK {
				return
			}
			// does it reach the first argument of an append?
			appended := false
			seen := map[ssa.Value]bool{}
			var walk func(v ssa.Value, d int)
			walk = func(v ssa.Value, d int) {
				if seen[v] || d > 6 {
					return
				}
				seen[v] = true
				refs := v.Referrers()
				if refs == nil {
					return
				}
				for _, r := range *refs {
					switch t := r.(type) {
					case *ssa.Call:
						if builtinName(t) == "append" && len(t.Call.Args) > 0 && t.Call.Args[0] == v {
							appended = true
						}
					case *ssa.Phi:
						walk(t, d+1)
					case *ssa.Store:
						// stored into a local variable that is later appended to
						if al, ok := t.Addr.(*ssa.Alloc); ok && t.Val == v {
							for _, r2 := range *al.Referrers() {
								if ld, ok := r2.(*ssa.UnOp); ok && ld.Op == token.MUL {
									walk(ld, d+1)
								}
							}
						}
					}
				}
			}
			walk(mk, 0)
			if !appended {
				return
			}
			key := fnm + "|make then append"
			if k == 0 {
				c.okTrivial(key, p.instrPos(mk), "length 0")
			} else {
				c.bad(key, p.instrPos(mk), fmt.Sprintf("the slice is allocated with length %d and then grown by append: it starts with %d zero element(s) that precede everything appended", k, k))
			}
		})
	}
}

// ---- R99: every probe sequence of the hash table advances the same way ----

func init() {
	register(&Rule{ID: "R99", Name: "PROBE-AGREE", Floor: 2,
		Text: "in internal/grouper every open-addressing probe loop (a position that starts at hash & mask and is advanced as (pos OP k) & mask) advances by the same operation and the same constant: insertion/lookup and relocation during growth must visit the slots of a collision chain in the same order, otherwise a key displaced by a grow is not found again and equal keys form several groups; and they start at the same slot: where relocation starts from a field of the entry (the stored hash), every store to that field stores - without narrowing - the very value the insertion probe of the same function starts from",
		Run:  runR99})
}

// intSize: width in bits of an integer type (0 when unknown; int/uint/uintptr count as 64).
func intSize(t types.Type) int {
	b, ok := t.Underlying().(*types.Basic)
	if !ok {
		return 0
	}
	switch b.Kind() {
	case types.Int8, types.Uint8:
		return 8
	case types.Int16, types.Uint16:
		return 16
	case types.Int32, types.Uint32:
		return 32
	case types.Int64, types.Uint64, types.Int, types.Uint, types.Uintptr:
		return 64
	}
	return 0
}

func runR99(c *Ctx) {
	p := c.P
	type step struct {
		desc string
		pos  string
		fn   string
	}
	var steps []step
	// start of each probe loop: the value that is masked to give the first slot
	type probeStart struct {
		fn  *ssa.Function
		src ssa.Value  // conversions stripped
		fld *types.Var // set when src is a load of a struct field (relocation reads the stored hash)
		pos string
	}
	var starts []probeStart
	for _, fn := range p.FuncsIn("internal/grouper") {
		for _, li := range loopsOf(fn) {
			for _, in := range li.header.Instrs {
				phi, ok := in.(*ssa.Phi)
				if !ok {
					break
				}
				isProbe := false
				for i, e := range phi.Edges {
					if !inLoop(li, li.header.Preds[i]) {
						continue
					}
					if and, ok := e.(*ssa.BinOp); ok && and.Op == token.AND {
						if adv, ok := and.X.(*ssa.BinOp); ok && adv.X == ssa.Value(phi) {
							isProbe = true
						}
					}
				}
				if isProbe {
					for i, e := range phi.Edges {
						if inLoop(li, li.header.Preds[i]) {
							continue
						}
						if and, ok := stripConv(e).(*ssa.BinOp); ok && and.Op == token.AND {
							src := stripConv(and.X)
							ps := probeStart{fn: fn, src: src, pos: p.instrPos(and)}
							if fld, _ := fieldOf(src); fld != nil {
								ps.fld = fld
							}
							starts = append(starts, ps)
						}
					}
				}
				for i, e := range phi.Edges {
					if !inLoop(li, li.header.Preds[i]) {
						continue
					}
					and, ok := e.(*ssa.BinOp)
					if !ok || and.Op != token.AND {
						continue
					}
					adv, ok := and.X.(*ssa.BinOp)
					if !ok || adv.X != ssa.Value(phi) {
						continue
					}
					k, isK := constInt(adv.Y)
					d := fmt.Sprintf("pos %s %s", adv.Op, describe(adv.Y))
					if isK {
						d = fmt.Sprintf("pos %s %d", adv.Op, k)
					}
					steps = append(steps, step{d, p.instrPos(adv), fname(fn)})
				}
			}
		}
	}
	if len(steps) < 2 {
		c.undecided("internal/grouper|probe loops", "-", fmt.Sprintf("found %d probe loop(s), expected at least the insertion and the relocation loop", len(steps)))
		return
	}
	// the hash an entry is relocated by is the hash it was inserted (and is looked up) by
	for _, rs := range starts {
		if rs.fld == nil {
			continue
		}
		nStores := 0
		for _, fn := range p.FuncsIn("internal/grouper") {
			eachInstr(fn, func(in ssa.Instruction) {
				st, ok := in.(*ssa.Store)
				if !ok {
					return
				}
				fa, ok := st.Addr.(*ssa.FieldAddr)
				if !ok {
					return
				}
				stt, ok := deref(fa.X.Type()).Underlying().(*types.Struct)
				if !ok || stt.Field(fa.Field) != rs.fld {
					return
				}
				nStores++
				key := fname(fn) + "|stored hash"
				v := st.Val
				narrowed := false
				for {
					cv, ok := v.(*ssa.Convert)
					if !ok {
						if ct, ok := v.(*ssa.ChangeType); ok {
							v = ct.X
							continue
						}
						break
					}
					if intSize(cv.Type()) < intSize(cv.X.Type()) {
						narrowed = true
					}
					v = cv.X
				}
				match := false
				for _, is := range starts {
					if is.fld != nil {
						continue
					}
					if is.fn == fn && is.src == v {
						match = true
					}
					// the probe lives in a helper (findSlot(i, hash)): the value bound to the helper's parameter
					// at a call in this function
					if prm, ok := is.src.(*ssa.Parameter); ok && is.fn != fn {
						pi := -1
						for i, q := range is.fn.Params {
							if q == prm {
								pi = i
							}
						}
						eachInstr(fn, func(i2 ssa.Instruction) {
							if call, ok := i2.(ssa.CallInstruction); ok && staticCallee(call) == is.fn && pi >= 0 && pi < len(call.Common().Args) {
								if stripConv(call.Common().Args[pi]) == v {
									match = true
								}
							}
						})
					}
				}
				// clause (c): the stored value is a function of the row alone. It is kept across growth and compared
				// with freshly computed hashes afterwards, so it must not depend on the table's current size
				if dep := r99DependsOnTableSize(v, 0, map[ssa.Value]bool{}); dep != "" {
					c.bad(key+" size independent", p.instrPos(st), fmt.Sprintf("the hash stored in the entry depends on the current size of the table (%s): after a grow the same key hashes to another value, is not recognised as the key stored before and forms a second group", dep))
				} else {
					c.okTrivial(key+" size independent", p.instrPos(st), "the stored hash does not depend on the table's size")
				}
				switch {
				case narrowed:
					c.bad(key, p.instrPos(st), fmt.Sprintf("the hash stored in the entry (field %s) is a narrowed copy of the hash the probe starts from: growing relocates entries by the stored bits only, so once the table has more slots than those bits address, a relocated key is no longer on the probe path of its full hash and equal keys form several groups", rs.fld.Name()))
				case !match:
					c.bad(key, p.instrPos(st), fmt.Sprintf("the value stored in the entry's field %s is not the value the insertion probe of the same function starts from: relocation (which starts from the stored field) and lookup walk different chains", rs.fld.Name()))
				default:
					c.ok(key, p.instrPos(st), "the entry stores the very hash the probe started from; relocation starts from that field")
				}
			})
		}
		if nStores == 0 {
			c.undecided(fname(rs.fn)+"|stored hash", rs.pos, "relocation starts from a field that nothing stores")
		}
	}
	for _, s := range steps {
		key := s.fn + "|probe step"
		if s.desc == steps[0].desc && s.desc == "pos + 1" {
			c.ok(key, s.pos, "advances by "+s.desc+" under the mask")
		} else if s.desc == steps[0].desc {
			c.ok(key, s.pos, "advances by "+s.desc+" under the mask, like every other probe loop")
		} else {
			c.bad(key, s.pos, fmt.Sprintf("this probe loop advances by `%s` while %s advances by `%s`: entries relocated by a grow are not found again by later lookups, so equal keys form duplicate groups", s.desc, steps[0].fn, steps[0].desc))
		}
	}
}

// ---- R94: strictness of an enum column, and when two enum columns may be compared by code ----

func init() {
	register(&Rule{ID: "R94", Name: "ENUM-STRICT-EQTYPES", Floor: 5,
		Text: "(a) the strict flag of an enum factory is stored as `len(declared values) > 0` (or != 0, >= 1): one declared value already fixes the value set; (b) ecolumn.equalTypes, which licenses comparing two enum columns by code, is evaluated (E5) in the four worlds of (value tables have equal length, the compared table entries are equal) on one-entry tables and returns true only when both hold - codes of tables that differ anywhere do not identify the same strings (a comparison of the data lengths, which are equal for columns of one frame, is answered `equal`)",
		Run:  runR94})
}

func runR94(c *Ctx) {
	p := c.P
	r94StrictTravels(c)
	// (a)
	n := 0
	for _, fn := range p.FuncsIn("internal/ecolumn") {
		eachInstr(fn, func(in ssa.Instruction) {
			st, ok := in.(*ssa.Store)
			if !ok {
				return
			}
			fa, ok := st.Addr.(*ssa.FieldAddr)
			if !ok || fieldNameAt(fa) != "strict" {
				return
			}
			n++
			key := fname(fn) + "|strict flag"
			b, ok := st.Val.(*ssa.BinOp)
			if !ok {
				if _, isConst := st.Val.(*ssa.Const); isConst {
					c.okTrivial(key, p.instrPos(st), "constant")
					return
				}
				if fld, _ := fieldOf(st.Val); fld != nil && fld.Name() == "strict" {
					c.okTrivial(key, p.instrPos(st), "copied from the source column (clause c)")
					return
				}
				c.undecided(key, p.instrPos(st), "the strict flag is "+describe(st.Val))
				return
			}
			call, isLen := b.X.(*ssa.Call)
			k, isK := constInt(b.Y)
			if isLen && builtinName(call) == "len" && isK && (k == 0 && (b.Op == token.GTR || b.Op == token.NEQ) || k == 1 && b.Op == token.GEQ) {
				c.ok(key, p.instrPos(st), "strict exactly when values were declared")
			} else {
				c.bad(key, p.instrPos(st), fmt.Sprintf("the strict flag is `%s`, not `len(values) > 0`: an enum declared with few values accepts undeclared ones", describe(b)))
			}
		})
	}
	if n == 0 {
		c.undecided("internal/ecolumn|strict flag", "-", "no store to a field named strict")
	}
	// (b)
	fn := p.anchorEnumEqualTypes()
	if fn == nil || len(fn.Params) != 2 {
		c.undecided("internal/ecolumn.equalTypes", "-", "not found")
		return
	}
	fieldOfLen := func(v ssa.Value) string {
		call, ok := v.(*ssa.Call)
		if !ok || builtinName(call) != "len" {
			return ""
		}
		return fieldNameOfLoad(call.Call.Args[0])
	}
	for w := 0; w < 4; w++ {
		// the data slices of two columns of one frame always have the same length: that test, where present,
		// is answered "equal" and is not a dimension of the worlds
		lv, ld, el := w&1 != 0, true, w&2 != 0
		key := fmt.Sprintf("internal/ecolumn.equalTypes|world sameTableLen=%v entriesEqual=%v", lv, el)
		pe := &pathExec{fn: fn}
		pe.lenOf = func(call *ssa.Call) (int64, bool) { return 1, true }
		atom := func(x ssa.Value) (bool, bool) {
			b, ok := x.(*ssa.BinOp)
			if !ok {
				return false, false
			}
			fx, fy := fieldOfLen(b.X), fieldOfLen(b.Y)
			if fx != "" && fx == fy && (b.Op == token.NEQ || b.Op == token.EQL) {
				same := lv
				if fx == "data" {
					same = ld
				}
				return same == (b.Op == token.EQL), true
			}
			if bt, ok := b.X.Type().Underlying().(*types.Basic); ok && bt.Info()&types.IsString != 0 && (b.Op == token.NEQ || b.Op == token.EQL) {
				if !lv {
					return false, false // entries of tables of different length are not comparable position by position
				}
				return el == (b.Op == token.EQL), true
			}
			if isIntegerType(b.X.Type()) {
				x1, ok1 := pe.intOf(b.X, 0)
				y1, ok2 := pe.intOf(b.Y, 0)
				if ok1 && ok2 {
					switch b.Op {
					case token.LSS:
						return x1 < y1, true
					case token.GEQ:
						return x1 >= y1, true
					}
				}
			}
			return false, false
		}
		pe.oracle = func(pe *pathExec, cond ssa.Value) (bool, bool) { return pe.evalBool(cond, atom) }
		end, why := pe.run()
		want := lv && ld && el
		ret, ok := end.(*ssa.Return)
		if !ok {
			if !lv {
				c.bad(key, p.pos(fn.Pos()), "table entries are compared position by position although the tables differ in length (index out of range, or tables accepted as equal)")
			} else {
				c.undecided(key, p.pos(fn.Pos()), "cannot evaluate: "+why)
			}
			continue
		}
		got, known := pe.evalBool(ret.Results[0], atom)
		switch {
		case !known:
			c.undecided(key, p.instrPos(ret), "result not decided by the world")
		case got == want:
			c.ok(key, p.instrPos(ret), fmt.Sprintf("returns %v", got))
		default:
			c.bad(key, p.instrPos(ret), fmt.Sprintf("returns %v: two enum columns would be compared by code although their value tables differ, or identical tables would be refused", got))
		}
	}
}

// ---- R95: an enum column with a new value table re-codes its cells ----

func init() {
	register(&Rule{ID: "R95", Name: "ENUM-RECODE", Floor: 2,
		Text: "in internal/ecolumn, where a Column is built whose value table is neither the source column's table nor the factory's own (the built-in ToUpper): (a) the source's data slice is reused only under a dominating guard that the new table has as many entries as the old one (no two codes were merged, every code keeps its meaning); (b) otherwise the data slice is allocated in the function and filled in a loop over the source data in which a null cell stores the cell itself and a non-null cell stores the entry of a translation slice indexed by the old code - and both stores exist",
		Run:  runR95})
}

func runR95(c *Ctx) {
	p := c.P
	for _, fn := range p.FuncsIn("internal/ecolumn") {
		fnm := fname(fn)
		var srcCol *ssa.Parameter
		for _, prm := range fn.Params {
			if n, ok := prm.Type().(*types.Named); ok && n.Obj().Name() == "Column" {
				srcCol = prm
			}
		}
		if srcCol == nil {
			continue
		}
		isOldField := func(v ssa.Value, name string) bool {
			return fieldPathRootIsParam(v, srcCol) && fieldNameOfLoad(v) == name
		}
		isFresh := func(v ssa.Value) bool { return freshSlice(v, map[ssa.Value]bool{}) }
		// does the guard list say len(new table) == len(old table)?
		equalLens := func(gs []guard) bool {
			for _, g := range gs {
				b, ok := g.Cond.(*ssa.BinOp)
				if !ok || !(b.Op == token.EQL && g.Val || b.Op == token.NEQ && !g.Val) {
					continue
				}
				lenArg := func(v ssa.Value) ssa.Value {
					if lc, ok := v.(*ssa.Call); ok && builtinName(lc) == "len" {
						return lc.Call.Args[0]
					}
					return nil
				}
				a, bb := lenArg(b.X), lenArg(b.Y)
				oldSide := func(v, raw ssa.Value) bool {
					if v != nil && isOldField(v, "values") {
						return true
					}
					// a local holding len(s.values)
					if lc, ok := raw.(*ssa.Call); ok && builtinName(lc) == "len" && isOldField(lc.Call.Args[0], "values") {
						return true
					}
					return false
				}
				newSide := func(v ssa.Value) bool { return v != nil && isFresh(v) }
				if oldSide(a, b.X) && newSide(bb) || oldSide(bb, b.Y) && newSide(a) {
					return true
				}
			}
			return false
		}
		guardsOfEdge := func(pred, to *ssa.BasicBlock) []guard {
			gs := dominatingGuards(pred)
			if iff, ok := pred.Instrs[len(pred.Instrs)-1].(*ssa.If); ok {
				cond, val := unNot(iff.Cond, true)
				gs = append(gs, guard{If: iff, Cond: cond, Val: (pred.Succs[0] == to) == val})
			}
			return gs
		}
		lits := map[*ssa.Alloc]map[string]*ssa.Store{}
		eachInstr(fn, func(in ssa.Instruction) {
			st, ok := in.(*ssa.Store)
			if !ok {
				return
			}
			fa, ok := st.Addr.(*ssa.FieldAddr)
			if !ok {
				return
			}
			al, ok := fa.X.(*ssa.Alloc)
			if !ok {
				return
			}
			if n, ok := deref(al.Type()).(*types.Named); !ok || n.Obj().Name() != "Column" {
				return
			}
			if lits[al] == nil {
				lits[al] = map[string]*ssa.Store{}
			}
			lits[al][fieldNameAt(fa)] = st
		})
		for _, fields := range lits {
			vs, ds := fields["values"], fields["data"]
			if vs == nil || ds == nil {
				continue
			}
			if isOldField(vs.Val, "values") || !isFresh(vs.Val) {
				continue // the source's own table, or not a table built here
			}
			// the data value: a single value, or a phi of alternatives each judged on its edge
			type alt struct {
				v  ssa.Value
				gs []guard
			}
			var alts []alt
			if phi, ok := ds.Val.(*ssa.Phi); ok {
				for k, e := range phi.Edges {
					alts = append(alts, alt{e, guardsOfEdge(phi.Block().Preds[k], phi.Block())})
				}
			} else {
				alts = append(alts, alt{ds.Val, dominatingGuards(ds.Block())})
			}
			for _, a := range alts {
				if isOldField(a.v, "data") {
					key := fnm + "|data reused with a new table"
					if equalLens(a.gs) {
						c.ok(key, p.instrPos(ds), "only when the new table has as many entries as the old one")
					} else {
						c.bad(key, p.instrPos(ds), "the source's codes are kept although the new value table may have fewer entries (merged values): codes then name the wrong strings or lie outside the table")
					}
					continue
				}
				key := fnm + "|re-coded data"
				if !isFresh(a.v) {
					c.undecided(key, p.instrPos(ds), "the data of the new column is neither the source's nor allocated here")
					continue
				}
				// the data may be produced by a helper of the package (translateCodes(data, oldToNew)): the loop is then
				// looked for, and evaluated, in that helper - on the slice it returns, with `fresh` read through the
				// helper's parameters at this call
				fn, isFresh := fn, isFresh
				if hc, isCall := a.v.(*ssa.Call); isCall {
					if h := hc.Call.StaticCallee(); h != nil && h.Pkg == fn.Pkg && h.Blocks != nil && h.Signature.Results().Len() == 1 {
						var ret ssa.Value
						eachInstr(h, func(in ssa.Instruction) {
							if r, ok := in.(*ssa.Return); ok {
								ret = r.Results[0]
							}
						})
						if ret != nil {
							outerFresh := isFresh
							caller := hc
							fn, a.v = h, ret
							isFresh = func(v ssa.Value) bool {
								if prm, ok := rootValue(v).(*ssa.Parameter); ok && prm.Parent() == h {
									for i, q := range h.Params {
										if q == prm && i < len(caller.Call.Args) {
											return outerFresh(caller.Call.Args[i])
										}
									}
								}
								return freshSlice(v, map[ssa.Value]bool{})
							}
						}
					}
				}
				// the loop that fills it: evaluate one iteration in the worlds null / not null
				var fill *ssa.Store
				eachInstr(fn, func(in ssa.Instruction) {
					st, ok := in.(*ssa.Store)
					if !ok {
						return
					}
					if ia, ok := st.Addr.(*ssa.IndexAddr); ok && (rootValue(ia.X) == rootValue(a.v) || sameValue2(ia.X, a.v, 0)) {
						fill = st
					}
				})
				var loop *loopInfo
				if fill != nil {
					for _, li := range loopsOf(fn) {
						if inLoop(li, fill.Block()) {
							l := li
							loop = &l
						}
					}
				}
				if fill == nil || loop == nil {
					c.bad(key, p.instrPos(ds), "the new data slice is never filled in a loop over the source's cells")
					continue
				}
				problems := []string{}
				for _, isNull := range []bool{true, false} {
					pe := &pathExec{fn: fn, start: loop.header}
					pe.stopAt = func(b *ssa.BasicBlock) bool { return b == loop.header }
					first := true
					var cell ssa.Value
					var stored ssa.Value
					atom := func(x ssa.Value) (bool, bool) {
						if call, ok := x.(*ssa.Call); ok && isNullPredicate(call) && len(call.Call.Args) > 0 {
							cell = call.Call.Args[0]
							return isNull, true
						}
						if b, ok := x.(*ssa.BinOp); ok && b.Op == token.LSS && first {
							first = false
							return true, true // the loop condition: there is a cell
						}
						return false, false
					}
					pe.oracle = func(pe *pathExec, cond ssa.Value) (bool, bool) { return pe.evalBool(cond, atom) }
					pe.onInstr = func(pe *pathExec, in ssa.Instruction) {
						if st, ok := in.(*ssa.Store); ok {
							if ia, ok := st.Addr.(*ssa.IndexAddr); ok && (rootValue(ia.X) == rootValue(a.v) || sameValue2(ia.X, a.v, 0)) {
								stored = pe.resolve(st.Val)
							}
						}
					}
					pe.run()
					world := "a null cell"
					if !isNull {
						world = "a non-null cell"
					}
					switch {
					case pe.stopped == nil && stored == nil:
						problems = append(problems, "the iteration for "+world+" cannot be evaluated")
					case stored == nil:
						problems = append(problems, world+" stores nothing")
					case isNull:
						if !(cell != nil && sameValue2(stored, pe.resolve(cell), 0)) && !isNullConst(stored) {
							problems = append(problems, "a null cell does not stay null ("+describe(stored)+" is stored)")
						}
					default:
						okT := false
						if ld, ok := stored.(*ssa.UnOp); ok && ld.Op == token.MUL {
							if ia2, ok := ld.X.(*ssa.IndexAddr); ok && cell != nil && sameValue2(stripConvInt(ia2.Index), pe.resolve(cell), 0) && isFresh(ia2.X) {
								okT = true
							}
						}
						if !okT {
							problems = append(problems, "a non-null cell is not translated through the table of new codes ("+describe(stored)+" is stored)")
						}
					}
				}
				if len(problems) == 0 {
					c.ok(key, p.instrPos(fill), "null stays null, every other cell is translated through the table of new codes")
				} else {
					c.bad(key, p.instrPos(fill), strings.Join(problems, "; "))
				}
			}
		}
	}
}

func isNullConst(v ssa.Value) bool {
	k, ok := constInt(v)
	return ok && k == 255
}

// ---- R104: Must* wrappers panic exactly when the wrapped call failed ----

func init() {
	register(&Rule{ID: "R104", Name: "MUST-WRAPPERS", Floor: 5,
		Text: "every exported Must* wrapper of the root package (MustIntView, ...) panics only on the side of its branch where the error returned by the wrapped call is non-nil, and returns the wrapped call's value on the other side: the typed views obtained through MustXView and XView agree, and a valid column never panics",
		Run:  runR104})
}

func runR104(c *Ctx) {
	p := c.P
	for _, fn := range p.FuncsIn("") {
		if fn.Parent() != nil || !strings.HasPrefix(fn.Name(), "Must") || fn.Object() == nil || !fn.Object().Exported() {
			continue
		}
		fnm := fname(fn)
		key := fnm + "|panic iff error"
		// the wrapped call: a call whose last result is an error
		var errVal ssa.Value
		eachInstr(fn, func(in ssa.Instruction) {
			ex, ok := in.(*ssa.Extract)
			if ok && isErrorType(ex.Type()) {
				errVal = ex
			}
		})
		if errVal == nil {
			c.undecided(key, p.pos(fn.Pos()), "no wrapped call returning an error found")
			continue
		}
		bad := ""
		nPanic, nRet := 0, 0
		for _, b := range fn.Blocks {
			last := b.Instrs[len(b.Instrs)-1]
			_, isPanic := last.(*ssa.Panic)
			_, isRet := last.(*ssa.Return)
			if !isPanic && !isRet {
				continue
			}
			underErr, underOk := false, false
			for _, g := range dominatingGuards(b) {
				bo, ok := g.Cond.(*ssa.BinOp)
				if !ok || bo.X != errVal {
					continue
				}
				if cst, ok := bo.Y.(*ssa.Const); !ok || !cst.IsNil() {
					continue
				}
				nonNil := (bo.Op == token.NEQ) == g.Val
				if nonNil {
					underErr = true
				} else {
					underOk = true
				}
			}
			if isPanic {
				nPanic++
				if !underErr {
					bad = "the panic at " + p.instrPos(last) + " is not limited to err != nil"
				}
			} else {
				nRet++
				if !underOk {
					bad = "the return at " + p.instrPos(last) + " is reachable with err != nil (or the test is inverted: a valid column panics)"
				}
			}
		}
		switch {
		case bad != "":
			c.bad(key, p.pos(fn.Pos()), bad)
		case nPanic == 0 || nRet == 0:
			c.undecided(key, p.pos(fn.Pos()), "expected one panic and one return")
		default:
			c.ok(key, p.pos(fn.Pos()), "panics exactly under err != nil")
		}
	}
}

// ---- R106: the negation shortcut falls back exactly when the built-in inverse failed ----

func init() {
	register(&Rule{ID: "R106", Name: "INVERSE-FALLBACK", Floor: 2,
		Text: "in QFrame.filter, after the column kernel was asked for the built-in inverse of a comparator (the comparator looked up in an inverse table), the generic complement (a second Column.Filter call into a fresh boolean index that is then negated into the result) runs whenever that first call returned an error: evaluated (E5) from the first call in the two worlds error / no error. An inverse that is not implemented for the argument type (`not in`) must not surface as an error of the filter (running the complement after a successful inverse as well only repeats the same bits)",
		Run:  runR106})
}

// looksUpStringTable: f reads a map whose elements are strings (a comparator-name table).
func looksUpStringTable(f *ssa.Function) bool {
	hit := false
	eachInstr(f, func(in ssa.Instruction) {
		if lk, ok := in.(*ssa.Lookup); ok {
			if mt, ok := lk.X.Type().Underlying().(*types.Map); ok {
				if b, ok := mt.Elem().Underlying().(*types.Basic); ok && b.Kind() == types.String {
					hit = true
				}
			}
		}
	})
	return hit
}

func runR106(c *Ctx) {
	p := c.P
	fn := p.anchorFrameFilter()
	if fn == nil {
		c.undecided("QFrame.filter", "-", "not found")
		return
	}
	fnm := fname(fn)
	var first, second *ssa.Call
	// the shortcut may live in a helper of the same package (an extracted filterInverse)
	cands := []*ssa.Function{fn}
	eachInstr(fn, func(in ssa.Instruction) {
		if call, ok := in.(*ssa.Call); ok {
			if callee := call.Call.StaticCallee(); callee != nil && callee.Pkg == fn.Pkg && callee.Blocks != nil {
				cands = append(cands, callee)
			}
		}
	})
	for _, cand := range cands {
		if first != nil && second != nil {
			break
		}
		first, second = nil, nil
		fn = cand
		eachInstr(cand, func(in ssa.Instruction) {
			call, ok := in.(*ssa.Call)
			if !ok || !call.Call.IsInvoke() || call.Call.Method.Name() != "Filter" || len(call.Call.Args) < 4 {
				return
			}
			// comparator from an inverse table lookup?
			cmp := call.Call.Args[1]
			if mi, ok := cmp.(*ssa.MakeInterface); ok {
				cmp = mi.X
			}
			if ex, ok := cmp.(*ssa.Extract); ok {
				if _, isLk := ex.Tuple.(*ssa.Lookup); isLk {
					first = call
					return
				}
				// ... or handed back by a helper of the package that does the table lookup (builtInInverse)
				if hc, ok := ex.Tuple.(*ssa.Call); ok {
					if h := hc.Call.StaticCallee(); h != nil && h.Pkg == cand.Pkg && looksUpStringTable(h) {
						first = call
						return
					}
				}
			}
			// fallback: boolean index argument is a fresh NewBool
			if bc, ok := call.Call.Args[3].(*ssa.Call); ok {
				if callee := bc.Call.StaticCallee(); callee != nil && callee.Name() == "NewBool" {
					second = call
				}
			}
		})
	}
	if first == nil || second == nil {
		c.undecided(fnm+"|inverse shortcut", p.pos(fn.Pos()), "the built-in inverse call / the generic complement call was not found")
		return
	}
	for _, failed := range []bool{false, true} {
		key := fmt.Sprintf("%s|built-in inverse failed=%v", fnm, failed)
		pe := &pathExec{fn: fn, start: first.Block()}
		pe.oracle = func(pe *pathExec, cond ssa.Value) (bool, bool) {
			return pe.evalBool(cond, func(x ssa.Value) (bool, bool) {
				b, ok := x.(*ssa.BinOp)
				if !ok {
					return false, false
				}
				if pe.resolve(b.X) == ssa.Value(first) {
					if cst, ok := b.Y.(*ssa.Const); ok && cst.IsNil() {
						return (b.Op == token.NEQ) == failed, true
					}
				}
				return false, false
			})
		}
		pe.stopAt = func(b *ssa.BasicBlock) bool { return b == second.Block() }
		pe.run()
		ran := pe.stopped == second.Block()
		if !ran {
			for _, cl := range pe.calls {
				if cl == second {
					ran = true
				}
			}
		}
		switch {
		case ran == failed:
			c.ok(key, p.instrPos(first), fmt.Sprintf("generic complement runs: %v", ran))
		case !failed:
			// computing the complement on top of a successful inverse sets the same bits again: slower, not wrong
			c.ok(key, p.instrPos(first), "generic complement also runs after a successful inverse (same bits, OR-accumulated)")
		case failed:
			c.bad(key, p.instrPos(first), "the built-in inverse returned an error but the generic complement is not computed: the filter fails (or selects nothing) although its complement is well defined")
		default:
			c.bad(key, p.instrPos(first), "the built-in inverse succeeded and the generic complement is computed on top of it")
		}
	}
}

// ---- R109: functions that report success by a trailing bool, and their callers ----

func init() {
	register(&Rule{ID: "R109", Name: "OK-PRODUCER", Floor: 3,
		Text: "a module function is an ok-producer when its last result is a bool and it has both a return of (nil/zero, false) and a return of (a value built in the function, true). For every ok-producer in the column packages and the root package: (a) every return pairs a nil or zero first result with the constant false and a built value with the constant true (a failure is not reported as success and vice versa); (b) at every call whose ok result is branched on, the value result is used only on the ok==true side (R84's discipline for lookups, applied to these calls). The value-list conversions of the `in` filter are of this shape: a list with unsupported elements must be an error, not an empty set",
		Run:  runR109})
}

func runR109(c *Ctx) {
	p := c.P
	scope := map[string]bool{rel(""): true}
	for _, cp := range columnPkgs {
		scope[rel(cp)] = true
	}
	producers := map[*ssa.Function]bool{}
	type retInfo struct {
		ret   *ssa.Return
		isNil bool
		built bool
		flag  int // 1 true, 0 false, -1 not constant
	}
	infos := map[*ssa.Function][]retInfo{}
	for _, fn := range p.Funcs {
		if fn.Pkg == nil || !scope[fn.Pkg.Pkg.Path()] || fn.Parent() != nil {
			continue
		}
		res := fn.Signature.Results()
		if res.Len() != 2 {
			continue
		}
		if b, ok := res.At(1).Type().Underlying().(*types.Basic); !ok || b.Kind() != types.Bool {
			continue
		}
		switch res.At(0).Type().Underlying().(type) {
		case *types.Slice, *types.Map, *types.Pointer, *types.Interface:
		default:
			continue
		}
		var rs []retInfo
		eachInstr(fn, func(in ssa.Instruction) {
			ret, ok := in.(*ssa.Return)
			if !ok || len(ret.Results) != 2 {
				return
			}
			ri := retInfo{ret: ret, flag: -1}
			if cst, ok := ret.Results[0].(*ssa.Const); ok && cst.IsNil() {
				ri.isNil = true
			} else if freshSlice(ret.Results[0], map[ssa.Value]bool{}) {
				ri.built = true
			} else if mm, ok := ret.Results[0].(*ssa.MakeMap); ok && mm != nil {
				ri.built = true
			}
			if isConstBool(ret.Results[1], true) {
				ri.flag = 1
			} else if isConstBool(ret.Results[1], false) {
				ri.flag = 0
			}
			rs = append(rs, ri)
		})
		nilRet, builtRet := false, false
		for _, r := range rs {
			if r.isNil {
				nilRet = true
			}
			if r.built {
				builtRet = true
			}
		}
		if nilRet && builtRet {
			producers[fn] = true
			infos[fn] = rs
		}
	}
	for fn, rs := range infos {
		fnm := fname(fn)
		for _, r := range rs {
			key := fnm + "|return"
			switch {
			case r.isNil && r.flag == 1:
				c.bad(key, p.instrPos(r.ret), "a nil result is returned with ok = true: the caller takes the failure for an (empty) success")
			case r.built && r.flag == 0:
				c.bad(key, p.instrPos(r.ret), "the built result is returned with ok = false: the caller rejects a valid input")
			case r.isNil || r.built:
				c.ok(key, p.instrPos(r.ret), "result and ok flag agree")
			}
		}
	}
	// (b) callers
	for _, fn := range p.Funcs {
		if fn.Pkg == nil || !scope[fn.Pkg.Pkg.Path()] {
			continue
		}
		fnm := fname(fn)
		eachInstr(fn, func(in ssa.Instruction) {
			call, ok := in.(*ssa.Call)
			if !ok {
				return
			}
			callee := call.Call.StaticCallee()
			if callee == nil || !producers[callee] {
				return
			}
			var val, okv *ssa.Extract
			for _, r := range *call.Referrers() {
				if ex, ok := r.(*ssa.Extract); ok {
					if ex.Index == 0 {
						val = ex
					} else {
						okv = ex
					}
				}
			}
			if val == nil || okv == nil {
				return
			}
			var trueEdges [][2]*ssa.BasicBlock
			for _, r := range *okv.Referrers() {
				if iff, ok := r.(*ssa.If); ok {
					trueEdges = append(trueEdges, [2]*ssa.BasicBlock{iff.Block(), iff.Block().Succs[0]})
				}
				if u, ok := r.(*ssa.UnOp); ok && u.Op == token.NOT {
					for _, r2 := range *u.Referrers() {
						if iff, ok := r2.(*ssa.If); ok {
							trueEdges = append(trueEdges, [2]*ssa.BasicBlock{iff.Block(), iff.Block().Succs[1]})
						}
					}
				}
			}
			if len(trueEdges) == 0 {
				return
			}
			key := fnm + "|call of " + fname(callee)
			bad := ""
			for _, r := range *val.Referrers() {
				if _, isDbg := r.(*ssa.DebugRef); isDbg {
					continue
				}
				if _, isRet := r.(*ssa.Return); isRet {
					continue // forwarded together with ok
				}
				under := false
				for _, e := range trueEdges {
					si := 0
					if e[0].Succs[1] == e[1] {
						si = 1
					}
					if edgeDominates(e[0], si, r.Block()) {
						under = true
					}
				}
				if phi, isPhi := r.(*ssa.Phi); isPhi {
					for i, e := range phi.Edges {
						if e == ssa.Value(val) {
							pred := phi.Block().Preds[i]
							for _, te := range trueEdges {
								si := 0
								if te[0].Succs[1] == te[1] {
									si = 1
								}
								if edgeDominates(te[0], si, pred) || pred == te[0] && phi.Block() == te[1] {
									under = true
								}
							}
						}
					}
				}
				if !under {
					bad = p.instrPos(r)
				}
			}
			if bad == "" {
				c.ok(key, p.instrPos(call), "the value is used only where ok holds")
			} else {
				c.bad(key, p.instrPos(call), "the value returned by "+fname(callee)+" is used at "+bad+" although its ok result is not known to be true there")
			}
		})
	}
}

// ---- R111: which column names are refused as quoted ----

func init() {
	register(&Rule{ID: "R111", Name: "QUOTED-NAME", Floor: 18,
		Text: "strings.isQuoted is evaluated (E5) over the 20 worlds of (len(s) > 2, the first byte is ' / \" / something else, the last byte likewise, two other bytes equal or not; prefix/suffix tests and direct byte comparisons are both understood): it is true exactly for names longer than two bytes that carry the same quote character at both ends. CheckName refuses exactly those (plus empty names and a leading $), so a legal name such as `ab'` or `''` is never rejected and a quoted one never accepted",
		Run:  runR111})
	register(&Rule{ID: "R113", Name: "LIST-NORMALISED", Floor: 2,
		Text: "in the column packages, wherever a comparatee is matched against the type []string (the value list of `in`), the value switched on is the result of strings.InterfaceSliceToStringSlice applied to the comparatee: a list written as []interface{}{\"a\", \"b\"} (the form JSON-decoded filters arrive in) is accepted by string and enum columns alike",
		Run:  runR113})
}

func runR111(c *Ctx) {
	p := c.P
	fn := p.anchorIsQuoted()
	if fn == nil || len(fn.Params) != 1 {
		c.undecided("internal/strings.isQuoted", "-", "not found")
		return
	}
	sP := fn.Params[0]
	classes := []string{"'", `"`, "x"} // first / last byte: single quote, double quote, anything else
	for _, long := range []bool{false, true} {
		for _, F := range classes {
			for _, L := range classes {
				for _, eqOther := range []bool{false, true} {
					if !(F == "x" && L == "x") && eqOther {
						continue
					}
					key := fmt.Sprintf("internal/strings.isQuoted|world long=%v first=%s last=%s otherBytesEqual=%v", long, F, L, eqOther)
					pe := &pathExec{fn: fn}
					odd := ""
					// which end a byte value was read from
					endOf := func(v ssa.Value) string {
						v = pe.resolve(v)
						idx, ok := v.(*ssa.Index)
						if !ok || pe.resolve(idx.X) != ssa.Value(sP) {
							return ""
						}
						if k, isK := constInt(idx.Index); isK && k == 0 {
							return "F"
						}
						if sub, ok := idx.Index.(*ssa.BinOp); ok && sub.Op == token.SUB {
							if k, isK := constInt(sub.Y); isK && k == 1 {
								if lc, ok := sub.X.(*ssa.Call); ok && builtinName(lc) == "len" {
									return "L"
								}
							}
						}
						return ""
					}
					classOf := func(end string) string {
						if end == "F" {
							return F
						}
						return L
					}
					atom := func(x ssa.Value) (bool, bool) {
						switch t := x.(type) {
						case *ssa.BinOp:
							if call, ok := t.X.(*ssa.Call); ok && builtinName(call) == "len" {
								k, isK := constInt(t.Y)
								switch {
								case isK && k == 2 && t.Op == token.GTR, isK && k == 3 && t.Op == token.GEQ:
									return long, true
								case isK && k == 2 && t.Op == token.LEQ, isK && k == 3 && t.Op == token.LSS:
									return !long, true
								}
								odd = fmt.Sprintf("the length is tested as `len(s) %s %s`, not `len(s) > 2`", t.Op, describe(t.Y))
								return false, false
							}
							if t.Op != token.EQL && t.Op != token.NEQ {
								return false, false
							}
							ex, ey := endOf(t.X), endOf(t.Y)
							var eq, known bool
							switch {
							case ex != "" && ey != "":
								cx, cy := classOf(ex), classOf(ey)
								if cx == "x" && cy == "x" {
									eq, known = eqOther || ex == ey, true
								} else {
									eq, known = cx == cy, true
								}
							case ex != "":
								if k, isK := constInt(t.Y); isK {
									eq, known = classOf(ex) == string(rune(k)), true
								}
							case ey != "":
								if k, isK := constInt(t.X); isK {
									eq, known = classOf(ey) == string(rune(k)), true
								}
							}
							if known {
								return eq == (t.Op == token.EQL), true
							}
						case *ssa.Call:
							o := calleeObj(t)
							isP, isS := isFuncNamed(o, "strings", "", "HasPrefix"), isFuncNamed(o, "strings", "", "HasSuffix")
							if isP || isS {
								q, ok := constString(t.Call.Args[1])
								if !ok || len(q) != 1 {
									return false, false
								}
								if isP {
									return F == q, true
								}
								return L == q, true
							}
						}
						return false, false
					}
					pe.oracle = func(pe *pathExec, cond ssa.Value) (bool, bool) { return pe.evalBool(cond, atom) }
					end, why := pe.run()
					ret, ok := end.(*ssa.Return)
					if !ok {
						if odd != "" {
							c.bad(key, p.pos(fn.Pos()), odd)
						} else {
							c.undecided(key, p.pos(fn.Pos()), "cannot evaluate: "+why)
						}
						continue
					}
					got, known := pe.evalBool(ret.Results[0], atom)
					want := long && F == L && F != "x"
					switch {
					case odd != "":
						c.bad(key, p.instrPos(ret), odd)
					case !known:
						c.undecided(key, p.instrPos(ret), "result not decided by the world")
					case got == want:
						c.okTrivial(key, p.instrPos(ret), fmt.Sprintf("returns %v", got))
					default:
						c.bad(key, p.instrPos(ret), fmt.Sprintf("returns %v; a name is quoted exactly when it is longer than two bytes and starts and ends with the same quote character", got))
					}
				}
			}
		}
	}
}

func runR113(c *Ctx) {
	p := c.P
	for _, cp := range columnPkgs {
		for _, fn := range p.FuncsIn(cp) {
			eachInstr(fn, func(in ssa.Instruction) {
				ta, ok := in.(*ssa.TypeAssert)
				if !ok {
					return
				}
				sl, ok := ta.AssertedType.Underlying().(*types.Slice)
				if !ok {
					return
				}
				if b, ok := sl.Elem().Underlying().(*types.Basic); !ok || b.Kind() != types.String {
					return
				}
				key := fname(fn) + "|value list"
				call, ok := rootValue(ta.X).(*ssa.Call)
				if ok && isFuncNamed(calleeObj(call), rel("internal/strings"), "", "InterfaceSliceToStringSlice") {
					c.ok(key, p.instrPos(ta), "the comparatee is normalised before it is matched against []string")
				} else {
					c.bad(key, p.instrPos(ta), "the comparatee is matched against []string without passing through InterfaceSliceToStringSlice: a []interface{} list of strings is rejected by this column type while the others accept it")
				}
			})
		}
	}
}

// ---- R112: decimal rounding to a precision, by definition ----

func init() {
	register(&Rule{ID: "R112", Name: "FIXED-DEF", Floor: 2,
		Text: "internal/math/float.Fixed(x, p) is round(x * 10^p) / 10^p: the scale is math.Pow with base the constant 10 and exponent the precision, the value is multiplied by the scale before rounding and divided by the same scale after; rounding is to the nearest integer with halves away from zero - either math.Round or the module's Round, which is int(x + math.Copysign(0.5, x)). ReadSQL's Precision option relies on it",
		Run:  runR112})
}

func runR112(c *Ctx) {
	p := c.P
	fixed := p.Func("internal/math/float", "Fixed")
	if fixed == nil || len(fixed.Params) != 2 {
		c.undecided("internal/math/float.Fixed", "-", "not found")
		return
	}
	strip := func(v ssa.Value) ssa.Value {
		for {
			cv, ok := v.(*ssa.Convert)
			if !ok {
				return v
			}
			v = cv.X
		}
	}
	isCallTo := func(v ssa.Value, pkg, name string) *ssa.Call {
		call, ok := strip(v).(*ssa.Call)
		if ok && isFuncNamed(calleeObj(call), pkg, "", name) {
			return call
		}
		return nil
	}
	key := "internal/math/float.Fixed|definition"
	var ret *ssa.Return
	eachInstr(fixed, func(in ssa.Instruction) {
		if r, ok := in.(*ssa.Return); ok {
			ret = r
		}
	})
	bad := ""
	var roundFn *ssa.Function
	func() {
		div, ok := strip(ret.Results[0]).(*ssa.BinOp)
		if !ok || div.Op != token.QUO {
			bad = "the result is not a quotient"
			return
		}
		scale := isCallTo(div.Y, "math", "Pow")
		if scale == nil {
			bad = "the divisor is not the scale math.Pow(10, precision)"
			return
		}
		if f, ok := scale.Call.Args[0].(*ssa.Const); !ok || f.Value == nil || f.Value.ExactString() != "10" {
			bad = "the base of the scale is " + describe(scale.Call.Args[0]) + ", not 10"
			return
		}
		if strip(scale.Call.Args[1]) != ssa.Value(fixed.Params[1]) {
			bad = "the exponent of the scale is not the precision"
			return
		}
		// numerator: round(x * scale)
		num := strip(div.X)
		var arg ssa.Value
		if call, ok := num.(*ssa.Call); ok {
			if isFuncNamed(calleeObj(call), "math", "", "Round") {
				arg = call.Call.Args[0]
			} else if callee := call.Call.StaticCallee(); callee != nil && callee.Pkg == fixed.Pkg {
				roundFn = callee
				arg = call.Call.Args[0]
			}
		}
		if arg == nil {
			bad = "the dividend is not the rounded product"
			return
		}
		mul, ok := strip(arg).(*ssa.BinOp)
		if !ok || mul.Op != token.MUL {
			bad = "the value is not multiplied by the scale before rounding (" + describe(arg) + ")"
			return
		}
		x, y := strip(mul.X), strip(mul.Y)
		if !(x == ssa.Value(fixed.Params[0]) && y == ssa.Value(scale) || y == ssa.Value(fixed.Params[0]) && x == ssa.Value(scale)) {
			bad = "the product is not value * scale"
		}
	}()
	if bad == "" {
		c.ok(key, p.instrPos(ret), "round(x * 10^p) / 10^p")
	} else {
		c.bad(key, p.instrPos(ret), bad)
	}
	if roundFn != nil {
		key := fname(roundFn) + "|definition"
		prm := ssa.Value(roundFn.Params[0])
		isHalf := func(v ssa.Value, neg bool) bool {
			f, ok := v.(*ssa.Const)
			if !ok || f.Value == nil {
				return false
			}
			if neg {
				return f.Value.ExactString() == "-1/2"
			}
			return f.Value.ExactString() == "1/2"
		}
		// signKnown: the sign of the argument on entry to block b: +1 (n >= 0 or n > 0), -1 (n <= 0, n < 0 or the
		// sign bit set), 0 unknown. At n == 0 both directions give int(+-0.5) == 0, so the weak forms suffice.
		signKnown := func(b *ssa.BasicBlock) int {
			for _, g := range dominatingGuards(b) {
				cond, val := unNot(g.Cond, g.Val)
				if cs := isCallTo(cond, "math", "Signbit"); cs != nil && strip(cs.Call.Args[0]) == prm {
					if val {
						return -1
					}
					return 1
				}
				cmp, ok := cond.(*ssa.BinOp)
				if !ok {
					continue
				}
				op, x, y := cmp.Op, strip(cmp.X), strip(cmp.Y)
				if y == prm {
					x, y = y, x
					switch op {
					case token.LSS:
						op = token.GTR
					case token.GTR:
						op = token.LSS
					case token.LEQ:
						op = token.GEQ
					case token.GEQ:
						op = token.LEQ
					}
				}
				zero, isC := y.(*ssa.Const)
				if x != prm || !isC || zero.Value == nil || zero.Value.ExactString() != "0" {
					continue
				}
				switch op {
				case token.LSS, token.LEQ:
					if val {
						return -1
					}
					return 1
				case token.GTR, token.GEQ:
					if val {
						return 1
					}
					return -1
				}
			}
			return 0
		}
		var r *ssa.Return
		okDef, n := true, 0
		eachInstr(roundFn, func(in ssa.Instruction) {
			x, ok := in.(*ssa.Return)
			if !ok {
				return
			}
			r = x
			n++
			one := false
			if bo, ok := strip(x.Results[0]).(*ssa.BinOp); ok && (bo.Op == token.ADD || bo.Op == token.SUB) {
				for _, pair := range [][2]ssa.Value{{bo.X, bo.Y}, {bo.Y, bo.X}} {
					if strip(pair[0]) != prm || (bo.Op == token.SUB && pair[0] != bo.X) {
						continue
					}
					if cs := isCallTo(pair[1], "math", "Copysign"); cs != nil && bo.Op == token.ADD {
						if isHalf(cs.Call.Args[0], false) && strip(cs.Call.Args[1]) == prm {
							one = true
						}
					}
					// the branch form: n + 0.5 where n is not negative, n - 0.5 where it is not positive
					dir := 0
					switch {
					case bo.Op == token.ADD && isHalf(pair[1], false), bo.Op == token.SUB && isHalf(pair[1], true):
						dir = 1
					case bo.Op == token.SUB && isHalf(pair[1], false), bo.Op == token.ADD && isHalf(pair[1], true):
						dir = -1
					}
					if dir != 0 && signKnown(x.Block()) == dir {
						one = true
					}
				}
			}
			if !one {
				okDef = false
			}
		})
		if okDef && n > 0 {
			c.ok(key, p.instrPos(r), "int(x + copysign(0.5, x)), or int(x + 0.5) / int(x - 0.5) chosen by the sign of x: nearest integer, halves away from zero")
		} else {
			c.bad(key, p.instrPos(r), "the rounding helper is not int(x + math.Copysign(0.5, x)) ("+describe(r.Results[0])+"): values are rounded in the wrong direction")
		}
	}
}

// optionEffects: the constant configuration fields an option constructor sets, directly in its closure or by
// applying / returning other option constructors (argConsts: constant arguments bound to fn's parameters).
func optionEffects(fn *ssa.Function, argConsts map[int]int64, depth int) map[string]int64 {
	out := map[string]int64{}
	if depth > 3 {
		return out
	}
	constOfArg := func(v ssa.Value, owner *ssa.Function, fv map[*ssa.FreeVar]int) (int64, bool) {
		if k, ok := constInt(v); ok {
			return k, true
		}
		if isConstBool(v, true) {
			return 1, true
		}
		if isConstBool(v, false) {
			return 0, true
		}
		// a parameter of the constructor (directly, or captured by the closure)
		var idx = -1
		switch t := v.(type) {
		case *ssa.Parameter:
			for i, prm := range owner.Params {
				if prm == t {
					idx = i
				}
			}
		case *ssa.UnOp:
			if f, ok := t.X.(*ssa.FreeVar); ok {
				if i, ok := fv[f]; ok {
					idx = i
				}
			}
		case *ssa.FreeVar:
			if i, ok := fv[t]; ok {
				idx = i
			}
		}
		if idx >= 0 {
			k, ok := argConsts[idx]
			return k, ok
		}
		return 0, false
	}
	scan := func(f *ssa.Function, owner *ssa.Function, fv map[*ssa.FreeVar]int) {
		eachInstr(f, func(in ssa.Instruction) {
			switch t := in.(type) {
			case *ssa.Store:
				if fa, ok := t.Addr.(*ssa.FieldAddr); ok {
					if k, ok := constOfArg(t.Val, owner, fv); ok {
						out[fieldNameAt(fa)] = k
					}
				}
			case *ssa.Call:
				// OtherOption(args) - applied to the config or returned
				callee := t.Call.StaticCallee()
				if callee != nil && isOptionFuncType(t.Type()) && callee != fn {
					ac := map[int]int64{}
					for i, a := range t.Call.Args {
						if k, ok := constOfArg(a, owner, fv); ok {
							ac[i] = k
						}
					}
					for k, v := range optionEffects(callee, ac, depth+1) {
						out[k] = v
					}
				}
			}
		})
	}
	scan(fn, fn, nil)
	for _, cl := range fn.AnonFuncs {
		fv := map[*ssa.FreeVar]int{}
		eachInstr(fn, func(in ssa.Instruction) {
			mc, ok := in.(*ssa.MakeClosure)
			if !ok || mc.Fn != ssa.Value(cl) {
				return
			}
			for bi, b := range mc.Bindings {
				for pi, prm := range fn.Params {
					if b == ssa.Value(prm) || isAllocOfParam(b, prm) {
						fv[cl.FreeVars[bi]] = pi
					}
				}
			}
		})
		scan(cl, fn, fv)
	}
	return out
}

// alwaysError: every return of fn hands back a freshly constructed error (qerrors.New / Propagate, or another
// such helper): an error-message helper, never nil.
func alwaysError(fn *ssa.Function, d int) bool {
	if fn == nil || fn.Blocks == nil || d > 2 || fn.Signature.Results().Len() != 1 || !isErrorType(fn.Signature.Results().At(0).Type()) {
		return false
	}
	all, n := true, 0
	eachInstr(fn, func(in ssa.Instruction) {
		ret, ok := in.(*ssa.Return)
		if !ok {
			return
		}
		n++
		v := ret.Results[0]
		if mi, ok := v.(*ssa.MakeInterface); ok {
			v = mi.X
		}
		call, ok := v.(*ssa.Call)
		if !ok {
			all = false
			return
		}
		if o := calleeObj(call); o != nil && o.Pkg() != nil && o.Pkg().Path() == rel("qerrors") {
			return
		}
		if !alwaysError(call.Call.StaticCallee(), d+1) {
			all = false
		}
	})
	return all && n > 0
}

// r94StrictTravels (clause c): a Column literal that takes over the values table of an existing column takes
// over that column's strict flag as well. The table and the flag belong together: a column derived from a
// declared enum (Subset for GroupBy/Aggregate results) that silently becomes non-strict accepts undeclared
// filter constants that its source rejects.
func r94StrictTravels(c *Ctx) {
	p := c.P
	col := p.Named("internal/ecolumn", "Column")
	if col == nil {
		return
	}
	st, ok := col.Underlying().(*types.Struct)
	if !ok {
		return
	}
	fieldIdx := func(name string) int {
		for i := 0; i < st.NumFields(); i++ {
			if st.Field(i).Name() == name {
				return i
			}
		}
		return -1
	}
	vi, si := fieldIdx("values"), fieldIdx("strict")
	if vi < 0 || si < 0 {
		c.undecided("internal/ecolumn.Column|fields", "-", "values / strict fields not found")
		return
	}
	isCol := func(t types.Type) bool {
		n, ok := deref(t).(*types.Named)
		return ok && n.Obj() == col.Obj()
	}
	// source column of a field load x.values / x.strict
	srcOf := func(v ssa.Value, idx int) (ssa.Value, bool) {
		switch t := v.(type) {
		case *ssa.Field:
			if t.Field == idx && isCol(t.X.Type()) {
				return t.X, true
			}
		case *ssa.UnOp:
			if fa, ok := t.X.(*ssa.FieldAddr); ok && t.Op == token.MUL && fa.Field == idx && isCol(fa.X.Type()) {
				return fa.X, true
			}
		}
		return nil, false
	}
	for _, fn := range p.FuncsIn("internal/ecolumn") {
		eachInstr(fn, func(in ssa.Instruction) {
			al, ok := in.(*ssa.Alloc)
			if !ok || !isCol(al.Type()) {
				return
			}
			var valuesSrc, strictSrc ssa.Value
			hasStrictStore := false
			for _, r := range *al.Referrers() {
				fa, ok := r.(*ssa.FieldAddr)
				if !ok {
					continue
				}
				for _, r2 := range *fa.Referrers() {
					s2, ok := r2.(*ssa.Store)
					if !ok || s2.Addr != ssa.Value(fa) {
						continue
					}
					if fa.Field == vi {
						if src, ok := srcOf(s2.Val, vi); ok {
							valuesSrc = src
						}
					}
					if fa.Field == si {
						hasStrictStore = true
						if src, ok := srcOf(s2.Val, si); ok {
							strictSrc = src
						}
					}
				}
			}
			if valuesSrc == nil {
				return
			}
			key := fname(fn) + "|strict flag travels with the values table"
			switch {
			case strictSrc != nil && accessPath(strictSrc) == accessPath(valuesSrc):
				c.ok(key, p.instrPos(al), "values and strict are taken from the same column")
			case hasStrictStore:
				c.bad(key, p.instrPos(al), "the column takes its values table from one column and its strict flag from somewhere else")
			default:
				c.bad(key, p.instrPos(al), "the column takes over the values table of an existing column but not its strict flag: the derived column is not strict, so a filter constant outside the declared values is accepted where the source column reports an error")
			}
		})
	}
}
