package main

import (
	"fmt"
	"go/constant"
	"go/token"
	"go/types"

	"golang.org/x/tools/go/ssa"
)

// Engine E5: finite-domain evaluation of small decision functions. A branch oracle decides every
// branch condition from a valuation of finitely many predicates; the executor follows the unique
// path, resolving phis by the edge taken and loads of local cells by the last store on the path.

type pathExec struct {
	fn        *ssa.Function
	oracle    func(pe *pathExec, cond ssa.Value) (val bool, known bool)
	phi       map[*ssa.Phi]ssa.Value
	mem       map[string]ssa.Value     // local memory: alloc/field cell -> last stored value on this path
	vals      map[ssa.Value]ssa.Value  // loads evaluated at their execution point
	ints      map[*ssa.Phi]int64       // integer phis folded to constants on this path
	pints     map[*ssa.Parameter]int64 // integer parameters of inlined callees, folded at the call
	lenOf     func(call *ssa.Call) (int64, bool)
	intHook   func(v ssa.Value) (int64, bool)                  // optional: concrete integer value of a parameter / call result
	inline    func(callee *ssa.Function) bool                  // optional: static module callees to execute in place
	dynCallee func(pe *pathExec, call *ssa.Call) *ssa.Function // optional: the callee of a dynamic call (a table of functions)
	tup       map[*ssa.Call][]ssa.Value                        // results of inlined multi-result calls
	start     *ssa.BasicBlock                                  // optional: begin here instead of the entry block
	stopAt    func(b *ssa.BasicBlock) bool                     // optional: stop (successfully) when about to enter such a block
	stopped   *ssa.BasicBlock
	path      []*ssa.BasicBlock
	calls     []*ssa.Call // calls executed on the path, in order
	maxStep   int
	visits    map[*ssa.BasicBlock]int
	onInstr   func(pe *pathExec, in ssa.Instruction)
	// optional: boolean results of an inlined callee are evaluated when it returns (while its parameters are still
	// bound to this call's arguments) and replaced by the constant - a helper entered twice shares its SSA values
	evalBoolResult func(v ssa.Value) (bool, bool)
}

func cellKey(addr ssa.Value) (string, bool) {
	switch t := addr.(type) {
	case *ssa.Alloc:
		return fmt.Sprintf("%p", t), true
	case *ssa.FieldAddr:
		if k, ok := cellKey(t.X); ok {
			return fmt.Sprintf("%s.%d", k, t.Field), true
		}
	case *ssa.IndexAddr:
		if k, ok := cellKey(t.X); ok {
			if c, isC := constInt(t.Index); isC {
				return fmt.Sprintf("%s[%d]", k, c), true
			}
		}
	}
	return "", false
}

// resolve follows phis chosen on this path and loads from local cells written on this path.
func (pe *pathExec) resolve(v ssa.Value) ssa.Value {
	for i := 0; i < 50; i++ {
		switch t := v.(type) {
		case *ssa.Parameter:
			if c, ok := pe.vals[t]; ok && c != v {
				v = c
				continue
			}
			return v
		case *ssa.Call:
			if c, ok := pe.vals[t]; ok && c != v {
				v = c
				continue
			}
			return v
		case *ssa.Extract:
			if call, ok := t.Tuple.(*ssa.Call); ok {
				if rs, ok := pe.tup[call]; ok && t.Index < len(rs) {
					v = rs[t.Index]
					continue
				}
			}
			return v
		case *ssa.Phi:
			if c, ok := pe.phi[t]; ok {
				v = c
				continue
			}
			return v
		case *ssa.UnOp:
			if t.Op == token.MUL {
				if s, ok := pe.vals[t]; ok {
					v = s
					continue
				}
				if k, ok := cellKey(t.X); ok {
					if s, ok := pe.mem[k]; ok {
						v = s
						continue
					}
				}
			}
			return v
		case *ssa.Field:
			// field of a struct value loaded from a local cell: look up the field cell
			if ld, ok := t.X.(*ssa.UnOp); ok && ld.Op == token.MUL {
				if k, ok := cellKey(ld.X); ok {
					if s, ok := pe.mem[fmt.Sprintf("%s.%d", k, t.Field)]; ok {
						v = s
						continue
					}
				}
			}
			return v
		case *ssa.ChangeType:
			v = t.X
			continue
		default:
			return v
		}
	}
	return v
}

// run executes from the entry block until a Return (or Panic); returns nil if a condition is unknown.
func (pe *pathExec) run() (ssa.Instruction, string) {
	if pe.maxStep == 0 {
		pe.maxStep = 400
	}
	pe.phi, pe.mem, pe.visits = map[*ssa.Phi]ssa.Value{}, map[string]ssa.Value{}, map[*ssa.BasicBlock]int{}
	pe.vals = map[ssa.Value]ssa.Value{}
	pe.ints = map[*ssa.Phi]int64{}
	pe.pints = map[*ssa.Parameter]int64{}
	pe.tup = map[*ssa.Call][]ssa.Value{}
	return pe.exec(pe.fn, pe.start, 0)
}

// exec runs fn from start (nil = entry) until it returns; inlined callees recurse.
func (pe *pathExec) exec(fn *ssa.Function, start *ssa.BasicBlock, depth int) (ssa.Instruction, string) {
	var prev *ssa.BasicBlock
	b := fn.Blocks[0]
	if start != nil {
		b = start
	}
	for step := 0; step < pe.maxStep; step++ {
		if step > 0 && pe.stopAt != nil && pe.stopAt(b) {
			pe.stopped = b
			return nil, ""
		}
		pe.path = append(pe.path, b)
		pe.visits[b]++
		// phis first, simultaneously
		if prev != nil {
			idx := -1
			for i, p := range b.Preds {
				if p == prev {
					idx = i
				}
			}
			newPhi := map[*ssa.Phi]ssa.Value{}
			newInt := map[*ssa.Phi]int64{}
			for _, in := range b.Instrs {
				phi, ok := in.(*ssa.Phi)
				if !ok {
					break
				}
				if idx >= 0 {
					if k, ok := pe.intOf(phi.Edges[idx], 0); ok {
						newInt[phi] = k
					}
					newPhi[phi] = pe.resolve(phi.Edges[idx])
				}
			}
			for k, v := range newPhi {
				pe.phi[k] = v
				delete(pe.ints, k)
			}
			for k, v := range newInt {
				pe.ints[k] = v
			}
		}
		for _, in := range b.Instrs {
			if pe.onInstr != nil {
				pe.onInstr(pe, in)
			}
			switch t := in.(type) {
			case *ssa.UnOp:
				if t.Op == token.MUL {
					delete(pe.vals, t)
					if k, ok := cellKey(t.X); ok {
						if s, ok := pe.mem[k]; ok {
							pe.vals[t] = s
						}
					}
				}
			case *ssa.Store:
				if k, ok := cellKey(t.Addr); ok {
					val := pe.resolve(t.Val)
					pe.mem[k] = val
					// whole-struct store of a loaded struct: copy its known field cells
					if ld, isLd := t.Val.(*ssa.UnOp); isLd && ld.Op == token.MUL {
						if sk, ok := cellKey(ld.X); ok {
							for mk, mv := range pe.mem {
								if len(mk) > len(sk) && mk[:len(sk)] == sk && mk[len(sk)] == '.' {
									pe.mem[k+mk[len(sk):]] = mv
								}
							}
						}
					}
				}
			case *ssa.Call:
				pe.calls = append(pe.calls, t)
				callee := t.Call.StaticCallee()
				if callee == nil && pe.dynCallee != nil {
					callee = pe.dynCallee(pe, t)
				}
				if callee != nil && callee.Blocks != nil && pe.inline != nil && depth < 3 && callee != fn && pe.inline(callee) {
					args := t.Call.Args
					if len(args) == len(callee.Params) {
						for i, prm := range callee.Params {
							// fold integer arguments now: a symbolic `i+1` would be re-evaluated later against a newer i
							if k, ok := pe.intOf(args[i], 0); ok {
								pe.pints[prm] = k
							} else {
								delete(pe.pints, prm)
							}
							pe.vals[prm] = pe.resolve(args[i])
						}
						end, why := pe.exec(callee, nil, depth+1)
						switch r := end.(type) {
						case *ssa.Return:
							freeze := func(x ssa.Value) ssa.Value {
								x = pe.resolve(x)
								if pe.evalBoolResult != nil {
									if bt, ok := x.Type().Underlying().(*types.Basic); ok && bt.Kind() == types.Bool {
										if b, known := pe.evalBoolResult(x); known {
											return ssa.NewConst(constant.MakeBool(b), types.Typ[types.Bool])
										}
									}
								}
								return x
							}
							if len(r.Results) == 1 {
								pe.vals[t] = freeze(r.Results[0])
							} else {
								var rs []ssa.Value
								for _, x := range r.Results {
									rs = append(rs, freeze(x))
								}
								pe.tup[t] = rs
							}
						case *ssa.Panic:
							return end, ""
						default:
							return nil, "in " + callee.Name() + ": " + why
						}
					}
				}
			case *ssa.Return, *ssa.Panic:
				return in, ""
			case *ssa.Jump:
				prev, b = b, b.Succs[0]
			case *ssa.If:
				val, known := pe.oracle(pe, t.Cond)
				if !known {
					return nil, fmt.Sprintf("branch condition not decidable by the oracle: %s = %s (%s)", t.Cond.Name(), t.Cond.String(), fn.Prog.Fset.Position(in.Pos()))
				}
				prev = b
				if val {
					b = b.Succs[0]
				} else {
					b = b.Succs[1]
				}
			}
		}
	}
	return nil, "step bound exceeded (loop not bounded by the oracle)"
}

// evalBool evaluates simple boolean structure over an atom oracle: !x, constants, phi (resolved).
func (pe *pathExec) evalBool(v ssa.Value, atom func(v ssa.Value) (bool, bool)) (bool, bool) {
	v = pe.resolve(v)
	if isConstBool(v, true) {
		return true, true
	}
	if isConstBool(v, false) {
		return false, true
	}
	if u, ok := v.(*ssa.UnOp); ok && u.Op == token.NOT {
		x, k := pe.evalBool(u.X, atom)
		return !x, k
	}
	return atom(v)
}

func fieldNameOfLoad(v ssa.Value) string {
	if fld, _ := fieldOf(v); fld != nil {
		return fld.Name()
	}
	return ""
}

var _ = types.Typ

// intOf folds an integer expression to a constant on the current path.
func (pe *pathExec) intOf(v ssa.Value, d int) (int64, bool) {
	if d > 20 {
		return 0, false
	}
	if k, ok := constInt(v); ok {
		return k, true
	}
	if pe.intHook != nil {
		if k, ok := pe.intHook(v); ok {
			return k, true
		}
	}
	if prm, ok := v.(*ssa.Parameter); ok {
		if k, ok := pe.pints[prm]; ok {
			return k, true
		}
	}
	if r := pe.resolve(v); r != v {
		if _, isPhi := v.(*ssa.Phi); !isPhi {
			return pe.intOf(r, d+1)
		}
	}
	switch t := v.(type) {
	case *ssa.Phi:
		k, ok := pe.ints[t]
		return k, ok
	case *ssa.BinOp:
		x, ok1 := pe.intOf(t.X, d+1)
		y, ok2 := pe.intOf(t.Y, d+1)
		if ok1 && ok2 {
			switch t.Op {
			case token.ADD:
				return x + y, true
			case token.SUB:
				return x - y, true
			}
		}
	case *ssa.Call:
		if builtinName(t) == "len" && pe.lenOf != nil {
			return pe.lenOf(t)
		}
	case *ssa.Convert:
		return pe.intOf(t.X, d+1)
	}
	return 0, false
}

// globalFuncTable: the functions held by a package-level array (or slice literal) of functions that is filled once,
// by its initialiser, and never written again: index -> function. nil if g is not such a table.
func (p *Prog) globalFuncTable(g *ssa.Global) map[int64]*ssa.Function {
	if p.funcTables == nil {
		p.funcTables = map[*ssa.Global]map[int64]*ssa.Function{}
	}
	if t, ok := p.funcTables[g]; ok {
		return t
	}
	p.funcTables[g] = nil
	var init *ssa.Function
	if g.Pkg != nil {
		init = g.Pkg.Func("init")
	}
	if init == nil {
		return nil
	}
	// every use of g: one whole-value store in init; elsewhere only element reads g[i]
	var whole *ssa.Store
	clean := true
	direct := map[int64]*ssa.Function{}
	seenFn := map[*ssa.Function]bool{}
	scan := func(f *ssa.Function) {
		if seenFn[f] {
			return
		}
		seenFn[f] = true
		eachInstr(f, func(in ssa.Instruction) {
			var ops []*ssa.Value
			for _, op := range in.Operands(ops) {
				if op == nil || *op != ssa.Value(g) {
					continue
				}
				switch t := in.(type) {
				case *ssa.Store:
					if t.Addr == ssa.Value(g) && f == init && (whole == nil || whole == t) {
						whole = t
						continue
					}
					clean = false
				case *ssa.IndexAddr:
					for _, r := range *t.Referrers() {
						// in the initialiser: the literal's elements stored in place
						if st, ok := r.(*ssa.Store); ok && f == init && st.Addr == ssa.Value(t) {
							k, isK := constInt(t.Index)
							fv, isF := st.Val.(*ssa.Function)
							if _, dup := direct[k]; isK && isF && !dup {
								direct[k] = fv
								continue
							}
						}
						if ld, ok := r.(*ssa.UnOp); !ok || ld.Op != token.MUL {
							clean = false
						}
					}
				case *ssa.UnOp:
					// a load of the whole table: its uses are not followed
					clean = false
				default:
					clean = false
				}
			}
		})
	}
	scan(init)
	for _, f := range p.Funcs {
		scan(f)
		for _, af := range f.AnonFuncs {
			scan(af)
		}
	}
	if !clean {
		return nil
	}
	if whole == nil {
		if len(direct) == 0 {
			return nil
		}
		p.funcTables[g] = direct
		return direct
	}
	if len(direct) > 0 {
		return nil
	}
	ld, ok := whole.Val.(*ssa.UnOp)
	if !ok || ld.Op != token.MUL {
		return nil
	}
	local, ok := ld.X.(*ssa.Alloc)
	if !ok {
		return nil
	}
	tab := map[int64]*ssa.Function{}
	for _, r := range *local.Referrers() {
		switch t := r.(type) {
		case *ssa.IndexAddr:
			k, isK := constInt(t.Index)
			if !isK {
				return nil
			}
			for _, r2 := range *t.Referrers() {
				st, ok := r2.(*ssa.Store)
				if !ok || st.Addr != ssa.Value(t) {
					return nil
				}
				f, ok := st.Val.(*ssa.Function)
				if !ok {
					return nil
				}
				if _, dup := tab[k]; dup {
					return nil
				}
				tab[k] = f
			}
		case *ssa.UnOp:
			if t != ld {
				return nil
			}
		default:
			return nil
		}
	}
	p.funcTables[g] = tab
	return tab
}

// tableCallee: the function called by `table[i](...)` where table is a write-once package-level function table
// and i folds to a constant on the current path.
func (pe *pathExec) tableCallee(p *Prog, call *ssa.Call) *ssa.Function {
	ld, ok := call.Call.Value.(*ssa.UnOp)
	if !ok || ld.Op != token.MUL {
		return nil
	}
	ia, ok := ld.X.(*ssa.IndexAddr)
	if !ok {
		return nil
	}
	g, ok := ia.X.(*ssa.Global)
	if !ok {
		return nil
	}
	tab := p.globalFuncTable(g)
	if tab == nil {
		return nil
	}
	k, ok := pe.intOf(ia.Index, 0)
	if !ok {
		return nil
	}
	return tab[k]
}
