package main

import (
	"encoding/json"
	"fmt"
	"os"
	"runtime/debug"
	"sort"
	"strings"
)

type Status string

const (
	Discharged Status = "discharged"
	Violated   Status = "violated"
	Undecided  Status = "undecided"
)

// Obligation is one rule instance: rule + construct. Key never contains a line number.
type Obligation struct {
	Rule    string `json:"rule"`
	Key     string `json:"key"`
	Pos     string `json:"pos"`
	Status  Status `json:"status"`
	Detail  string `json:"detail,omitempty"` // how discharged / what is wrong
	Trivial bool   `json:"-"`
}

// Rule is a repository-specific static rule.
type Rule struct {
	ID    string
	Name  string
	Text  string // the rule, in words (printed in evidence and -explain)
	Floor int    // minimum number of obligations the rule must find on the tree
	Run   func(c *Ctx)
}

// Ctx collects obligations for one rule run.
type Ctx struct {
	P    *Prog
	rule *Rule
	obls []Obligation
	seen map[string]int
	info map[string]interface{} // free-form facts for evidence
}

func (c *Ctx) add(st Status, key, pos, detail string, trivial bool) {
	full := c.rule.ID + "|" + key
	if c.seen == nil {
		c.seen = map[string]int{}
	}
	c.seen[full]++
	if n := c.seen[full]; n > 1 {
		full = fmt.Sprintf("%s#%d", full, n)
	}
	c.obls = append(c.obls, Obligation{Rule: c.rule.ID, Key: full, Pos: pos, Status: st, Detail: detail, Trivial: trivial})
}
func (c *Ctx) ok(key, pos, how string)        { c.add(Discharged, key, pos, how, false) }
func (c *Ctx) okTrivial(key, pos, how string) { c.add(Discharged, key, pos, how, true) }
func (c *Ctx) bad(key, pos, what string)      { c.add(Violated, key, pos, what, false) }
func (c *Ctx) undecided(key, pos, what string) {
	c.add(Undecided, key, pos, what, false)
}
func (c *Ctx) note(k string, v interface{}) {
	if c.info == nil {
		c.info = map[string]interface{}{}
	}
	c.info[k] = v
}

// ---- known findings ----

type knownEntry struct {
	Status       string   `json:"status"` // "known" | "fixed"
	Property     string   `json:"property,omitempty"`
	Properties   []string `json:"properties,omitempty"`
	Key          string   `json:"key,omitempty"`
	What         string   `json:"what"`
	FailingInput string   `json:"failing_input,omitempty"`
	Commit       string   `json:"commit,omitempty"`
	Defect       string   `json:"defect,omitempty"`
}

type knownFile struct {
	Findings []knownEntry `json:"findings"`
}

func loadKnown(path string) (*knownFile, error) {
	b, err := os.ReadFile(path)
	if err != nil {
		if os.IsNotExist(err) {
			return &knownFile{}, nil
		}
		return nil, err
	}
	var k knownFile
	if err := json.Unmarshal(b, &k); err != nil {
		return nil, fmt.Errorf("%s: %v", path, err)
	}
	return &k, nil
}

func (k *knownFile) lookup(prop, key string) *knownEntry {
	for i := range k.Findings {
		e := &k.Findings[i]
		if e.Status != "known" || e.Key != key {
			continue
		}
		if e.Property == prop {
			return e
		}
		for _, p := range e.Properties {
			if p == prop {
				return e
			}
		}
	}
	return nil
}

// ---- rule registry ----

var rules = map[string]*Rule{}

func register(r *Rule) {
	if _, dup := rules[r.ID]; dup {
		panic("duplicate rule " + r.ID)
	}
	rules[r.ID] = r
}

// runRule executes one rule, converting panics into an undecided obligation (analyzer failure fails the run).
// curProg is the program of the rule being run (for helpers that have no Ctx at hand).
var curProg *Prog

func runRule(p *Prog, r *Rule) (obls []Obligation, info map[string]interface{}) {
	c := &Ctx{P: p, rule: r}
	curProg = p
	defer func() {
		if e := recover(); e != nil {
			if os.Getenv("QF_PANIC_TRACE") != "" {
				fmt.Fprintf(os.Stderr, "panic in %s: %v\n%s\n", r.ID, e, debug.Stack())
			}
			c.undecided("analyzer-panic", "-", fmt.Sprintf("analyzer panic: %v", e))
			obls, info = c.obls, c.info
		}
	}()
	r.Run(c)
	if len(c.obls) < r.Floor {
		c.undecided("floor", "-", fmt.Sprintf("rule matched %d constructs, fewer than its floor %d: anchors no longer resolve (vacuous pass refused)", len(c.obls), r.Floor))
	}
	sort.SliceStable(c.obls, func(i, j int) bool { return c.obls[i].Key < c.obls[j].Key })
	return c.obls, c.info
}

func ruleIDsSorted(ids []string) []string {
	out := append([]string(nil), ids...)
	sort.Slice(out, func(i, j int) bool {
		a, b := out[i], out[j]
		na, nb := 0, 0
		fmt.Sscanf(strings.TrimLeft(a, "R"), "%d", &na)
		fmt.Sscanf(strings.TrimLeft(b, "R"), "%d", &nb)
		if na != nb {
			return na < nb
		}
		return a < b
	})
	return out
}
