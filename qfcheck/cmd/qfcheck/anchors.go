package main

import (
	"go/types"

	"golang.org/x/tools/go/ssa"
)

// Structural anchors: functions are located by what they do, so that renaming an unexported helper
// does not unhook a rule. Each falls back to the historical name when the structural search is ambiguous.

func (p *Prog) findFunc(pkg string, pred func(fn *ssa.Function) bool) *ssa.Function {
	var found *ssa.Function
	n := 0
	for _, fn := range p.FuncsIn(pkg) {
		if fn.Parent() != nil {
			continue
		}
		if pred(fn) {
			found = fn
			n++
		}
	}
	if n == 1 {
		return found
	}
	return nil
}

func callsModuleFunc(fn *ssa.Function, pkgRel, name string) bool {
	hit := false
	eachInstr(fn, func(in ssa.Instruction) {
		if call, ok := in.(ssa.CallInstruction); ok {
			if o := calleeObj(call); o != nil && o.Name() == name && o.Pkg() != nil && o.Pkg().Path() == rel(pkgRel) {
				hit = true
			}
		}
	})
	return hit
}

// anchorColumnToData: the function of internal/io that tries the typed conversions of a CSV column.
func (p *Prog) anchorColumnToData() *ssa.Function {
	if fn := p.findFunc("internal/io", func(fn *ssa.Function) bool {
		return callsModuleFunc(fn, "internal/strings", "ParseInt") && callsModuleFunc(fn, "internal/strings", "ParseFloat") && callsModuleFunc(fn, "internal/strings", "ParseBool")
	}); fn != nil {
		return fn
	}
	return p.Func("internal/io", "columnToData")
}

// anchorEnumBuiltInFilter: the ecolumn method that resolves a filter constant against the declared values.
func (p *Prog) anchorEnumBuiltInFilter() *ssa.Function {
	if fn := p.findFunc("internal/ecolumn", func(fn *ssa.Function) bool {
		hasBool, readsStrict := false, false
		for _, prm := range fn.Params {
			if isBoolIndex(prm.Type()) {
				hasBool = true
			}
		}
		eachInstr(fn, func(in ssa.Instruction) {
			if v, ok := in.(ssa.Value); ok {
				if fld, _ := fieldOf(v); fld != nil && fld.Name() == "strict" {
					readsStrict = true
				}
			}
		})
		return hasBool && readsStrict
	}); fn != nil {
		return fn
	}
	return p.Func("internal/ecolumn", "Column.filterBuiltIn")
}

// anchorFrameFilter: the QFrame method that evaluates a batch of leaf filters (takes ...filter.Filter).
func (p *Prog) anchorFrameFilter() *ssa.Function {
	if fn := p.findFunc("", func(fn *ssa.Function) bool {
		if fn.Signature.Recv() == nil || !fn.Signature.Variadic() {
			return false
		}
		if n, ok := deref(fn.Signature.Recv().Type()).(*types.Named); !ok || n.Obj().Name() != "QFrame" {
			return false
		}
		last := fn.Signature.Params().At(fn.Signature.Params().Len() - 1).Type()
		sl, ok := last.(*types.Slice)
		if !ok {
			return false
		}
		return isNamed(sl.Elem(), rel("filter"), "Filter")
	}); fn != nil {
		return fn
	}
	return p.Func("", "QFrame.filter")
}

// anchorMatcherCtor: the function of internal/strings that returns the Matcher interface.
func (p *Prog) anchorMatcherCtor() *ssa.Function {
	if fn := p.findFunc("internal/strings", func(fn *ssa.Function) bool {
		r := fn.Signature.Results()
		return r.Len() == 2 && isNamed(r.At(0).Type(), rel("internal/strings"), "Matcher") && isErrorType(r.At(1).Type())
	}); fn != nil {
		return fn
	}
	return p.Func("internal/strings", "NewMatcher")
}

// anchorEscaper: the function of internal/strings with signature func([]byte, string) []byte that
// the string column's JSON cell writer calls.
func (p *Prog) anchorEscaper() *ssa.Function {
	w := p.Func("internal/scolumn", "Column.AppendByteStringAt")
	if w != nil {
		var found *ssa.Function
		eachInstr(w, func(in ssa.Instruction) {
			if call, ok := in.(*ssa.Call); ok {
				if c := call.Call.StaticCallee(); c != nil && c.Pkg != nil && c.Pkg.Pkg.Path() == rel("internal/strings") && c.Signature.Params().Len() == 2 {
					if _, isSl := c.Signature.Params().At(0).Type().Underlying().(*types.Slice); isSl {
						found = c
					}
				}
			}
		})
		if found != nil {
			return found
		}
	}
	return p.Func("internal/strings", "AppendQuotedString")
}

// anchorMatchLoop: the scolumn function that applies a Matcher to the cells.
func (p *Prog) anchorMatchLoop() *ssa.Function {
	if fn := p.findFunc("internal/scolumn", func(fn *ssa.Function) bool {
		hit := false
		eachInstr(fn, func(in ssa.Instruction) {
			if call, ok := in.(*ssa.Call); ok && call.Call.IsInvoke() && call.Call.Method.Name() == "Matches" {
				hit = true
			}
		})
		return hit
	}); fn != nil {
		return fn
	}
	return p.Func("internal/scolumn", "regexFilter")
}

// anchorUpper: the zero-alloc upper-casing helper: func(*[]byte, string) string in internal/strings.
func (p *Prog) anchorUpper() *ssa.Function {
	if fn := p.findFunc("internal/strings", func(fn *ssa.Function) bool {
		s := fn.Signature
		if s.Params().Len() != 2 || s.Results().Len() != 1 {
			return false
		}
		pt, ok := s.Params().At(0).Type().(*types.Pointer)
		if !ok {
			return false
		}
		_, isSl := pt.Elem().Underlying().(*types.Slice)
		return isSl && callsStd(fn, "unicode", "ToUpper")
	}); fn != nil {
		return fn
	}
	return p.Func("internal/strings", "ToUpper")
}

func callsStd(fn *ssa.Function, pkg, name string) bool {
	hit := false
	eachInstr(fn, func(in ssa.Instruction) {
		if call, ok := in.(ssa.CallInstruction); ok && isFuncNamed(calleeObj(call), pkg, "", name) {
			hit = true
		}
	})
	return hit
}

// anchorByResult: the unique package-level function of the root package whose first result has the named type.
func (p *Prog) anchorByResult(typeName, fallback string) *ssa.Function {
	if fn := p.findFunc("", func(fn *ssa.Function) bool {
		if fn.Signature.Recv() != nil || fn.Signature.Results().Len() < 1 {
			return false
		}
		n, ok := fn.Signature.Results().At(0).Type().(*types.Named)
		return ok && n.Obj().Name() == typeName && n.Obj().Pkg().Path() == modPath
	}); fn != nil {
		return fn
	}
	return p.Func("", fallback)
}

// tableKernel: the kernel registered under key in a column package's comparator tables.
func (p *Prog) tableKernel(pkg, key string) *ssa.Function {
	for _, e := range comparatorTables(p, pkg) {
		if e.key == key {
			return e.fn
		}
	}
	return nil
}

// isErrSetter: obj is a method that takes exactly one error and returns its receiver's type with the
// Err field set from that parameter (QFrame.withErr under whatever name).
var errSetterCache = map[*types.Func]bool{}

func (p *Prog) isErrSetter(obj *types.Func) bool {
	if obj == nil {
		return false
	}
	if v, ok := errSetterCache[obj]; ok {
		return v
	}
	res := false
	defer func() { errSetterCache[obj] = res }()
	sig := obj.Type().(*types.Signature)
	if sig.Recv() == nil || sig.Params().Len() != 1 || !isErrorType(sig.Params().At(0).Type()) || sig.Results().Len() != 1 {
		return false
	}
	if !isFrameType(sig.Results().At(0).Type()) {
		return false
	}
	fn := p.SSA.FuncValue(obj)
	if fn == nil || fn.Blocks == nil {
		return false
	}
	errP := fn.Params[1]
	eachInstr(fn, func(in ssa.Instruction) {
		st, ok := in.(*ssa.Store)
		if !ok || st.Val != ssa.Value(errP) {
			return
		}
		if fa, ok := st.Addr.(*ssa.FieldAddr); ok {
			if s, ok := deref(fa.X.Type()).Underlying().(*types.Struct); ok && s.Field(fa.Field).Name() == "Err" {
				res = true
			}
		}
	})
	return res
}

// anchorEmptyLine: the predicate of internal/io that ReadCSV applies to a row's fields (one [][]byte parameter,
// one bool result, called from ReadCSV); by its name if that still exists.
func (p *Prog) anchorEmptyLine() *ssa.Function {
	if f := p.Func("internal/io", "isEmptyLine"); f != nil {
		return f
	}
	rd := p.Func("internal/io", "ReadCSV")
	if rd == nil {
		return nil
	}
	var found *ssa.Function
	eachInstr(rd, func(in ssa.Instruction) {
		call, ok := in.(*ssa.Call)
		if !ok {
			return
		}
		h := call.Call.StaticCallee()
		if h == nil || h.Pkg != rd.Pkg || len(h.Params) != 1 || h.Signature.Results().Len() != 1 {
			return
		}
		if b, ok := h.Signature.Results().At(0).Type().Underlying().(*types.Basic); !ok || b.Kind() != types.Bool {
			return
		}
		if sl, ok := h.Params[0].Type().Underlying().(*types.Slice); ok {
			if _, ok := sl.Elem().Underlying().(*types.Slice); ok {
				found = h
			}
		}
	})
	return found
}

// anchorEnumEqualTypes: the function of internal/ecolumn that takes two enum columns and answers with a bool.
func (p *Prog) anchorEnumEqualTypes() *ssa.Function {
	if f := p.Func("internal/ecolumn", "equalTypes"); f != nil {
		return f
	}
	var found *ssa.Function
	for _, f := range p.FuncsIn("internal/ecolumn") {
		if f.Parent() != nil || f.Signature.Results().Len() != 1 {
			continue
		}
		if b, ok := f.Signature.Results().At(0).Type().Underlying().(*types.Basic); !ok || b.Kind() != types.Bool {
			continue
		}
		n := 0
		for _, prm := range f.Params {
			if nt, ok := prm.Type().(*types.Named); ok && nt.Obj().Name() == "Column" && nt.Obj().Pkg() == f.Pkg.Pkg {
				n++
			}
		}
		if n == 2 && len(f.Params) == 2 {
			found = f
		}
	}
	return found
}

// anchorIsQuoted: the string predicate of internal/strings that CheckName consults about quotes: a (string) bool
// function of the package called from CheckName.
func (p *Prog) anchorIsQuoted() *ssa.Function {
	if f := p.Func("internal/strings", "isQuoted"); f != nil {
		return f
	}
	cn := p.Func("internal/strings", "CheckName")
	if cn == nil {
		return nil
	}
	var found *ssa.Function
	eachInstr(cn, func(in ssa.Instruction) {
		call, ok := in.(*ssa.Call)
		if !ok {
			return
		}
		h := call.Call.StaticCallee()
		if h == nil || h.Pkg != cn.Pkg || len(h.Params) != 1 || h.Signature.Results().Len() != 1 {
			return
		}
		pb, ok1 := h.Params[0].Type().Underlying().(*types.Basic)
		rb, ok2 := h.Signature.Results().At(0).Type().Underlying().(*types.Basic)
		if ok1 && ok2 && pb.Kind() == types.String && rb.Kind() == types.Bool {
			found = h
		}
	})
	return found
}

// executeOf: the method of the root-package type typeName with the signature of Expression.execute (whatever its name).
func (p *Prog) executeOf(typeName string) *ssa.Function {
	if f := p.Func("", typeName+".execute"); f != nil {
		return f
	}
	for _, f := range p.FuncsIn("") {
		if f.Signature.Recv() == nil || f.Parent() != nil || !isExecuteSig(f.Signature) {
			continue
		}
		if n, ok := deref(f.Signature.Recv().Type()).(*types.Named); ok && n.Obj().Name() == typeName {
			return f
		}
	}
	return nil
}
