package main

import (
	"fmt"
	"go/token"
	"go/types"
	"strings"

	"golang.org/x/tools/go/ssa"
)

func init() {
	register(&Rule{ID: "R13", Name: "POS", Floor: 8,
		Text: "frame invariant columns[k].pos == k and columnsByName[n] agrees with it: every namedColumn placed into a []namedColumn / map[string]namedColumn that is (or becomes) a QFrame/Grouper container either is a slot-preserving whole copy (copy(), map-copy loop under the same key, same-index element copy), or is a copy of a slot of the container being built, or has its pos field assigned on every path before the placement, the assigned value being the slot (the store index; for append: len(dst) or the key of the single-append range loop that fills an initially empty slice)",
		Run:  runR13})
	register(&Rule{ID: "R17", Name: "NAMECHK", Floor: 3,
		Text: "every string that becomes the name of a namedColumn is validated: a call of strings.CheckName on it whose error edge returns dominates the assignment, or it is the key of a successful comma-ok lookup in a frame's column map (an existing name), or (New) it ranges over ColumnOrder, every entry of which is checked to be a key of data, every key of data being CheckName'd",
		Run:  runR17})
}

func namedColumnType(p *Prog) *types.Named { return p.Named("", "namedColumn") }

func isNamedColumnContainer(p *Prog, t types.Type) bool {
	nc := namedColumnType(p)
	if nc == nil {
		return false
	}
	switch u := t.Underlying().(type) {
	case *types.Slice:
		return types.Identical(u.Elem(), nc)
	case *types.Map:
		return types.Identical(u.Elem(), nc)
	case *types.Array:
		return types.Identical(u.Elem(), nc)
	}
	return false
}

// frameContainers: the container values of fn that are read from, or flow into, a struct field.
func frameContainers(p *Prog, fn *ssa.Function) map[ssa.Value]bool {
	out := map[ssa.Value]bool{}
	var back func(v ssa.Value, d int)
	back = func(v ssa.Value, d int) {
		if v == nil || out[v] || d > 12 {
			return
		}
		out[v] = true
		switch t := v.(type) {
		case *ssa.Phi:
			for _, e := range t.Edges {
				back(e, d+1)
			}
		case *ssa.Call:
			if builtinName(t) == "append" {
				back(t.Call.Args[0], d+1)
			}
		case *ssa.Slice:
			back(t.X, d+1)
		case *ssa.UnOp:
			if t.Op == token.MUL {
				if al, ok := t.X.(*ssa.Alloc); ok {
					for _, r := range *al.Referrers() {
						if st, ok := r.(*ssa.Store); ok && st.Addr == al {
							back(st.Val, d+1)
						}
					}
				}
			}
		}
	}
	eachInstr(fn, func(in ssa.Instruction) {
		switch t := in.(type) {
		case *ssa.Store:
			if _, ok := t.Addr.(*ssa.FieldAddr); ok && isNamedColumnContainer(p, t.Val.Type()) {
				back(t.Val, 0)
			}
		case *ssa.UnOp:
			if t.Op == token.MUL {
				if _, ok := t.X.(*ssa.FieldAddr); ok && isNamedColumnContainer(p, t.Type()) {
					out[t] = true
				}
			}
		case *ssa.Field:
			if isNamedColumnContainer(p, t.Type()) {
				out[t] = true
			}
		case *ssa.Return:
			for i, r := range t.Results {
				if isNamedColumnContainer(p, r.Type()) && resultBecomesFrameField(p, fn, i) {
					back(r, 0)
				}
			}
		}
	})
	// forward closure: appends / phis of a frame container are frame containers
	changed := true
	for changed {
		changed = false
		eachInstr(fn, func(in ssa.Instruction) {
			v, ok := in.(ssa.Value)
			if !ok || out[v] {
				return
			}
			switch t := in.(type) {
			case *ssa.Phi:
				for _, e := range t.Edges {
					if out[e] {
						out[v], changed = true, true
					}
				}
			case *ssa.Call:
				if builtinName(t) == "append" && out[t.Call.Args[0]] {
					out[v], changed = true, true
				}
			}
		})
	}
	return out
}

// builtHere: container value originates from a make/literal in this function (not read from a field/param).
func builtHere(v ssa.Value, d int) bool {
	if d > 10 {
		return false
	}
	switch t := v.(type) {
	case *ssa.MakeSlice, *ssa.MakeMap:
		return true
	case *ssa.Phi:
		for _, e := range t.Edges {
			if e != ssa.Value(t) && !builtHere(e, d+1) {
				return false
			}
		}
		return true
	case *ssa.Call:
		if builtinName(t) == "append" {
			return builtHere(t.Call.Args[0], d+1)
		}
	case *ssa.Slice:
		return builtHere(t.X, d+1)
	case *ssa.UnOp:
		if t.Op == token.MUL {
			switch a := t.X.(type) {
			case *ssa.Alloc:
				ok := false
				for _, r := range *a.Referrers() {
					if st, isSt := r.(*ssa.Store); isSt && st.Addr == a {
						if !builtHere(st.Val, d+1) {
							return false
						}
						ok = true
					}
				}
				return ok
			case *ssa.FieldAddr:
				// field of a local struct that was assigned a fresh container in this function
				if al, isAl := a.X.(*ssa.Alloc); isAl {
					ok := false
					for _, r := range *al.Referrers() {
						if fa, isFA := r.(*ssa.FieldAddr); isFA && fa.Field == a.Field {
							for _, r2 := range *fa.Referrers() {
								if st, isSt := r2.(*ssa.Store); isSt && st.Addr == fa {
									if !builtHere(st.Val, d+1) {
										return false
									}
									ok = true
								}
							}
						}
					}
					return ok
				}
			}
		}
	}
	return false
}

type placement struct {
	in    ssa.Instruction
	cont  ssa.Value // container
	slot  ssa.Value // index (slices) or nil
	key   ssa.Value // map key or nil
	val   ssa.Value
	app   *ssa.Call // append call for variadic placements
	descr string
}

func precedes(a, b ssa.Instruction) bool {
	if a.Block() == b.Block() {
		for _, in := range a.Block().Instrs {
			if in == a {
				return true
			}
			if in == b {
				return false
			}
		}
	}
	return a.Block().Dominates(b.Block())
}

func runR13(c *Ctx) {
	p := c.P
	nc := namedColumnType(p)
	if nc == nil {
		c.undecided("anchor|namedColumn", "-", "type qframe.namedColumn not found")
		return
	}
	st := nc.Underlying().(*types.Struct)
	posIdx := uniqueFieldOfKind(st, types.Int)
	if posIdx < 0 {
		c.undecided("anchor|namedColumn.pos", "-", "field pos not found")
		return
	}
	for _, fn := range p.FuncsIn("") {
		fc := frameContainers(p, fn)
		fnm := fname(fn)
		var pls []placement
		eachInstr(fn, func(in ssa.Instruction) {
			switch t := in.(type) {
			case *ssa.Store:
				ia, ok := t.Addr.(*ssa.IndexAddr)
				if !ok || !types.Identical(t.Val.Type(), nc) {
					return
				}
				if al, ok := ia.X.(*ssa.Alloc); ok { // variadic backing array of append
					for _, r := range *al.Referrers() {
						if sl, ok := r.(*ssa.Slice); ok {
							for _, r2 := range *sl.Referrers() {
								if call, ok := r2.(*ssa.Call); ok && builtinName(call) == "append" && fc[call] {
									pls = append(pls, placement{in: t, cont: call.Call.Args[0], val: t.Val, app: call, descr: "append"})
								}
							}
						}
					}
					return
				}
				if fc[ia.X] || fc[rootSliceVal(ia.X)] {
					pls = append(pls, placement{in: t, cont: ia.X, slot: ia.Index, val: t.Val, descr: "slot store"})
				}
			case *ssa.MapUpdate:
				if types.Identical(t.Value.Type(), nc) && (fc[t.Map] || fc[rootSliceVal(t.Map)]) {
					pls = append(pls, placement{in: t, cont: t.Map, key: t.Key, val: t.Value, descr: "map store"})
				}
			case *ssa.Call:
				if builtinName(t) == "copy" && len(t.Call.Args) == 2 && isNamedColumnContainer(p, t.Call.Args[0].Type()) && isNamedColumnContainer(p, t.Call.Args[1].Type()) {
					c.ok(fnm+"|copy()", p.instrPos(t), "whole copy from slot 0: every element keeps its slot")
				}
			}
		})
		for _, pl := range pls {
			key := fnm + "|" + pl.descr
			pos := p.instrPos(pl.in)
			v := pl.val
			// shape 1: map-copy loop under the same key
			if ex, ok := v.(*ssa.Extract); ok {
				if nx, ok := ex.Tuple.(*ssa.Next); ok && !nx.IsString && pl.key != nil {
					if kx, ok := pl.key.(*ssa.Extract); ok && kx.Tuple == nx && kx.Index == 1 && ex.Index == 2 {
						c.ok(key, pos, "map copy loop: value re-inserted under its own key")
						continue
					}
				}
				c.bad(key, pos, "a namedColumn taken straight from another container is placed without assigning pos (stale position)")
				continue
			}
			ld, ok := v.(*ssa.UnOp)
			if !ok || ld.Op != token.MUL {
				c.bad(key, pos, fmt.Sprintf("placed value %s has an unrecognised origin; its pos cannot be shown to equal the slot", describe(v)))
				continue
			}
			switch a := ld.X.(type) {
			case *ssa.IndexAddr:
				if builtHere(a.X, 0) && fc[a.X] || fc[rootSliceVal(a.X)] && builtHere(rootSliceVal(a.X), 0) {
					c.ok(key, pos, "copy of a slot of the container under construction (already judged)")
				} else if pl.slot != nil && stripConv(pl.slot) == stripConv(a.Index) {
					c.ok(key, pos, "same-index element copy keeps the slot")
				} else {
					c.bad(key, pos, "element of another frame's column slice is placed at a different slot without assigning pos")
				}
			case *ssa.Alloc:
				// local struct variable: find the pos assignment that precedes the load
				var posStore *ssa.Store
				var wholeAfter bool
				for _, r := range *a.Referrers() {
					if fa, ok := r.(*ssa.FieldAddr); ok && fa.Field == posIdx {
						for _, r2 := range *fa.Referrers() {
							if s, ok := r2.(*ssa.Store); ok && s.Addr == fa && precedes(s, ld) {
								if posStore == nil || precedes(posStore, s) {
									posStore = s
								}
							}
						}
					}
				}
				if posStore != nil {
					for _, r := range *a.Referrers() {
						if s, ok := r.(*ssa.Store); ok && s.Addr == a && precedes(posStore, s) && precedes(s, ld) {
							wholeAfter = true
						}
					}
				}
				if posStore == nil || wholeAfter {
					c.bad(key, pos, "the namedColumn is placed into a frame container without pos being assigned on the way (stale position from the source frame / zero value): later setColumn/Apply on that column writes the wrong slot or panics")
					continue
				}
				// value check
				pv := posStore.Val
				switch {
				case pl.slot != nil:
					if sameValue(pv, pl.slot) {
						c.ok(key, pos, "pos assigned the slot index before placement")
					} else {
						c.bad(key, pos, fmt.Sprintf("pos is assigned %s but the column is stored at slot %s", describe(pv), describe(pl.slot)))
					}
				case pl.app != nil:
					if okLen(pv, pl.app.Call.Args[0]) {
						c.ok(key, pos, "pos = len(dst) before append")
					} else if singleAppendLoopKey(pv, pl.app) {
						c.ok(key, pos, "pos = key of the range loop that appends exactly once per iteration to an initially empty slice")
					} else {
						c.bad(key, pos, fmt.Sprintf("pos is assigned %s, which is not shown to be the slot the append fills", describe(pv)))
					}
				default:
					c.ok(key, pos, "pos assigned before the map placement")
				}
			default:
				c.bad(key, pos, "placed value read from an unrecognised location")
			}
		}
	}
}

func rootSliceVal(v ssa.Value) ssa.Value {
	for {
		s, ok := v.(*ssa.Slice)
		if !ok {
			return v
		}
		v = s.X
	}
}

func sameConst(a, b ssa.Value) bool {
	x, ok1 := constInt(a)
	y, ok2 := constInt(b)
	return ok1 && ok2 && x == y
}

func okLen(v ssa.Value, dst ssa.Value) bool {
	call, ok := v.(*ssa.Call)
	if !ok || builtinName(call) != "len" {
		return false
	}
	return sameValue(call.Call.Args[0], dst)
}

// singleAppendLoopKey: pv is the key of a range loop whose header carries dst = phi[empty make, app].
func singleAppendLoopKey(pv ssa.Value, app *ssa.Call) bool {
	phi, ok := app.Call.Args[0].(*ssa.Phi)
	if !ok {
		return false
	}
	nInit := 0
	for _, e := range phi.Edges {
		if e == ssa.Value(app) {
			continue
		}
		mk, ok := e.(*ssa.MakeSlice)
		if !ok {
			return false
		}
		if n, ok := constInt(mk.Len); !ok || n != 0 {
			return false
		}
		nInit++
	}
	if nInit != 1 {
		return false
	}
	add, ok := pv.(*ssa.BinOp)
	if !ok || add.Op != token.ADD || add.Block() != phi.Block() {
		return false
	}
	kphi, ok := add.X.(*ssa.Phi)
	if !ok || kphi.Block() != phi.Block() {
		return false
	}
	for _, e := range kphi.Edges {
		if c, ok := constInt(e); ok && c == -1 {
			continue
		}
		if e != ssa.Value(add) {
			return false
		}
	}
	return true
}

func runR17(c *Ctx) {
	p := c.P
	nc := namedColumnType(p)
	if nc == nil {
		c.undecided("anchor|namedColumn", "-", "type qframe.namedColumn not found")
		return
	}
	st := nc.Underlying().(*types.Struct)
	nameIdx := uniqueFieldOfKind(st, types.String)
	checkName := p.Func("internal/strings", "CheckName")
	if nameIdx < 0 || checkName == nil {
		c.undecided("anchor|name/CheckName", "-", "namedColumn.name or strings.CheckName not found")
		return
	}
	for _, fn := range p.FuncsIn("") {
		fnm := fname(fn)
		eachInstr(fn, func(in ssa.Instruction) {
			s, ok := in.(*ssa.Store)
			if !ok {
				return
			}
			fa, ok := s.Addr.(*ssa.FieldAddr)
			if !ok || fa.Field != nameIdx || !types.Identical(deref(fa.X.Type()), nc) {
				return
			}
			key := fnm + "|name assignment"
			pos := p.instrPos(s)
			if ok, how := nameValidated(p, s.Val, s.Block(), checkName, 0); ok {
				c.ok(key, pos, how)
			} else {
				c.bad(key, pos, "column name "+how+" enters a frame without strings.CheckName (illegal names such as \"\", quoted or $-prefixed become columns and break Eval/Filter parsing)")
			}
		})
	}
}

// nameValidated: value v, used in block at, is a validated column name.
func nameValidated(p *Prog, v ssa.Value, at *ssa.BasicBlock, checkName *ssa.Function, d int) (bool, string) {
	if d > 5 {
		return false, describe(v)
	}
	want := accessPath(v)
	fn := at.Parent()
	// (a) CheckName(v) whose nil-error edge dominates `at`
	var found string
	eachInstr(fn, func(in ssa.Instruction) {
		if found != "" {
			return
		}
		call, ok := in.(*ssa.Call)
		if !ok {
			return
		}
		if call.Call.StaticCallee() == checkName && accessPath(call.Call.Args[0]) == want {
			for _, g := range dominatingGuards(at) {
				if b, ok := g.Cond.(*ssa.BinOp); ok && (b.X == ssa.Value(call) || b.Y == ssa.Value(call)) {
					if b.Op == token.NEQ && !g.Val || b.Op == token.EQL && g.Val {
						found = "CheckName on it dominates (error edge leaves)"
					}
				}
			}
		}
		// (b) key of a successful comma-ok lookup in a column map
		if false {
			_ = call
		}
	})
	if found != "" {
		return true, found
	}
	eachInstr(fn, func(in ssa.Instruction) {
		if found != "" {
			return
		}
		lk, ok := in.(*ssa.Lookup)
		if !ok || !lk.CommaOk || !isNamedColumnContainer(p, lk.X.Type()) || accessPath(lk.Index) != want {
			return
		}
		for _, r := range *lk.Referrers() {
			if ex, ok := r.(*ssa.Extract); ok && ex.Index == 1 {
				for _, g := range dominatingGuards(at) {
					if g.Cond == ssa.Value(ex) && g.Val {
						found = "key of a successful lookup in a frame's column map (existing name)"
					}
				}
			}
		}
	})
	if found != "" {
		return true, found
	}
	if phi, ok := v.(*ssa.Phi); ok {
		for i, e := range phi.Edges {
			if ok, how := nameValidated(p, e, phi.Block().Preds[i], checkName, d+1); !ok {
				return false, how
			}
		}
		return true, "every incoming value validated"
	}
	// (c) New: range over ColumnOrder with key-of-data check, data keys CheckName'd
	if ok, how := newOrderArgument(p, v, checkName); ok {
		return true, how
	}
	return false, describe(v)
}

// newOrderArgument recognises the argument in New: v ranges over a []string S; a loop over S returns an
// error unless every entry is a key of map M; a loop over M's keys returns an error unless CheckName passes.
func newOrderArgument(p *Prog, v ssa.Value, checkName *ssa.Function) (bool, string) {
	ld, ok := v.(*ssa.UnOp)
	if !ok || ld.Op != token.MUL {
		return false, ""
	}
	ia, ok := ld.X.(*ssa.IndexAddr)
	if !ok {
		return false, ""
	}
	sPath := accessPath(ia.X)
	fn := v.Parent()
	if ok, how := orderValidatedIn(p, fn, sPath, checkName); ok {
		return true, how
	}
	// the two validation loops may have been moved into a helper (resolveColumnOrder(data, config) error) that
	// is called before the columns are built and whose error leaves the function
	suffix := sPath
	if i := strings.LastIndex(sPath, "."); i >= 0 {
		suffix = sPath[i:]
	}
	var how string
	eachInstr(fn, func(in ssa.Instruction) {
		call, ok := in.(*ssa.Call)
		if !ok || how != "" {
			return
		}
		h := call.Call.StaticCallee()
		if h == nil || h.Blocks == nil || h.Pkg != fn.Pkg || errResultIndex(h.Signature) < 0 {
			return
		}
		// the error is tested and its non-nil edge leaves before the name is used
		guarded := false
		for _, g := range dominatingGuards(v.(ssa.Instruction).Block()) {
			if b, ok := g.Cond.(*ssa.BinOp); ok && (b.X == ssa.Value(call) || b.Y == ssa.Value(call)) {
				if b.Op == token.NEQ && !g.Val || b.Op == token.EQL && g.Val {
					guarded = true
				}
			}
		}
		if !guarded {
			return
		}
		// some slice path of the helper with the same field suffix, rooted at a parameter bound to the same object
		for i, prm := range h.Params {
			if i >= len(call.Call.Args) {
				continue
			}
			hp := accessPath(prm) + suffix
			if len(sPath) >= len(suffix) && accessPath(call.Call.Args[i])+suffix == sPath {
				if ok, hw := orderValidatedIn(p, h, hp, checkName); ok {
					how = hw + " (in " + h.Name() + ", whose error leaves the function)"
				}
			}
		}
	})
	if how != "" {
		return true, how
	}
	return false, ""
}

// orderValidatedIn: fn holds the two loops that validate the order list at access path sPath.
func orderValidatedIn(p *Prog, fn *ssa.Function, sPath string, checkName *ssa.Function) (bool, string) {
	var mapPath string
	// loop 1: for _, name := range S { if _, ok := M[name]; !ok { return err } }
	eachInstr(fn, func(in ssa.Instruction) {
		lk, ok := in.(*ssa.Lookup)
		if !ok || !lk.CommaOk {
			return
		}
		kl, ok := lk.Index.(*ssa.UnOp)
		if !ok {
			return
		}
		kia, ok := kl.X.(*ssa.IndexAddr)
		if !ok || accessPath(kia.X) != sPath || !rangeKeyOf(kia.Index, kia.X) {
			return
		}
		// the !ok edge must lead to a return (block ends in Return)
		for _, r := range *lk.Referrers() {
			if ex, ok := r.(*ssa.Extract); ok && ex.Index == 1 {
				for _, r2 := range *ex.Referrers() {
					if iff, ok := r2.(*ssa.If); ok {
						fb := iff.Block().Succs[1]
						if _, isRet := fb.Instrs[len(fb.Instrs)-1].(*ssa.Return); isRet {
							mapPath = accessPath(lk.X)
						}
					}
				}
			}
		}
	})
	if mapPath == "" {
		return false, ""
	}
	// loop 2: for k := range M { if err := CheckName(k); err != nil { return } }
	okKeys := false
	eachInstr(fn, func(in ssa.Instruction) {
		call, ok := in.(*ssa.Call)
		if !ok || call.Call.StaticCallee() != checkName {
			return
		}
		ex, ok := call.Call.Args[0].(*ssa.Extract)
		if !ok || ex.Index != 1 {
			return
		}
		nx, ok := ex.Tuple.(*ssa.Next)
		if !ok {
			return
		}
		rg, ok := nx.Iter.(*ssa.Range)
		if !ok || accessPath(rg.X) != mapPath {
			return
		}
		if ok, _ := propagates(call); ok {
			okKeys = true
		}
	})
	// S must not be re-assigned after the membership loop: it is either the configured order or the sorted keys of M
	if okKeys {
		return true, "entry of " + sPath + ": each entry is checked to be a key of " + mapPath + ", whose keys all pass CheckName"
	}
	return false, ""
}

// uniqueFieldOfKind: index of the only field of the given basic kind (namedColumn has one int: the
// position, and one string: the name), or -1.
func uniqueFieldOfKind(st *types.Struct, k types.BasicKind) int {
	idx, n := -1, 0
	for i := 0; i < st.NumFields(); i++ {
		if b, ok := st.Field(i).Type().(*types.Basic); ok && b.Kind() == k {
			idx = i
			n++
		}
	}
	if n != 1 {
		return -1
	}
	return idx
}

// resultBecomesFrameField: some caller in the root package stores result #idx of fn into a struct field
// (a QFrame / Grouper being built).
func resultBecomesFrameField(p *Prog, fn *ssa.Function, idx int) bool {
	res := p.resolver()
	found := false
	for _, caller := range p.FuncsIn("") {
		eachInstr(caller, func(in ssa.Instruction) {
			call, ok := in.(*ssa.Call)
			if !ok || found {
				return
			}
			isCallee := false
			for _, c := range res.callees(call) {
				if c == fn {
					isCallee = true
				}
			}
			if !isCallee {
				return
			}
			var vals []ssa.Value
			if fn.Signature.Results().Len() == 1 {
				vals = []ssa.Value{call}
			} else {
				for _, r := range *call.Referrers() {
					if ex, ok := r.(*ssa.Extract); ok && ex.Index == idx {
						vals = append(vals, ex)
					}
				}
			}
			seen := map[ssa.Value]bool{}
			var walk func(v ssa.Value, d int)
			walk = func(v ssa.Value, d int) {
				if seen[v] || d > 6 || found {
					return
				}
				seen[v] = true
				for _, r := range *v.Referrers() {
					switch t := r.(type) {
					case *ssa.Store:
						if t.Val != v {
							continue
						}
						if _, ok := t.Addr.(*ssa.FieldAddr); ok {
							found = true
						}
						if al, ok := t.Addr.(*ssa.Alloc); ok {
							for _, ar := range *al.Referrers() {
								if ld, ok := ar.(*ssa.UnOp); ok {
									walk(ld, d+1)
								}
							}
						}
					case *ssa.Phi:
						walk(t, d+1)
					case *ssa.Call:
						if builtinName(t) == "append" {
							walk(t, d+1)
						}
					case *ssa.Slice:
						walk(t, d+1)
					}
				}
			}
			for _, v := range vals {
				walk(v, 0)
			}
		})
	}
	return found
}

// sameValue: a and b denote the same value: identical SSA values, equal constants, or two loads of the
// same local variable with no assignment to it that can run between them.
func sameValue(a, b ssa.Value) bool {
	a, b = stripConv(a), stripConv(b)
	if a == b || sameConst(a, b) {
		return true
	}
	// a field read of a struct VALUE loaded from a local: Field(load(alloc), i)
	fa, okA := a.(*ssa.Field)
	fb, okB := b.(*ssa.Field)
	if okA && okB && fa.Field == fb.Field {
		return sameValue(fa.X, fb.X)
	}
	la, ok1 := a.(*ssa.UnOp)
	lb, ok2 := b.(*ssa.UnOp)
	if !ok1 || !ok2 {
		return false
	}
	ka, okKa := cellKey(la.X)
	kb, okKb := cellKey(lb.X)
	if !okKa || !okKb || ka != kb {
		return false
	}
	first, second := ssa.Instruction(la), ssa.Instruction(lb)
	if precedes(second, first) {
		first, second = second, first
	}
	// no store into that cell (or into the whole variable it belongs to) can run between the two loads
	bad := false
	eachInstr(la.Parent(), func(in ssa.Instruction) {
		st, ok := in.(*ssa.Store)
		if !ok || bad {
			return
		}
		ks, okS := cellKey(st.Addr)
		if !okS || !(ks == ka || strings.HasPrefix(ka, ks+".") || strings.HasPrefix(ks, ka+".")) {
			return
		}
		if instrReaches(first, st) && instrReaches(st, second) {
			bad = true
		}
	})
	return !bad
}
