package main

import (
	"fmt"
	"go/token"
	"go/types"
	"strings"

	"golang.org/x/tools/go/ssa"
)

// R85: the punctuation skeleton of ToJSON. The method is evaluated (E5) for small row and column counts with
// byte buffers abstracted to token lists; what reaches the writer must spell a JSON array of objects.

func init() {
	register(&Rule{ID: "R85", Name: "JSON-SKELETON", Floor: 12,
		Text: "QFrame.ToJSON is evaluated (finite-domain path evaluation, E5) for every frame shape with 0..3 rows and 1..3 columns, with byte slices abstracted to lists of tokens (a constant byte; NAME = an element of the pre-quoted column names; VALUE = what a column's AppendByteStringAt appends): append, re-slicing to [:0] and to [:len-1], the test of the last byte against a constant, the counted loops and writer.Write are interpreted, errors do not occur. The concatenation of everything written must be exactly `[` row (`,` row)* `]` with row = `{` NAME `:` VALUE (`,` NAME `:` VALUE)* `}`, names and values in column order: no missing or doubled separator for any count (a separator that is right for 2 rows can be wrong for 1, or when a flush falls on the last row). A branch the evaluation cannot decide (e.g. on the buffer's size) leaves the obligation undecided",
		Run:  runR85})
}

type jtok struct {
	kind string // "b" constant byte, "N" name, "V" value
	b    byte
	idx  int64 // column number for N and V (-1 unknown)
}

func jtokString(ts []jtok) string {
	var sb strings.Builder
	for _, t := range ts {
		switch t.kind {
		case "b":
			sb.WriteByte(t.b)
		case "N":
			fmt.Fprintf(&sb, "N%d", t.idx)
		case "V":
			fmt.Fprintf(&sb, "V%d", t.idx)
		}
	}
	return sb.String()
}

func runR85(c *Ctx) {
	p := c.P
	fn := p.Func("", "QFrame.ToJSON")
	if fn == nil {
		c.undecided("QFrame.ToJSON", "-", "method not found")
		return
	}
	fnm := fname(fn)
	for rows := 0; rows <= 3; rows++ {
		for cols := 1; cols <= 3; cols++ {
			key := fmt.Sprintf("%s|skeleton rows=%d cols=%d", fnm, rows, cols)
			toks := map[ssa.Value][]jtok{}
			arrays := map[*ssa.Alloc]map[int64]jtok{}
			var emitted []jtok
			why := ""
			pe := &pathExec{fn: fn, maxStep: 4000}
			lenByType := func(t types.Type) (int64, bool) {
				if isIntIndexType(t) {
					return int64(rows), true
				}
				if sl, ok := t.Underlying().(*types.Slice); ok {
					if n, ok := sl.Elem().(*types.Named); ok && n.Obj().Name() == "namedColumn" {
						return int64(cols), true
					}
					if s2, ok := sl.Elem().Underlying().(*types.Slice); ok {
						if b, ok := s2.Elem().Underlying().(*types.Basic); ok && b.Kind() == types.Byte {
							return int64(cols), true // the pre-quoted names
						}
					}
				}
				return 0, false
			}
			var tokOf func(v ssa.Value) ([]jtok, bool)
			tokOf = func(v ssa.Value) ([]jtok, bool) {
				v = pe.resolve(v)
				if ts, ok := toks[v]; ok {
					return ts, true
				}
				switch t := v.(type) {
				case *ssa.Const:
					if t.IsNil() {
						return nil, true
					}
				case *ssa.Slice:
					if al, ok := t.X.(*ssa.Alloc); ok {
						if arr, ok := arrays[al]; ok && t.Low == nil && t.High == nil {
							var out []jtok
							for k := int64(0); k < int64(len(arr)); k++ {
								e, ok := arr[k]
								if !ok {
									return nil, false
								}
								out = append(out, e)
							}
							return out, true
						}
					}
				}
				return nil, false
			}
			pe.lenOf = func(call *ssa.Call) (int64, bool) {
				if n, ok := lenByType(call.Call.Args[0].Type()); ok {
					return n, true
				}
				if ts, ok := tokOf(call.Call.Args[0]); ok {
					return int64(len(ts)), true
				}
				return 0, false
			}
			atom := func(x ssa.Value) (bool, bool) {
				b, ok := x.(*ssa.BinOp)
				if !ok {
					return false, false
				}
				if isErrorType(b.X.Type()) && (b.Op == token.NEQ || b.Op == token.EQL) {
					return b.Op == token.EQL, true // no error occurs
				}
				// last byte of a buffer against a constant
				if ld, ok := b.X.(*ssa.UnOp); ok && ld.Op == token.MUL {
					if ia, ok := ld.X.(*ssa.IndexAddr); ok {
						if k, isK := constInt(b.Y); isK && (b.Op == token.EQL || b.Op == token.NEQ) {
							ts, ok := tokOf(ia.X)
							idx, okI := pe.intOf(ia.Index, 0)
							if ok && okI && idx >= 0 && idx < int64(len(ts)) {
								t := ts[idx]
								eq := t.kind == "b" && int64(t.b) == k
								return eq == (b.Op == token.EQL), true
							}
							why = "a byte of the buffer is tested that the evaluation cannot locate"
							return false, false
						}
					}
				}
				if isIntegerType(b.X.Type()) {
					x1, ok1 := pe.intOf(b.X, 0)
					y1, ok2 := pe.intOf(b.Y, 0)
					if ok1 && ok2 {
						switch b.Op {
						case token.LSS:
							return x1 < y1, true
						case token.LEQ:
							return x1 <= y1, true
						case token.GTR:
							return x1 > y1, true
						case token.GEQ:
							return x1 >= y1, true
						case token.EQL:
							return x1 == y1, true
						case token.NEQ:
							return x1 != y1, true
						}
					}
				}
				return false, false
			}
			pe.oracle = func(pe *pathExec, cond ssa.Value) (bool, bool) { return pe.evalBool(cond, atom) }
			pe.inline = func(callee *ssa.Function) bool {
				// helpers that build part of the output in a byte buffer (an extracted appendJSONRecord)
				if callee.Pkg != fn.Pkg {
					return false
				}
				for _, prm := range callee.Params {
					if sl, ok := prm.Type().Underlying().(*types.Slice); ok {
						if b, ok := sl.Elem().Underlying().(*types.Basic); ok && b.Kind() == types.Byte {
							return true
						}
					}
				}
				return false
			}
			bad := ""
			pe.onInstr = func(pe *pathExec, in ssa.Instruction) {
				switch t := in.(type) {
				case *ssa.Phi:
					if ts, ok := tokOf(pe.phi[t]); ok {
						if _, isSlice := t.Type().Underlying().(*types.Slice); isSlice {
							toks[t] = append([]jtok(nil), ts...)
						}
					}
				case *ssa.Store:
					if ia, ok := t.Addr.(*ssa.IndexAddr); ok {
						if al, ok := ia.X.(*ssa.Alloc); ok {
							if k, isK := constInt(ia.Index); isK {
								if bv, isB := constInt(pe.resolve(t.Val)); isB {
									if arrays[al] == nil {
										arrays[al] = map[int64]jtok{}
									}
									arrays[al][k] = jtok{kind: "b", b: byte(bv)}
								}
							}
						}
					}
				case *ssa.Alloc:
					delete(arrays, t)
				case *ssa.Slice:
					if _, isArr := deref(t.X.Type()).Underlying().(*types.Array); isArr {
						delete(toks, t)
						return
					}
					src, ok := tokOf(t.X)
					if !ok {
						return
					}
					lo, hi := int64(0), int64(len(src))
					if t.Low != nil {
						k, ok := pe.intOf(t.Low, 0)
						if !ok {
							return
						}
						lo = k
					}
					if t.High != nil {
						k, ok := pe.intOf(t.High, 0)
						if !ok {
							return
						}
						hi = k
					}
					if lo < 0 || hi > int64(len(src)) || lo > hi {
						bad = fmt.Sprintf("re-slice [%d:%d] of a buffer holding %d tokens at %s", lo, hi, len(src), p.instrPos(t))
						return
					}
					toks[t] = append([]jtok(nil), src[lo:hi]...)
				case *ssa.UnOp:
					// element of the pre-quoted names: NAME(j)
					if t.Op == token.MUL {
						if ia, ok := t.X.(*ssa.IndexAddr); ok {
							if sl, ok := ia.X.Type().Underlying().(*types.Slice); ok {
								if s2, ok := sl.Elem().Underlying().(*types.Slice); ok {
									if b, ok := s2.Elem().Underlying().(*types.Basic); ok && b.Kind() == types.Byte {
										j, okJ := pe.intOf(ia.Index, 0)
										if !okJ {
											j = -1
										}
										toks[t] = []jtok{{kind: "N", idx: j}}
									}
								}
							}
						}
					}
				case *ssa.Call:
					cc := t.Common()
					if builtinName(t) == "append" && len(cc.Args) == 2 {
						a, ok1 := tokOf(cc.Args[0])
						b, ok2 := tokOf(cc.Args[1])
						if ok1 && ok2 {
							toks[t] = append(append([]jtok(nil), a...), b...)
						} else {
							delete(toks, t)
						}
						return
					}
					if cc.IsInvoke() && cc.Method.Name() == "AppendByteStringAt" && len(cc.Args) == 2 {
						a, ok := tokOf(cc.Args[0])
						if ok {
							// which column: the receiver is the range value of the column loop
							j := int64(-1)
							if ld, isLd := pe.resolve(cc.Value).(*ssa.Field); isLd {
								_ = ld
							}
							j = currentRangeIndex(pe, cc.Value)
							toks[t] = append(append([]jtok(nil), a...), jtok{kind: "V", idx: j})
						}
						return
					}
					if cc.IsInvoke() && cc.Method.Name() == "Write" && len(cc.Args) == 1 {
						ts, ok := tokOf(cc.Args[0])
						if !ok {
							bad = "the bytes handed to Write at " + p.instrPos(t) + " are not a buffer the evaluation tracks"
							return
						}
						emitted = append(emitted, ts...)
					}
				}
			}
			end, whyNot := pe.run()
			if _, ok := end.(*ssa.Return); !ok {
				if why != "" {
					whyNot = why
				}
				c.undecided(key, p.pos(fn.Pos()), "cannot evaluate: "+whyNot)
				continue
			}
			if bad != "" {
				c.undecided(key, p.pos(fn.Pos()), bad)
				continue
			}
			// expected skeleton
			var want strings.Builder
			want.WriteByte('[')
			for r := 0; r < rows; r++ {
				if r > 0 {
					want.WriteByte(',')
				}
				want.WriteByte('{')
				for j := 0; j < cols; j++ {
					if j > 0 {
						want.WriteByte(',')
					}
					fmt.Fprintf(&want, "N%d:V%d", j, j)
				}
				want.WriteByte('}')
			}
			want.WriteByte(']')
			got := jtokString(emitted)
			if got == want.String() {
				c.ok(key, p.pos(fn.Pos()), "writes "+got)
			} else {
				c.bad(key, p.pos(fn.Pos()), fmt.Sprintf("writes %s where a JSON array of %d object(s) with %d member(s) is %s", got, rows, cols, want.String()))
			}
		}
	}
}

// currentRangeIndex: v is (a field of) the element of a slice being ranged over; returns the current value of
// the range counter on this path, or -1.
func currentRangeIndex(pe *pathExec, v ssa.Value) int64 {
	seen := map[ssa.Value]bool{}
	var find func(v ssa.Value, d int) int64
	find = func(v ssa.Value, d int) int64 {
		if v == nil || seen[v] || d > 8 {
			return -1
		}
		seen[v] = true
		switch t := v.(type) {
		case *ssa.IndexAddr:
			if k, ok := pe.intOf(t.Index, 0); ok {
				return k
			}
		case *ssa.UnOp:
			return find(t.X, d+1)
		case *ssa.Field:
			return find(t.X, d+1)
		case *ssa.FieldAddr:
			return find(t.X, d+1)
		case *ssa.Alloc:
			for _, r := range *t.Referrers() {
				if st, ok := r.(*ssa.Store); ok && st.Addr == ssa.Value(t) {
					if k := find(st.Val, d+1); k >= 0 {
						return k
					}
				}
			}
		}
		return -1
	}
	return find(v, 0)
}
