package main

import (
	"fmt"
	"go/token"
	"go/types"
	"strings"

	"golang.org/x/tools/go/ssa"
)

// R117: a decoder that assembles its result from the results of other ok-reporting decoders reports ok only when
// every part it used was decoded successfully.

func init() {
	register(&Rule{ID: "R117", Name: "OK-IMPLIES-PARTS", Floor: 3,
		Text: "for every function of the root package that returns (a struct, bool) and builds the struct from the value results of calls that themselves report (value, ok): the function is evaluated (E5) in every world of those calls' ok results (type assertions on the input succeed, list lengths fit); in each world where it returns true, every field of the returned struct that holds (a part of) the value result of such a call comes from a call whose ok is true in that world. A constructor that answers ok although the column reference or the constant it stored was not recognised makes the expression dispatcher stop at the wrong decoder: `Expr(\"+\", 1, 2)` is then evaluated as a column-constant operation on the column named \"\" and fails, instead of being computed",
		Run:  runR117})
}

func runR117(c *Ctx) {
	p := c.P
	for _, fn := range p.FuncsIn("") {
		if fn.Parent() != nil || fn.Blocks == nil {
			continue
		}
		res := fn.Signature.Results()
		if res.Len() != 2 || basicKind(res.At(1).Type()) != types.Bool {
			continue
		}
		if _, isStruct := res.At(0).Type().Underlying().(*types.Struct); !isStruct {
			continue
		}
		// the ok-reporting calls
		var calls []*ssa.Call
		eachInstr(fn, func(in ssa.Instruction) {
			call, ok := in.(*ssa.Call)
			if !ok {
				return
			}
			sig := call.Call.Signature()
			if sig.Results().Len() < 2 || basicKind(sig.Results().At(sig.Results().Len()-1).Type()) != types.Bool {
				return
			}
			if callee := call.Call.StaticCallee(); callee == nil || callee.Pkg == nil || !inModule(callee.Pkg.Pkg) {
				return
			}
			calls = append(calls, call)
		})
		if len(calls) == 0 || len(calls) > 8 {
			continue
		}
		fnm := fname(fn)
		key := fnm + "|ok implies parts"
		callIdx := map[*ssa.Call]int{}
		for i, cl := range calls {
			callIdx[cl] = i
		}
		var problems []string
		evaluated, trueWorlds := 0, 0
		und := ""
		for w := 0; w < 1<<uint(len(calls)); w++ {
			okOf := func(cl *ssa.Call) bool { return w&(1<<uint(callIdx[cl])) != 0 }
			pe := &pathExec{fn: fn}
			var atom func(v ssa.Value) (bool, bool)
			atom = func(v ssa.Value) (bool, bool) {
				switch t := v.(type) {
				case *ssa.Extract:
					if cl, ok := t.Tuple.(*ssa.Call); ok && t.Index == cl.Call.Signature().Results().Len()-1 {
						if _, known := callIdx[cl]; known {
							return okOf(cl), true
						}
					}
					if _, ok := t.Tuple.(*ssa.TypeAssert); ok && t.Index == 1 {
						return true, true
					}
				case *ssa.BinOp:
					// the list has the length the constructor asks for
					if call, ok := t.X.(*ssa.Call); ok && builtinName(call) == "len" {
						if _, isK := constInt(t.Y); isK && (t.Op == token.EQL || t.Op == token.NEQ) {
							return t.Op == token.EQL, true
						}
					}
					if t.Op == token.EQL || t.Op == token.NEQ {
						if basicKind(t.X.Type()) == types.Bool {
							x, ok1 := pe.evalBool(t.X, atom)
							y, ok2 := pe.evalBool(t.Y, atom)
							if ok1 && ok2 {
								return (x == y) == (t.Op == token.EQL), true
							}
						}
					}
				}
				return false, false
			}
			pe.oracle = func(pe *pathExec, cond ssa.Value) (bool, bool) { return pe.evalBool(cond, atom) }
			end, why := pe.run()
			ret, ok := end.(*ssa.Return)
			if !ok || len(ret.Results) != 2 {
				und = why
				continue
			}
			evaluated++
			got, known := pe.evalBool(ret.Results[1], atom)
			if !known {
				und = "the ok result is not a combination of the parts' ok results"
				continue
			}
			if !got {
				continue
			}
			trueWorlds++
			// fields of the returned struct
			var al *ssa.Alloc
			if ld, ok := ret.Results[0].(*ssa.UnOp); ok && ld.Op == token.MUL {
				al, _ = ld.X.(*ssa.Alloc)
			}
			if al == nil {
				continue
			}
			prefix, _ := cellKey(al)
			st := res.At(0).Type().Underlying().(*types.Struct)
			for mk, mv := range pe.mem {
				if !strings.HasPrefix(mk, prefix+".") {
					continue
				}
				// which call does the value come from?
				var src *ssa.Call
				v := mv
				for d := 0; d < 8 && v != nil; d++ {
					switch t := v.(type) {
					case *ssa.Extract:
						if cl, ok := t.Tuple.(*ssa.Call); ok && t.Index < cl.Call.Signature().Results().Len()-1 {
							if _, known := callIdx[cl]; known {
								src = cl
							}
						}
						v = nil
					case *ssa.Field:
						v = pe.resolve(t.X)
					case *ssa.ChangeType:
						v = t.X
					case *ssa.MakeInterface:
						v = pe.resolve(t.X)
					default:
						v = nil
					}
				}
				if src != nil && !okOf(src) {
					fi := 0
					fmt.Sscanf(mk[len(prefix)+1:], "%d", &fi)
					fname := "?"
					if fi < st.NumFields() {
						fname = st.Field(fi).Name()
					}
					callee := src.Call.StaticCallee().Name()
					msg := fmt.Sprintf("returns ok although field %s holds the result of a %s call (%s) that reported failure", fname, callee, p.instrPos(src))
					dup := false
					for _, x := range problems {
						if x == msg {
							dup = true
						}
					}
					if !dup {
						problems = append(problems, msg)
					}
				}
			}
		}
		switch {
		case len(problems) > 0:
			c.bad(key, p.pos(fn.Pos()), fnm+" "+strings.Join(problems, "; "))
		case evaluated == 0:
			c.undecided(key, p.pos(fn.Pos()), "cannot evaluate "+fnm+": "+und)
		case und != "" && trueWorlds == 0:
			c.undecided(key, p.pos(fn.Pos()), "cannot evaluate "+fnm+": "+und)
		default:
			c.ok(key, p.pos(fn.Pos()), fmt.Sprintf("%d worlds of %d part decoders evaluated; ok is returned in %d, each time with every used part decoded", evaluated, len(calls), trueWorlds))
		}
	}
}
