package main

import (
	"fmt"
	"go/token"
	"go/types"
	"strings"

	"golang.org/x/tools/go/ssa"
)

// Engine E10: every chainable operation is explored under the assumption "the incoming frame's Err is set".

func init() {
	register(&Rule{ID: "R20", Name: "STICKY", Floor: 25,
		Text: "each chainable QFrame/Grouper method, each FilterClause.filter, each Expression.execute, every exported method with an error result (the three writers, the typed view constructors) and Len are explored under the assumption that the incoming frame (or grouper) carries an error: branches on its Err resolve accordingly, frames returned by other such operations on an errored frame carry that error (greatest fixpoint over the operation set). On every path that remains feasible: no column kernel (Column.Filter/Apply1/Apply2/Aggregate/Subset/Rolling) is invoked, no user-supplied function value is called, and what is returned is errored (a frame/grouper carrying the incoming error - the frame itself, a copy whose Err is untouched, or one whose Err is set from the incoming Err, possibly wrapped by qerrors.Propagate, never a freshly constructed error; a non-nil error - so a failed frame hands out no view of its rows; Len = -1)",
		Run:  runR20})
}

var kernelMethods = map[string]bool{"Filter": true, "Apply1": true, "Apply2": true, "Aggregate": true, "Subset": true, "Rolling": true, "Append": true}

var r20Exempt = map[string]string{
	"(qframe.QFrame).Append": "documented as work in progress (`should not be used yet`); it does not check error status at all",
}

func isFrameType(t types.Type) bool {
	n, ok := t.(*types.Named)
	if !ok || n.Obj().Pkg() == nil || n.Obj().Pkg().Path() != modPath {
		return false
	}
	return n.Obj().Name() == "QFrame" || n.Obj().Name() == "Grouper"
}

type stickyEntry struct {
	fn       *ssa.Function
	frameIdx int // parameter index of the incoming frame/grouper
}

func stickyEntries(p *Prog) []stickyEntry {
	var out []stickyEntry
	for _, fn := range p.FuncsIn("") {
		if fn.Parent() != nil || fn.Signature.Recv() == nil {
			continue
		}
		rn, ok := deref(fn.Signature.Recv().Type()).(*types.Named)
		if !ok {
			continue
		}
		recv := rn.Obj().Name()
		name := fn.Name()
		res := fn.Signature.Results()
		switch {
		case recv == "QFrame" || recv == "Grouper":
			exported := fn.Object() != nil && fn.Object().Exported()
			returnsFrame := res.Len() >= 1 && isFrameType(res.At(0).Type())
			isWriter := name == "ToCSV" || name == "ToJSON" || name == "ToSQL"
			helper := name == "apply0" || name == "apply1" || name == "apply2" || name == "filter"
			returnsErr := res.Len() >= 1 && isErrorType(res.At(res.Len()-1).Type())
			switch {
			case exported && returnsFrame, isWriter, exported && returnsErr, helper, name == "Len" && recv == "QFrame", name == "QFrames":
				out = append(out, stickyEntry{fn, 0})
			}
		case name == "filter" && fn.Signature.Params().Len() == 1 && isFrameType(fn.Signature.Params().At(0).Type()):
			out = append(out, stickyEntry{fn, 1})
		case isExecuteSig(fn.Signature) && fn.Signature.Recv() != nil && fn.Signature.Params().Len() == 2 && isFrameType(fn.Signature.Params().At(0).Type()):
			out = append(out, stickyEntry{fn, 1})
		}
	}
	return out
}

type stickyPair struct {
	fn  *ssa.Function
	idx int
}

// auxiliaryPairs: helpers of the root package that take a frame/grouper and return one as first result
// (getFunc, extracted helpers such as "drop the intermediates"): they are judged like the mandatory
// entries but produce no obligation of their own.
func auxiliaryPairs(p *Prog) []stickyPair {
	var out []stickyPair
	for _, fn := range p.FuncsIn("") {
		if fn.Parent() != nil || fn.Signature.Results().Len() == 0 {
			continue
		}
		res := fn.Signature.Results()
		// helpers that hand back a frame, and helpers that report through an error result (a lookup helper of the
		// view constructors: under an errored frame its error is non-nil)
		if !isFrameType(res.At(0).Type()) && !isErrorType(res.At(res.Len()-1).Type()) {
			continue
		}
		for i, prm := range fn.Params {
			if isFrameType(prm.Type()) {
				out = append(out, stickyPair{fn, i})
			}
		}
	}
	return out
}

func runR20(c *Ctx) {
	p := c.P
	entries := stickyEntries(p)
	mandatory := map[stickyPair]bool{}
	passing := map[stickyPair]bool{}
	for _, e := range entries {
		mandatory[stickyPair{e.fn, e.frameIdx}] = true
		passing[stickyPair{e.fn, e.frameIdx}] = true
	}
	for _, pr := range auxiliaryPairs(p) {
		passing[pr] = true
	}
	res := p.resolver()
	problemsOf := map[stickyPair][]string{}
	statsOf := map[stickyPair]string{}
	// greatest fixpoint over the pair set
	for changed := true; changed; {
		changed = false
		for pr := range passing {
			if _, ex := r20Exempt[fname(pr.fn)]; ex {
				continue
			}
			probs, stat := stickyAnalyse(p, res, pr, passing)
			problemsOf[pr], statsOf[pr] = probs, stat
			if len(probs) > 0 {
				delete(passing, pr)
				changed = true
			}
		}
	}
	for _, e := range entries {
		pr := stickyPair{e.fn, e.frameIdx}
		name := fname(e.fn)
		key := name + "|under Err != nil"
		if why, ok := r20Exempt[name]; ok {
			c.okTrivial(key, p.pos(e.fn.Pos()), "frozen exception: "+why)
			continue
		}
		if passing[pr] {
			c.ok(key, p.pos(e.fn.Pos()), statsOf[pr])
		} else {
			probs := problemsOf[pr]
			if len(probs) > 3 {
				probs = append(probs[:3], fmt.Sprintf("... and %d more", len(probs)-3))
			}
			c.bad(key, p.pos(e.fn.Pos()), "with an errored incoming frame: "+strings.Join(probs, "; "))
		}
	}
}

// stickyAnalyse explores fn assuming parameter idx is errored; calls of pairs in `passing` with an
// errored frame yield errored results.
func stickyAnalyse(p *Prog, res *callResolver, pr stickyPair, passing map[stickyPair]bool) ([]string, string) {
	fn := pr.fn
	{
		frame := fn.Params[pr.idx]
		// greatest fixpoint of "errored" frame-typed values
		errored := map[ssa.Value]bool{}
		eachInstr(fn, func(in ssa.Instruction) {
			if v, ok := in.(ssa.Value); ok {
				errored[v] = true // optimistic start; pruned below
			}
		})
		errored[frame] = true
		justified := func(v ssa.Value) bool {
			switch t := v.(type) {
			case *ssa.Parameter:
				return t == frame
			case *ssa.Phi:
				for _, e := range t.Edges {
					if !errored[e] {
						return false
					}
				}
				return true
			case *ssa.UnOp:
				if t.Op != token.MUL {
					return false
				}
				al, ok := t.X.(*ssa.Alloc)
				if !ok {
					return false
				}
				n, whole := 0, true
				for _, r := range *al.Referrers() {
					switch s := r.(type) {
					case *ssa.Store:
						if s.Addr == ssa.Value(al) {
							n++
							if !errored[s.Val] {
								whole = false
							}
						}
					case *ssa.FieldAddr:
						st := deref(s.X.Type()).Underlying().(*types.Struct)
						fnm := st.Field(s.Field).Name()
						for _, r2 := range *s.Referrers() {
							if fs, ok := r2.(*ssa.Store); ok && fs.Addr == ssa.Value(s) {
								if fnm == "Err" {
									n++
									if !errValueIncoming(fs.Val, errored) {
										whole = false
									}
								}
							}
						}
					}
				}
				return n > 0 && whole
			case *ssa.Extract:
				if isErrorType(t.Type()) {
					return errored[t.Tuple] // the error result of an operation applied to an errored frame
				}
				return t.Index == 0 && errored[t.Tuple] && isFrameType(t.Type())
			case *ssa.Call:
				if o := calleeObj(t); o != nil && p.isErrSetter(o) {
					// the error installed must be the incoming one (possibly wrapped), not a fresh one
					for _, a := range t.Call.Args {
						if isErrorType(a.Type()) {
							return errValueIncoming(a, errored)
						}
					}
					return false
				}
				callees := res.callees(t)
				for _, callee := range callees {
					args := argsFor(t, callee)
					if args == nil {
						return false
					}
					okCallee := false
					for i := range args {
						if passing[stickyPair{callee, i}] && errored[args[i]] {
							okCallee = true
						}
					}
					if !okCallee {
						return false
					}
				}
				return len(callees) > 0
			}
			return false
		}
		for changed := true; changed; {
			changed = false
			for v := range errored {
				if v == ssa.Value(frame) {
					continue
				}
				if !justified(v) {
					delete(errored, v)
					changed = true
				}
			}
		}
		// feasible blocks
		reach := map[*ssa.BasicBlock]bool{}
		var dfs func(b *ssa.BasicBlock)
		dfs = func(b *ssa.BasicBlock) {
			if reach[b] {
				return
			}
			reach[b] = true
			follow := []bool{true, true}
			if iff, ok := b.Instrs[len(b.Instrs)-1].(*ssa.If); ok {
				if isErr, nonNilOnTrue := errTest(iff.Cond, errored); isErr {
					if nonNilOnTrue {
						follow[1] = false
					} else {
						follow[0] = false
					}
				}
			}
			for i, s := range b.Succs {
				if i < 2 && !follow[i] {
					continue
				}
				dfs(s)
			}
		}
		dfs(fn.Blocks[0])
		var problems []string
		for _, b := range fn.Blocks {
			if !reach[b] {
				continue
			}
			for _, in := range b.Instrs {
				switch t := in.(type) {
				case ssa.CallInstruction:
					cc := t.Common()
					if cc.IsInvoke() && kernelMethods[cc.Method.Name()] && cc.Method.Pkg() != nil && cc.Method.Pkg().Path() == rel("internal/column") {
						problems = append(problems, fmt.Sprintf("column kernel %s is invoked at %s", cc.Method.Name(), p.instrPos(in)))
					}
					if !cc.IsInvoke() && cc.StaticCallee() == nil && builtinName(t) == "" {
						if isUser, how := userFuncOrigin(cc.Value, 0); isUser && !isOptionCallback(cc) {
							problems = append(problems, fmt.Sprintf("a user-supplied function (%s) is called at %s", how, p.instrPos(in)))
						}
					}
				case *ssa.Return:
					for i, r := range t.Results {
						r = unspillResult(t, r)
						rt := fn.Signature.Results().At(i).Type()
						switch {
						case isFrameType(rt):
							if !errored[r] {
								problems = append(problems, fmt.Sprintf("the value returned at %s is not known to carry the incoming error (Err cleared, or replaced by a freshly constructed error)", p.instrPos(in)))
							}
						case isErrorType(rt):
							if cst, ok := r.(*ssa.Const); ok && cst.IsNil() {
								problems = append(problems, fmt.Sprintf("a nil error is returned at %s", p.instrPos(in)))
							} else if !ok && !feasiblyNonNil(r, errored, reach, b, 0) {
								// an error obtained from somewhere else (the writer's own error state, the result of a write):
								// nil whenever that something else went fine, although the frame is a failed one
								problems = append(problems, fmt.Sprintf("the error returned at %s (%s) does not stem from the incoming error and is not known to be non-nil there: the operation reports success for a failed frame whenever nothing else goes wrong", p.instrPos(in), describe(r)))
							}
						case fn.Name() == "Len":
							if k, ok := constInt(r); !ok || k != -1 {
								problems = append(problems, fmt.Sprintf("Len does not return -1 at %s", p.instrPos(in)))
							}
						}
					}
				}
			}
		}
		return problems, fmt.Sprintf("%d of %d blocks feasible; no kernel, no callback, errored result", len(reach), len(fn.Blocks))
	}
}

// feasiblyNonNil: the error value v, used in block b, is non-nil on every path that is feasible under the errored
// frame: it stems from the incoming error or a constructor, it was tested non-nil, or it is a phi all of whose
// edges from feasible predecessors are.
func feasiblyNonNil(v ssa.Value, errored map[ssa.Value]bool, reach map[*ssa.BasicBlock]bool, b *ssa.BasicBlock, d int) bool {
	if errValueNonNil(v, errored) || testedNonNil(v, b) {
		return true
	}
	phi, ok := v.(*ssa.Phi)
	if !ok || d > 4 {
		return false
	}
	n := 0
	for i, e := range phi.Edges {
		pred := phi.Block().Preds[i]
		if !reach[pred] {
			continue
		}
		n++
		if cst, isC := e.(*ssa.Const); isC && cst.IsNil() {
			return false
		}
		if !feasiblyNonNil(e, errored, reach, pred, d+1) {
			return false
		}
	}
	return n > 0
}

// testedNonNil: block b is entered only when v != nil.
func testedNonNil(v ssa.Value, b *ssa.BasicBlock) bool {
	for _, g := range dominatingGuards(b) {
		cond, val := unNot(g.Cond, g.Val)
		cmp, ok := cond.(*ssa.BinOp)
		if !ok || cmp.X != v && cmp.Y != v && !isSpilledCopyOf(cmp.X, v) && !isSpilledCopyOf(cmp.Y, v) {
			continue
		}
		other := cmp.Y
		if cmp.Y == v {
			other = cmp.X
		}
		if cst, ok := other.(*ssa.Const); ok && cst.IsNil() {
			if cmp.Op == token.NEQ && val || cmp.Op == token.EQL && !val {
				return true
			}
		}
	}
	return false
}

// isOptionCallback: a configuration option (func(*Config)) rather than a row callback.
func isOptionCallback(cc *ssa.CallCommon) bool {
	sig := cc.Signature()
	if sig.Params().Len() != 1 || sig.Results().Len() > 1 {
		return false
	}
	pt, ok := sig.Params().At(0).Type().(*types.Pointer)
	if !ok {
		return false
	}
	n, ok := pt.Elem().(*types.Named)
	return ok && strings.HasSuffix(n.Obj().Name(), "Config")
}

// errTest: cond is `X.Err != nil` / `X.Err == nil` for an errored X; returns whether the true edge means non-nil.
func errTest(cond ssa.Value, errored map[ssa.Value]bool) (bool, bool) {
	cv, val := unNot(cond, true)
	b, ok := cv.(*ssa.BinOp)
	if !ok || b.Op != token.NEQ && b.Op != token.EQL {
		return false, false
	}
	var side ssa.Value
	if cst, ok := b.Y.(*ssa.Const); ok && cst.IsNil() {
		side = b.X
	} else if cst, ok := b.X.(*ssa.Const); ok && cst.IsNil() {
		side = b.Y
	} else {
		return false, false
	}
	if !errValueNonNil(side, errored) {
		return false, false
	}
	nonNilOnTrue := (b.Op == token.NEQ) == val
	return true, nonNilOnTrue
}

// errValueIncoming: v is the Err of an errored frame, possibly wrapped by qerrors.Propagate - "that error",
// not a freshly constructed one.
func errValueIncoming(v ssa.Value, errored map[ssa.Value]bool) bool {
	if fld, _ := fieldOf(v); fld != nil && fld.Name() == "Err" {
		return errValueNonNil(v, errored)
	}
	switch t := v.(type) {
	case *ssa.MakeInterface:
		return errValueIncoming(t.X, errored)
	case *ssa.ChangeInterface:
		return errValueIncoming(t.X, errored)
	case *ssa.Call:
		if o := calleeObj(t); o != nil && o.Pkg() != nil && o.Pkg().Path() == rel("qerrors") && o.Name() == "Propagate" {
			for _, a := range t.Call.Args {
				if isErrorType(a.Type()) {
					return errValueIncoming(a, errored)
				}
			}
		}
	case *ssa.Phi:
		for _, e := range t.Edges {
			if !errValueIncoming(e, errored) {
				return false
			}
		}
		return len(t.Edges) > 0
	}
	return false
}

// errValueNonNil: v is the Err of an errored frame, or a freshly constructed error.
func errValueNonNil(v ssa.Value, errored map[ssa.Value]bool) bool {
	if errored[v] && isErrorType(v.Type()) {
		if _, isCall := v.(*ssa.Call); isCall {
			return true
		}
		if _, isEx := v.(*ssa.Extract); isEx {
			return true
		}
	}
	if fld, x := fieldOf(v); fld != nil && fld.Name() == "Err" {
		if errored[x] {
			return true
		}
		// field of the spilled parameter / of a local holding an errored value
		if al, ok := x.(*ssa.Alloc); ok {
			okAll, n := true, 0
			for _, r := range *al.Referrers() {
				if s, ok := r.(*ssa.Store); ok && s.Addr == ssa.Value(al) {
					n++
					if !errored[s.Val] {
						okAll = false
					}
				}
			}
			return n > 0 && okAll
		}
		return false
	}
	switch t := v.(type) {
	case *ssa.MakeInterface:
		return errValueNonNil(t.X, errored)
	case *ssa.Call:
		if o := calleeObj(t); o != nil && o.Pkg() != nil {
			if o.Pkg().Path() == rel("qerrors") && (o.Name() == "New" || o.Name() == "Propagate") {
				return true
			}
		}
	case *ssa.Phi:
		for _, e := range t.Edges {
			if !errValueNonNil(e, errored) {
				return false
			}
		}
		return len(t.Edges) > 0
	}
	return false
}
