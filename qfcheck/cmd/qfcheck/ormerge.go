package main

import (
	"fmt"
	"go/token"
	"go/types"
	"strings"

	"golang.org/x/tools/go/ssa"
)

// R119: the union of two filter results (orFrames) as a loop invariant.

func init() {
	register(&Rule{ID: "R119", Name: "OR-MERGE", Floor: 14,
		Text: "qframe.orFrames - which unions the rows kept by two sub-clauses of an Or - walks the original frame's index once with one cursor into each side's index. Given that both sides are subsequences of the original index (R8, R7), the result is their union in frame order if and only if one iteration, for every state of the two sides (exhausted, head equals the current row, head differs), appends the current row of the *original* exactly when some side's head equals it, advances exactly the cursors whose head matched by one, and never reads the head of an exhausted side; and both cursors start at 0. The iteration is evaluated (E5) from the loop header back to it in the nine worlds; the start values are read off the header's phis. The same is done for NotClause.filter, the complement of a sub-clause's result: one cursor, three worlds, the row is appended exactly when the sub-clause's head does not equal it",
		Run:  runR119})
}

func runR119(c *Ctx) {
	p := c.P
	// The merge loops are located structurally: a loop of a root-package function that ranges over an index.Int
	// (the original frame's rows), carries a result index that it appends to, and one cursor per other index
	// (an int compared with that index's length, or the not yet consumed rest of that index). The loop with two
	// sides must be reachable from OrClause.filter (union), the loop with one side from NotClause.filter
	// (complement) - in the method itself or in a helper it calls.
	reach := func(root *ssa.Function) []*ssa.Function {
		if root == nil {
			return nil
		}
		out := []*ssa.Function{root}
		seen := map[*ssa.Function]bool{root: true}
		level := []*ssa.Function{root}
		for d := 0; d < 4; d++ {
			var next []*ssa.Function
			for _, f := range level {
				// function literals of f (local closures such as `merge := func(...)` may be called through a
				// captured variable, which no static callee shows)
				for _, an := range f.AnonFuncs {
					if !seen[an] {
						seen[an] = true
						out = append(out, an)
						next = append(next, an)
					}
				}
				eachInstr(f, func(in ssa.Instruction) {
					if call, ok := in.(*ssa.Call); ok {
						if g := call.Call.StaticCallee(); g != nil && g.Pkg == root.Pkg && g.Blocks != nil && !seen[g] && g.Signature.Recv() == nil {
							seen[g] = true
							out = append(out, g)
							next = append(next, g)
						}
					}
				})
			}
			level = next
		}
		return out
	}
	type found struct {
		fn    *ssa.Function
		orig  ssa.Value
		sides []ssa.Value
	}
	find := func(root *ssa.Function, nSides int) *found {
		for _, f := range reach(root) {
			if orig, sides := mergeLoopShape(f); orig != nil && len(sides) == nSides {
				return &found{f, orig, sides}
			}
		}
		return nil
	}
	if m := find(p.Func("", "OrClause.filter"), 2); m != nil {
		mergeLoop(c, m.fn, m.orig, m.sides, func(st []int) bool { return st[0] == 1 || st[1] == 1 }, "some side's head equals it")
	} else {
		c.undecided("qframe.OrClause.filter|loop", "-", "no loop that walks the original index with one cursor into each of two other indexes is reachable from OrClause.filter")
	}
	if m := find(p.Func("", "NotClause.filter"), 1); m != nil {
		mergeLoop(c, m.fn, m.orig, m.sides, func(st []int) bool { return st[0] != 1 }, "the sub-clause's head does not equal it")
	} else {
		c.undecided("qframe.NotClause.filter|loop", "-", "no loop that walks the original index with one cursor into the sub-clause's index is reachable from NotClause.filter")
	}
}

// mergeOwner: the parameter / local a value is read from.
func mergeOwner(v ssa.Value) ssa.Value {
	for d := 0; d < 8 && v != nil; d++ {
		switch t := v.(type) {
		case *ssa.Parameter:
			return t
		case *ssa.Alloc:
			return t
		case *ssa.UnOp:
			v = t.X
		case *ssa.FieldAddr:
			v = t.X
		case *ssa.Field:
			v = t.X
		case *ssa.IndexAddr:
			v = t.X
		case *ssa.Phi:
			return t
		default:
			return nil
		}
	}
	return nil
}

func mergeLenArg(v ssa.Value) ssa.Value {
	call, ok := v.(*ssa.Call)
	if !ok {
		return nil
	}
	if builtinName(call) == "len" {
		return call.Call.Args[0]
	}
	if o := calleeObj(call); o != nil && o.Name() == "Len" && len(call.Call.Args) == 1 && isIntIndexType(call.Call.Args[0].Type()) {
		return call.Call.Args[0]
	}
	return nil
}

// mergeLoopShape: (owner of the index the loop ranges over, owners of the indexes it keeps a cursor into),
// or nil when fn has no such loop.
func mergeLoopShape(fn *ssa.Function) (ssa.Value, []ssa.Value) {
	for _, li := range loopsOf(fn) {
		if li.base == nil || !isIntIndexType(li.base.Type()) {
			continue
		}
		orig := mergeOwner(li.base)
		if orig == nil {
			continue
		}
		var sides []ssa.Value
		hasResult := false
		for _, in := range li.header.Instrs {
			phi, ok := in.(*ssa.Phi)
			if !ok {
				break
			}
			if isIntIndexType(phi.Type()) {
				if side := restCursorSide(phi, li); side != nil {
					if side != orig {
						sides = append(sides, side)
					}
				} else {
					hasResult = true
				}
				continue
			}
			for _, r := range *phi.Referrers() {
				if cmp, ok := r.(*ssa.BinOp); ok && cmp.Op == token.LSS && cmp.X == ssa.Value(phi) {
					if la := mergeLenArg(cmp.Y); la != nil && isIntIndexType(la.Type()) {
						if o := mergeOwner(la); o != nil && o != orig {
							sides = append(sides, o)
						}
					}
				}
			}
		}
		if hasResult && len(sides) > 0 {
			return orig, sides
		}
	}
	return nil, nil
}

// restCursorSide: phi is a cursor of the form `rest := side.index; ...; rest = rest[1:]` - its edge from outside
// the loop is a whole index (owner returned) and its edges from inside are the phi itself or phi[1:].
func restCursorSide(phi *ssa.Phi, li loopInfo) ssa.Value {
	var side ssa.Value
	for i, e := range phi.Edges {
		pred := phi.Block().Preds[i]
		if !inLoop(li, pred) {
			if _, isMk := e.(*ssa.MakeSlice); isMk {
				return nil
			}
			side = mergeOwner(e)
			if side == nil {
				return nil
			}
			continue
		}
		if !restAdvance(e, phi, 0) {
			return nil
		}
	}
	return side
}

// restAdvance: v is phi, phi[1:], or a phi of those.
func restAdvance(v ssa.Value, phi *ssa.Phi, d int) bool {
	if d > 4 {
		return false
	}
	if v == ssa.Value(phi) {
		return true
	}
	switch t := v.(type) {
	case *ssa.Slice:
		if t.X == ssa.Value(phi) && t.High == nil && t.Low != nil {
			if k, ok := constInt(t.Low); ok && k == 1 {
				return true
			}
		}
	case *ssa.Phi:
		for _, e := range t.Edges {
			if !restAdvance(e, phi, d+1) {
				return false
			}
		}
		return len(t.Edges) > 0
	}
	return false
}

// mergeLoop checks the single loop of fn that walks orig's index with one cursor per side.
func mergeLoop(c *Ctx, fn *ssa.Function, orig ssa.Value, sides []ssa.Value, wantAppend func(st []int) bool, wantText string) {
	p := c.P
	fnm := fname(fn)
	nameOf := func(v ssa.Value) string {
		switch t := v.(type) {
		case *ssa.Parameter:
			return t.Name()
		case *ssa.Alloc:
			return t.Comment
		}
		return v.Name()
	}
	isSide := func(o ssa.Value) bool {
		for _, s := range sides {
			if s == o {
				return true
			}
		}
		return false
	}
	var loop *loopInfo
	for _, li := range loopsOf(fn) {
		li := li
		if li.base != nil && mergeOwner(li.base) == orig && isIntIndexType(li.base.Type()) {
			loop = &li
		}
	}
	if loop == nil {
		c.undecided(fnm+"|loop", p.pos(fn.Pos()), "no loop over the original frame's index")
		return
	}
	hdr := loop.header
	// a cursor is an int position into the side's index, or the not yet consumed rest of that index
	type cur struct {
		phi  *ssa.Phi
		rest bool
	}
	cursor := map[ssa.Value]*cur{}
	byPhi := map[*ssa.Phi]ssa.Value{}
	var result *ssa.Phi
	for _, in := range hdr.Instrs {
		phi, ok := in.(*ssa.Phi)
		if !ok {
			break
		}
		if isIntIndexType(phi.Type()) {
			if side := restCursorSide(phi, *loop); side != nil && isSide(side) {
				cursor[side] = &cur{phi, true}
				byPhi[phi] = side
			} else {
				result = phi
			}
			continue
		}
		for _, r := range *phi.Referrers() {
			if cmp, ok := r.(*ssa.BinOp); ok && cmp.Op == token.LSS && cmp.X == ssa.Value(phi) {
				if la := mergeLenArg(cmp.Y); la != nil {
					if o := mergeOwner(la); o != nil && isSide(o) {
						cursor[o] = &cur{phi, false}
						byPhi[phi] = o
					}
				}
			}
		}
	}
	if result == nil || len(cursor) != len(sides) {
		c.undecided(fnm+"|loop state", p.pos(fn.Pos()), "the loop does not carry a result index and one cursor per side")
		return
	}
	{
		key := fnm + "|start"
		var bad []string
		for i, pred := range hdr.Preds {
			if inLoop(*loop, pred) {
				continue
			}
			for _, s := range sides {
				cu := cursor[s]
				if cu.rest {
					if _, isSlice := cu.phi.Edges[i].(*ssa.Slice); isSlice {
						bad = append(bad, fmt.Sprintf("the unconsumed rest of %s does not start as the whole index", nameOf(s)))
					}
					continue
				}
				if k, isK := constInt(cu.phi.Edges[i]); !isK || k != 0 {
					bad = append(bad, fmt.Sprintf("the cursor into %s starts at %s", nameOf(s), describe(cu.phi.Edges[i])))
				}
			}
			if mk, ok := result.Edges[i].(*ssa.MakeSlice); ok {
				if k, isK := constInt(mk.Len); !isK || k != 0 {
					bad = append(bad, "the result starts with "+describe(mk.Len)+" elements")
				}
			} else {
				bad = append(bad, "the result does not start as a fresh empty index")
			}
		}
		if len(bad) > 0 {
			c.bad(key, p.pos(fn.Pos()), strings.Join(bad, "; "))
		} else {
			c.ok(key, p.pos(fn.Pos()), "every cursor starts at the beginning of its index, the result starts empty")
		}
	}
	isRow := func(v ssa.Value) bool {
		ld, ok := v.(*ssa.UnOp)
		if !ok || ld.Op != token.MUL {
			return false
		}
		ia, ok := ld.X.(*ssa.IndexAddr)
		return ok && ia.Index == loop.key && mergeOwner(ia.X) == orig
	}
	headOf := func(v ssa.Value) ssa.Value {
		ld, ok := v.(*ssa.UnOp)
		if !ok || ld.Op != token.MUL {
			return nil
		}
		ia, ok := ld.X.(*ssa.IndexAddr)
		if !ok {
			return nil
		}
		// rest[0]
		if ph, ok := ia.X.(*ssa.Phi); ok {
			if side, ok := byPhi[ph]; ok && cursor[side].rest {
				if k, isK := constInt(ia.Index); isK && k == 0 {
					return side
				}
			}
			return nil
		}
		o := mergeOwner(ia.X)
		if o == nil || cursor[o] == nil || cursor[o].rest || ia.Index != ssa.Value(cursor[o].phi) {
			return nil
		}
		return o
	}
	states := []string{"exhausted", "head is the row", "head is a later row"}
	nWorlds := 1
	for range sides {
		nWorlds *= 3
	}
	for w := 0; w < nWorlds; w++ {
		st := map[ssa.Value]int{}
		var stv []int
		var descr []string
		x := w
		for _, s := range sides {
			st[s] = x % 3
			stv = append(stv, x%3)
			descr = append(descr, nameOf(s)+": "+states[x%3])
			x /= 3
		}
		key := fmt.Sprintf("%s|step %s", fnm, strings.Join(descr, ", "))
		pe := &pathExec{fn: fn, start: hdr}
		pe.stopAt = func(b *ssa.BasicBlock) bool { return b == hdr }
		var problems []string
		atom := func(v ssa.Value) (bool, bool) {
			b, ok := v.(*ssa.BinOp)
			if !ok {
				return false, false
			}
			if iff, ok := hdr.Instrs[len(hdr.Instrs)-1].(*ssa.If); ok && v == iff.Cond {
				return true, true
			}
			if la := mergeLenArg(b.Y); la != nil && (b.Op == token.LSS || b.Op == token.GEQ) {
				if o := mergeOwner(la); o != nil && cursor[o] != nil && !cursor[o].rest && b.X == ssa.Value(cursor[o].phi) {
					return (st[o] != 0) == (b.Op == token.LSS), true
				}
			}
			// len(rest) compared with a constant
			if la := mergeLenArg(b.X); la != nil {
				if ph, ok := pe.resolve(la).(*ssa.Phi); ok {
					if side, ok := byPhi[ph]; ok && cursor[side].rest {
						if k, isK := constInt(b.Y); isK {
							nonEmpty := st[side] != 0
							switch {
							case b.Op == token.GTR && k == 0, b.Op == token.NEQ && k == 0, b.Op == token.GEQ && k == 1:
								return nonEmpty, true
							case b.Op == token.EQL && k == 0, b.Op == token.LEQ && k == 0, b.Op == token.LSS && k == 1:
								return !nonEmpty, true
							}
						}
					}
				}
			}
			if b.Op == token.EQL || b.Op == token.NEQ {
				var o ssa.Value
				switch {
				case isRow(pe.resolve(b.Y)):
					o = headOf(pe.resolve(b.X))
				case isRow(pe.resolve(b.X)):
					o = headOf(pe.resolve(b.Y))
				}
				if o != nil {
					if st[o] == 0 {
						problems = append(problems, fmt.Sprintf("the head of %s is read although that side is exhausted (index out of range)", nameOf(o)))
						return false, true
					}
					return (st[o] == 1) == (b.Op == token.EQL), true
				}
			}
			return false, false
		}
		pe.oracle = func(pe *pathExec, cond ssa.Value) (bool, bool) { return pe.evalBool(cond, atom) }
		_, why := pe.run()
		if pe.stopped != hdr {
			c.undecided(key, p.pos(fn.Pos()), "one iteration cannot be evaluated: "+why)
			continue
		}
		latch := pe.path[len(pe.path)-1]
		pi := -1
		for i, pred := range hdr.Preds {
			if pred == latch {
				pi = i
			}
		}
		for _, s := range sides {
			cu := cursor[s]
			nv := pe.resolve(cu.phi.Edges[pi])
			adv := int64(-1)
			switch {
			case nv == ssa.Value(cu.phi):
				adv = 0
			case cu.rest:
				if sl, ok := nv.(*ssa.Slice); ok && pe.resolve(sl.X) == ssa.Value(cu.phi) && sl.High == nil && sl.Low != nil {
					if k, isK := constInt(sl.Low); isK {
						adv = k
					}
				}
			default:
				if add, ok := nv.(*ssa.BinOp); ok && add.Op == token.ADD && add.X == ssa.Value(cu.phi) {
					if k, isK := constInt(add.Y); isK {
						adv = k
					}
				}
			}
			want := int64(0)
			if st[s] == 1 {
				want = 1
			}
			if adv != want {
				problems = append(problems, fmt.Sprintf("the cursor into %s moves by %d, expected %d", nameOf(s), adv, want))
			}
		}
		nr := pe.resolve(result.Edges[pi])
		appended := nr != ssa.Value(result)
		wantApp := wantAppend(stv)
		if appended {
			call, ok := nr.(*ssa.Call)
			okApp := ok && builtinName(call) == "append" && pe.resolve(call.Call.Args[0]) == ssa.Value(result)
			if okApp {
				okApp = false
				if sl, ok := call.Call.Args[1].(*ssa.Slice); ok {
					if al, ok := sl.X.(*ssa.Alloc); ok {
						for _, r := range *al.Referrers() {
							if ia, ok := r.(*ssa.IndexAddr); ok {
								for _, r2 := range *ia.Referrers() {
									if stv, ok := r2.(*ssa.Store); ok && isRow(pe.resolve(stv.Val)) {
										okApp = true
									}
								}
							}
						}
						if arr, ok := deref(al.Type()).Underlying().(*types.Array); !ok || arr.Len() != 1 {
							okApp = false
						}
					}
				}
			}
			if !okApp {
				problems = append(problems, "what is appended to the result is not exactly the current row of the original frame")
			}
		}
		if appended != wantApp {
			problems = append(problems, fmt.Sprintf("the row is appended: %v, expected %v (a row belongs to the result exactly when %s)", appended, wantApp, wantText))
		}
		if len(problems) > 0 {
			c.bad(key, p.pos(fn.Pos()), strings.Join(problems, "; "))
		} else {
			c.ok(key, p.pos(fn.Pos()), fmt.Sprintf("appended: %v; cursors advance exactly where the head matched", appended))
		}
	}
}
