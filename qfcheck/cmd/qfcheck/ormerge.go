package main

import (
	"fmt"
	"go/token"
	"go/types"
	"strings"

	"golang.org/x/tools/go/ssa"
)

// R119: the union of two filter results (orFrames) as a loop invariant.

func init() {
	register(&Rule{ID: "R119", Name: "OR-MERGE", Floor: 14,
		Text: "qframe.orFrames - which unions the rows kept by two sub-clauses of an Or - walks the original frame's index once with one cursor into each side's index. Given that both sides are subsequences of the original index (R8, R7), the result is their union in frame order if and only if one iteration, for every state of the two sides (exhausted, head equals the current row, head differs), appends the current row of the *original* exactly when some side's head equals it, advances exactly the cursors whose head matched by one, and never reads the head of an exhausted side; and both cursors start at 0. The iteration is evaluated (E5) from the loop header back to it in the nine worlds; the start values are read off the header's phis. The same is done for NotClause.filter, the complement of a sub-clause's result: one cursor, three worlds, the row is appended exactly when the sub-clause's head does not equal it",
		Run:  runR119})
}

func runR119(c *Ctx) {
	p := c.P
	fn := p.Func("", "orFrames")
	if fn == nil {
		// located structurally: a function of the root package with three *QFrame parameters
		for _, f := range p.FuncsIn("") {
			if len(f.Params) == 3 && f.Parent() == nil {
				all := true
				for _, prm := range f.Params {
					ptr, ok := prm.Type().(*types.Pointer)
					if !ok {
						all = false
						break
					}
					if n, ok := ptr.Elem().(*types.Named); !ok || n.Obj().Name() != "QFrame" {
						all = false
					}
				}
				if all {
					fn = f
				}
			}
		}
	}
	if fn == nil || len(fn.Params) != 3 {
		c.undecided("qframe.orFrames", "-", "the function that unions two filter results was not found")
	} else {
		mergeLoop(c, fn, fn.Params[0], []ssa.Value{fn.Params[1], fn.Params[2]}, func(st []int) bool { return st[0] == 1 || st[1] == 1 },
			"some side's head equals it")
	}
	// the complement of a sub-clause's result (NotClause): one cursor, rows appended when the head does NOT match
	nf := p.Func("", "NotClause.filter")
	if nf == nil || len(nf.Params) != 2 {
		c.undecided("qframe.NotClause.filter", "-", "not found")
		return
	}
	// the frame parameter is spilled to a local; the sub-clause's result is the local holding the result of the
	// dynamic filter call
	var origObj, sideObj ssa.Value
	eachInstr(nf, func(in ssa.Instruction) {
		st, ok := in.(*ssa.Store)
		if !ok {
			return
		}
		al, ok := st.Addr.(*ssa.Alloc)
		if !ok {
			return
		}
		if st.Val == ssa.Value(nf.Params[1]) {
			origObj = al
		}
		if call, ok := st.Val.(*ssa.Call); ok && call.Call.IsInvoke() && call.Call.Method.Name() == "filter" {
			sideObj = al
		}
	})
	if origObj == nil {
		origObj = nf.Params[1]
	}
	if sideObj == nil {
		c.undecided(fname(nf)+"|loop", p.pos(nf.Pos()), "the local holding the sub-clause's result was not found")
		return
	}
	mergeLoop(c, nf, origObj, []ssa.Value{sideObj}, func(st []int) bool { return st[0] != 1 }, "the sub-clause's head does not equal it")
}

// mergeLoop checks the single loop of fn that walks orig's index with one cursor per side.
func mergeLoop(c *Ctx, fn *ssa.Function, orig ssa.Value, sides []ssa.Value, wantAppend func(st []int) bool, wantText string) {
	p := c.P
	fnm := fname(fn)
	nameOf := func(v ssa.Value) string {
		switch t := v.(type) {
		case *ssa.Parameter:
			return t.Name()
		case *ssa.Alloc:
			return t.Comment
		}
		return v.Name()
	}
	ownerOf := func(v ssa.Value) ssa.Value {
		for d := 0; d < 8 && v != nil; d++ {
			switch t := v.(type) {
			case *ssa.Parameter:
				return t
			case *ssa.Alloc:
				return t
			case *ssa.UnOp:
				v = t.X
			case *ssa.FieldAddr:
				v = t.X
			case *ssa.Field:
				v = t.X
			case *ssa.IndexAddr:
				v = t.X
			default:
				return nil
			}
		}
		return nil
	}
	isSide := func(o ssa.Value) bool {
		for _, s := range sides {
			if s == o {
				return true
			}
		}
		return false
	}
	// len(x) or x.Len() of an index
	lenArg := func(v ssa.Value) ssa.Value {
		call, ok := v.(*ssa.Call)
		if !ok {
			return nil
		}
		if builtinName(call) == "len" {
			return call.Call.Args[0]
		}
		if o := calleeObj(call); o != nil && o.Name() == "Len" && len(call.Call.Args) == 1 && isIntIndexType(call.Call.Args[0].Type()) {
			return call.Call.Args[0]
		}
		return nil
	}
	var loop *loopInfo
	for _, li := range loopsOf(fn) {
		li := li
		if li.base != nil && ownerOf(li.base) == orig && isIntIndexType(li.base.Type()) {
			loop = &li
		}
	}
	if loop == nil {
		c.undecided(fnm+"|loop", p.pos(fn.Pos()), "no loop over the original frame's index")
		return
	}
	hdr := loop.header
	cursor := map[ssa.Value]*ssa.Phi{}
	var result *ssa.Phi
	for _, in := range hdr.Instrs {
		phi, ok := in.(*ssa.Phi)
		if !ok {
			break
		}
		if isIntIndexType(phi.Type()) {
			result = phi
			continue
		}
		for _, r := range *phi.Referrers() {
			if cmp, ok := r.(*ssa.BinOp); ok && cmp.Op == token.LSS && cmp.X == ssa.Value(phi) {
				if la := lenArg(cmp.Y); la != nil {
					if o := ownerOf(la); o != nil && isSide(o) {
						cursor[o] = phi
					}
				}
			}
		}
	}
	if result == nil || len(cursor) != len(sides) {
		c.undecided(fnm+"|loop state", p.pos(fn.Pos()), "the loop does not carry a result index and one cursor per side")
		return
	}
	{
		key := fnm + "|start"
		var bad []string
		for i, pred := range hdr.Preds {
			if inLoop(*loop, pred) {
				continue
			}
			for _, s := range sides {
				if k, isK := constInt(cursor[s].Edges[i]); !isK || k != 0 {
					bad = append(bad, fmt.Sprintf("the cursor into %s starts at %s", nameOf(s), describe(cursor[s].Edges[i])))
				}
			}
			if mk, ok := result.Edges[i].(*ssa.MakeSlice); ok {
				if k, isK := constInt(mk.Len); !isK || k != 0 {
					bad = append(bad, "the result starts with "+describe(mk.Len)+" elements")
				}
			} else {
				bad = append(bad, "the result does not start as a fresh empty index")
			}
		}
		if len(bad) > 0 {
			c.bad(key, p.pos(fn.Pos()), strings.Join(bad, "; "))
		} else {
			c.ok(key, p.pos(fn.Pos()), "every cursor starts at 0, the result starts empty")
		}
	}
	isRow := func(v ssa.Value) bool {
		ld, ok := v.(*ssa.UnOp)
		if !ok || ld.Op != token.MUL {
			return false
		}
		ia, ok := ld.X.(*ssa.IndexAddr)
		return ok && ia.Index == loop.key && ownerOf(ia.X) == orig
	}
	headOf := func(v ssa.Value) ssa.Value {
		ld, ok := v.(*ssa.UnOp)
		if !ok || ld.Op != token.MUL {
			return nil
		}
		ia, ok := ld.X.(*ssa.IndexAddr)
		if !ok {
			return nil
		}
		o := ownerOf(ia.X)
		if o == nil || cursor[o] == nil || ia.Index != ssa.Value(cursor[o]) {
			return nil
		}
		return o
	}
	states := []string{"exhausted", "head is the row", "head is a later row"}
	nWorlds := 1
	for range sides {
		nWorlds *= 3
	}
	for w := 0; w < nWorlds; w++ {
		st := map[ssa.Value]int{}
		var stv []int
		var descr []string
		x := w
		for _, s := range sides {
			st[s] = x % 3
			stv = append(stv, x%3)
			descr = append(descr, nameOf(s)+": "+states[x%3])
			x /= 3
		}
		key := fmt.Sprintf("%s|step %s", fnm, strings.Join(descr, ", "))
		pe := &pathExec{fn: fn, start: hdr}
		pe.stopAt = func(b *ssa.BasicBlock) bool { return b == hdr }
		var problems []string
		atom := func(v ssa.Value) (bool, bool) {
			b, ok := v.(*ssa.BinOp)
			if !ok {
				return false, false
			}
			if iff, ok := hdr.Instrs[len(hdr.Instrs)-1].(*ssa.If); ok && v == iff.Cond {
				return true, true
			}
			if la := lenArg(b.Y); la != nil && (b.Op == token.LSS || b.Op == token.GEQ) {
				if o := ownerOf(la); o != nil && cursor[o] != nil && b.X == ssa.Value(cursor[o]) {
					return (st[o] != 0) == (b.Op == token.LSS), true
				}
			}
			if b.Op == token.EQL || b.Op == token.NEQ {
				var o ssa.Value
				switch {
				case isRow(b.Y):
					o = headOf(b.X)
				case isRow(b.X):
					o = headOf(b.Y)
				}
				if o != nil {
					if st[o] == 0 {
						problems = append(problems, fmt.Sprintf("the head of %s is read although that side is exhausted (index out of range)", nameOf(o)))
						return false, true
					}
					return (st[o] == 1) == (b.Op == token.EQL), true
				}
			}
			return false, false
		}
		pe.oracle = func(pe *pathExec, cond ssa.Value) (bool, bool) { return pe.evalBool(cond, atom) }
		_, why := pe.run()
		if pe.stopped != hdr {
			c.undecided(key, p.pos(fn.Pos()), "one iteration cannot be evaluated: "+why)
			continue
		}
		latch := pe.path[len(pe.path)-1]
		pi := -1
		for i, pred := range hdr.Preds {
			if pred == latch {
				pi = i
			}
		}
		for _, s := range sides {
			nv := pe.resolve(cursor[s].Edges[pi])
			adv := int64(-1)
			if nv == ssa.Value(cursor[s]) {
				adv = 0
			} else if add, ok := nv.(*ssa.BinOp); ok && add.Op == token.ADD && add.X == ssa.Value(cursor[s]) {
				if k, isK := constInt(add.Y); isK {
					adv = k
				}
			}
			want := int64(0)
			if st[s] == 1 {
				want = 1
			}
			if adv != want {
				problems = append(problems, fmt.Sprintf("the cursor into %s moves by %d, expected %d", nameOf(s), adv, want))
			}
		}
		nr := pe.resolve(result.Edges[pi])
		appended := nr != ssa.Value(result)
		wantApp := wantAppend(stv)
		if appended {
			call, ok := nr.(*ssa.Call)
			okApp := ok && builtinName(call) == "append" && pe.resolve(call.Call.Args[0]) == ssa.Value(result)
			if okApp {
				okApp = false
				if sl, ok := call.Call.Args[1].(*ssa.Slice); ok {
					if al, ok := sl.X.(*ssa.Alloc); ok {
						for _, r := range *al.Referrers() {
							if ia, ok := r.(*ssa.IndexAddr); ok {
								for _, r2 := range *ia.Referrers() {
									if stv, ok := r2.(*ssa.Store); ok && isRow(pe.resolve(stv.Val)) {
										okApp = true
									}
								}
							}
						}
						if arr, ok := deref(al.Type()).Underlying().(*types.Array); !ok || arr.Len() != 1 {
							okApp = false
						}
					}
				}
			}
			if !okApp {
				problems = append(problems, "what is appended to the result is not exactly the current row of the original frame")
			}
		}
		if appended != wantApp {
			problems = append(problems, fmt.Sprintf("the row is appended: %v, expected %v (a row belongs to the result exactly when %s)", appended, wantApp, wantText))
		}
		if len(problems) > 0 {
			c.bad(key, p.pos(fn.Pos()), strings.Join(problems, "; "))
		} else {
			c.ok(key, p.pos(fn.Pos()), fmt.Sprintf("appended: %v; cursors advance exactly where the head matched", appended))
		}
	}
}
