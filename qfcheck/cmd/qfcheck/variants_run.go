package main

func runVariantCatalogue(spec *PropSpec, repo, verif string) interface{} { return nil }
