package main

import (
	"encoding/json"
	"fmt"
	"os"
	"os/exec"
	"path/filepath"
	"sort"
	"strings"
	"sync"
)

// Thorough tier: the seeded-variant catalogue. Each catalogued edit of /repo's current sources is
// analysed (never executed) in a separate process through go/packages' overlay, and the confirmed
// seeds under /verif/seeded/<id> whose property matches are applied to a scratch copy of the tree
// (under $TMPDIR, removed immediately). Results are evidence of the checker's power on today's
// code; they never change the property's verdict.

type variant struct {
	ID       string `json:"id"`
	Property string `json:"property"`
	File     string `json:"file"`
	Old      string `json:"old"`
	New      string `json:"new"`
	Expect   string `json:"expect"`
	Kind     string `json:"kind"`
	Note     string `json:"note"`
}

type variantResult struct {
	ID       string   `json:"id"`
	Kind     string   `json:"kind"`
	Outcome  string   `json:"outcome"` // detected | detected-other-rule | MISSED | silent (benign ok) | FALSE-ALARM | skipped | invalid
	Expect   string   `json:"expect,omitempty"`
	Reported []string `json:"reported,omitempty"`
	Note     string   `json:"note,omitempty"`
}

func runVariantCatalogue(spec *PropSpec, repo, verif string) interface{} {
	self, err := os.Executable()
	if err != nil {
		return map[string]string{"error": err.Error()}
	}
	var cat struct {
		Variants []variant `json:"variants"`
	}
	b, err := os.ReadFile(filepath.Join(verif, "qfcheck", "variants", "catalogue.json"))
	if err != nil {
		return map[string]string{"error": err.Error()}
	}
	if err := json.Unmarshal(b, &cat); err != nil {
		return map[string]string{"error": err.Error()}
	}
	tmp, err := os.MkdirTemp("", "qfcheck-variants-")
	if err != nil {
		return map[string]string{"error": err.Error()}
	}
	defer os.RemoveAll(tmp)

	type job struct {
		res  *variantResult
		args []string
		prep func() error
	}
	var jobs []*job
	for _, v := range cat.Variants {
		if v.Property != spec.ID {
			continue
		}
		v := v
		r := &variantResult{ID: v.ID, Kind: v.Kind, Expect: v.Expect, Note: v.Note}
		src, err := os.ReadFile(filepath.Join(repo, v.File))
		if err != nil || strings.Count(string(src), v.Old) != 1 {
			r.Outcome = "skipped"
			r.Note = "the edited text no longer occurs exactly once in " + v.File + " (the tree changed)"
			jobs = append(jobs, &job{res: r})
			continue
		}
		ov := filepath.Join(tmp, v.ID+".go")
		j := &job{res: r, args: []string{"-property", spec.ID, "-tier", "quick", "-no-evidence", "-repo", repo, "-verif", verif, "-overlay", v.File + "=" + ov}}
		j.prep = func() error { return os.WriteFile(ov, []byte(strings.Replace(string(src), v.Old, v.New, 1)), 0o644) }
		jobs = append(jobs, j)
	}
	// confirmed seeds for this property
	seedDirs, _ := filepath.Glob(filepath.Join(verif, "seeded", spec.ID+"-*"))
	// mechanical mutants that survive the test suite and were confirmed property-breaking (seeded/M<n>): by meta.json
	mDirs, _ := filepath.Glob(filepath.Join(verif, "seeded", "M*"))
	for _, md := range mDirs {
		var meta struct {
			Property string `json:"property"`
		}
		if b, err := os.ReadFile(filepath.Join(md, "meta.json")); err == nil && json.Unmarshal(b, &meta) == nil && meta.Property == spec.ID {
			seedDirs = append(seedDirs, md)
		}
	}
	sort.Strings(seedDirs)
	for _, sd := range seedDirs {
		sd := sd
		id := "seed:" + filepath.Base(sd)
		r := &variantResult{ID: id, Kind: "break", Note: "independent sub-agent mutant, confirmed to break the property while passing the suite"}
		dst := filepath.Join(tmp, filepath.Base(sd))
		j := &job{res: r, args: []string{"-property", spec.ID, "-tier", "quick", "-no-evidence", "-repo", dst, "-verif", verif}}
		j.prep = func() error {
			if out, err := exec.Command("cp", "-r", repo, dst).CombinedOutput(); err != nil {
				return fmt.Errorf("copy: %v %s", err, out)
			}
			os.RemoveAll(filepath.Join(dst, ".git"))
			cmd := exec.Command("git", "apply", filepath.Join(sd, "patch.diff"))
			cmd.Dir = dst
			if out, err := cmd.CombinedOutput(); err != nil {
				return fmt.Errorf("patch does not apply to the current tree: %s", strings.TrimSpace(string(out)))
			}
			return nil
		}
		jobs = append(jobs, j)
	}
	// behaviour-preserving refactorings written against this property: must stay silent
	refDirs, _ := filepath.Glob(filepath.Join(verif, "refactors", spec.ID+"-*"))
	sort.Strings(refDirs)
	for _, sd := range refDirs {
		sd := sd
		id := "refactor:" + filepath.Base(sd)
		r := &variantResult{ID: id, Kind: "benign", Note: "independent sub-agent refactoring that preserves behaviour and passes the suite"}
		dst := filepath.Join(tmp, "ref-"+filepath.Base(sd))
		j := &job{res: r, args: []string{"-property", spec.ID, "-tier", "quick", "-no-evidence", "-repo", dst, "-verif", verif}}
		j.prep = func() error {
			if out, err := exec.Command("cp", "-r", repo, dst).CombinedOutput(); err != nil {
				return fmt.Errorf("copy: %v %s", err, out)
			}
			os.RemoveAll(filepath.Join(dst, ".git"))
			cmd := exec.Command("git", "apply", filepath.Join(sd, "patch.diff"))
			cmd.Dir = dst
			if out, err := cmd.CombinedOutput(); err != nil {
				return fmt.Errorf("patch does not apply to the current tree: %s", strings.TrimSpace(string(out)))
			}
			return nil
		}
		jobs = append(jobs, j)
	}
	sem := make(chan struct{}, 8)
	var wg sync.WaitGroup
	for _, j := range jobs {
		if j.args == nil {
			continue
		}
		wg.Add(1)
		go func(j *job) {
			defer wg.Done()
			sem <- struct{}{}
			defer func() { <-sem }()
			if err := j.prep(); err != nil {
				j.res.Outcome = "skipped"
				j.res.Note = err.Error()
				return
			}
			out, _ := exec.Command(self, j.args...).CombinedOutput()
			text := string(out)
			if strings.Contains(text, "cannot analyse") {
				j.res.Outcome = "invalid"
				j.res.Note = "the edited tree does not type-check; not a valid variant"
				return
			}
			viol := strings.Contains(text, "\nVIOLATION ") || strings.HasPrefix(text, "VIOLATION ")
			for _, line := range strings.Split(text, "\n") {
				line = strings.TrimSpace(line)
				if strings.HasPrefix(line, "VIOLATED ") || strings.HasPrefix(line, "UNDECIDED ") {
					f := strings.Fields(line)
					if len(f) > 1 && len(j.res.Reported) < 4 {
						j.res.Reported = append(j.res.Reported, f[1])
					}
				}
			}
			switch {
			case j.res.Kind == "benign" && !viol:
				j.res.Outcome = "silent"
			case j.res.Kind == "benign":
				j.res.Outcome = "FALSE-ALARM"
			case !viol:
				j.res.Outcome = "MISSED"
			default:
				j.res.Outcome = "detected"
				if j.res.Expect != "" {
					named := false
					for _, k := range j.res.Reported {
						if strings.HasPrefix(k, j.res.Expect+"|") {
							named = true
						}
					}
					if !named {
						j.res.Outcome = "detected-other-rule"
					}
				}
			}
		}(j)
	}
	wg.Wait()
	var results []*variantResult
	counts := map[string]int{}
	for _, j := range jobs {
		results = append(results, j.res)
		counts[j.res.Outcome]++
	}
	fmt.Printf("variants for %s: %v\n", spec.ID, counts)
	for _, r := range results {
		if r.Outcome == "MISSED" || r.Outcome == "FALSE-ALARM" {
			fmt.Printf("  variant %s: %s\n", r.ID, r.Outcome)
		}
	}
	return map[string]interface{}{"summary": counts, "results": results,
		"note": "variants are analysed through an overlay / scratch copy, never executed; they document detection power and do not affect the verdict"}
}
