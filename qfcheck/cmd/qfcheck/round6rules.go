package main

import (
	"fmt"
	"go/token"
	"go/types"
	"sort"
	"strings"

	"golang.org/x/tools/go/ssa"
)

// Rules added after the third mutation run (operators: emptied if-bodies, error -> nil, index+1, dropped case
// values, swapped table values). Each is a discipline the whole module already follows without exception.

func init() {
	register(&Rule{ID: "R137", Name: "FRAME-ERR-TRAVELS", Floor: 2,
		Text: "in the root package, a frame (QFrame) obtained from an operation that can fail - a call whose callee, or one of the functions it may dispatch to, can return a frame with a fresh error - is taken apart (its row index or columns read) only by code that also reads its Err: FilteredApply uses the index of qf.Filter(clause), Not complements the index its sub-clause produced, Or merges indexes; a failed operation returns the incoming frame with the error set, so its index is the whole frame and using it without looking at Err turns an invalid clause into `all rows` (or, complemented, `no row`) with no error",
		Run:  runR137})
	register(&Rule{ID: "R138", Name: "FAILURE-RETURNS-ERROR", Floor: 40,
		Text: "(a) in every module function with an error result, the branch taken when an error value is non-nil (`if e != nil { ... return }`, the block entered directly by the true edge) does not return a nil error: whatever it returns in the error slot is not the nil constant, nor a call of a module function all of whose returns are nil; (b) no module function returns the pair (nil value, nil error) for a value result of interface, pointer, slice, map or function type - a failed operation that reports neither a value nor an error hands its caller a nil column, which the frame stores and the next operation dereferences - unless every caller inspects the value by a nil test or a comma-ok/switch type test before any other use; (c) in internal/ecolumn the branch entered directly when a column's strict flag is set, if it returns at once, returns an error (the value was not among the declared ones)",
		Run:  runR138})
	register(&Rule{ID: "R139", Name: "RANGE-OFFSET-BOUNDS", Floor: 1,
		Text: "an element access s[k+c] with a constant c >= 1, where k is the key of a loop over all of t (range t, or 0 <= k < len(t)) and s is t itself or a slice allocated with len(t), is out of range in the last iteration; it must stand under a guard that bounds k+c (k+c < len(s), k < len(t)-c, k != len(t)-1). Frozen: none",
		Run:  runR139})
	register(&Rule{ID: "R140", Name: "NIL-SAFE-BUILTINS", Floor: 4,
		Text: "the string functions of the default evaluation context (package function: the entries NewDefaultCtx files under FunctionTypeString, and the closures they are built from) are applied to every cell, null cells included: every dereference of a *string parameter in them is dominated by a test that the pointer is not nil. A null cell is a nil pointer; an unguarded dereference panics inside Eval/Apply for any column that holds a null",
		Run:  runR140})
}

// ---------- R137 ----------

// r137MayFail: fn (returning a frame) can produce a frame whose Err is not the Err of one of its own frame
// parameters: it builds a frame with Err set from something else, or calls (dispatches to) a function that can.
func r137MayFail(p *Prog, res *callResolver, fn *ssa.Function, memo map[*ssa.Function]int, depth int) bool {
	if v, ok := memo[fn]; ok {
		return v == 1
	}
	memo[fn] = 0
	if depth > 6 || fn.Blocks == nil {
		return false
	}
	fresh := false
	isErrOfParam := func(v ssa.Value) bool {
		if c, ok := v.(*ssa.Const); ok && c.IsNil() {
			return true
		}
		fld, x := fieldOf(v)
		if fld == nil || fld.Name() != "Err" {
			return false
		}
		for {
			switch t := x.(type) {
			case *ssa.Parameter:
				return true
			case *ssa.Alloc:
				// the spilled receiver
				for _, r := range *t.Referrers() {
					if st, ok := r.(*ssa.Store); ok && st.Addr == ssa.Value(t) {
						if _, isPrm := st.Val.(*ssa.Parameter); isPrm {
							return true
						}
					}
				}
				return false
			case *ssa.UnOp:
				x = t.X
				continue
			}
			return false
		}
	}
	eachInstr(fn, func(in ssa.Instruction) {
		if fresh {
			return
		}
		switch t := in.(type) {
		case *ssa.Store:
			if fa, ok := t.Addr.(*ssa.FieldAddr); ok && isFrameType(deref(fa.X.Type())) {
				if st, ok := deref(fa.X.Type()).Underlying().(*types.Struct); ok && st.Field(fa.Field).Name() == "Err" {
					if !isErrOfParam(t.Val) {
						fresh = true
					}
				}
			}
		case ssa.CallInstruction:
			for _, callee := range res.callees(t) {
				if callee == fn || callee.Pkg != fn.Pkg {
					continue
				}
				rs := callee.Signature.Results()
				for i := 0; i < rs.Len(); i++ {
					if isFrameType(rs.At(i).Type()) && r137MayFail(p, res, callee, memo, depth+1) {
						fresh = true
					}
				}
			}
		}
	})
	if fresh {
		memo[fn] = 1
	}
	return fresh
}

func runR137(c *Ctx) {
	p := c.P
	res := p.resolver()
	memo := map[*ssa.Function]int{}
	for _, fn := range p.FuncsIn("") {
		fnm := fname(fn)
		eachInstr(fn, func(in ssa.Instruction) {
			call, ok := in.(*ssa.Call)
			if !ok || !isFrameType(call.Type()) {
				return
			}
			mayFail := false
			name := ""
			for _, callee := range res.callees(call) {
				if callee.Pkg == fn.Pkg && r137MayFail(p, res, callee, memo, 0) {
					mayFail = true
					name = callee.Name()
				}
			}
			if !mayFail {
				return
			}
			// reads of the result's fields: directly (ssa.Field) or through the local it is stored in
			readsErr, readsOther := false, ""
			note := func(fieldName string, at ssa.Instruction) {
				if fieldName == "Err" {
					// the error must be acted upon: a test nothing depends on (an emptied `if x.Err != nil { }`) does not count
					if v, ok := at.(ssa.Value); ok && valueMatters(v, 0) {
						readsErr = true
					}
				} else if readsOther == "" {
					readsOther = fieldName + " at " + p.instrPos(at)
				}
			}
			st := deref(call.Type()).Underlying().(*types.Struct)
			var cells []*ssa.Alloc
			for _, r := range *call.Referrers() {
				switch t := r.(type) {
				case *ssa.Field:
					note(st.Field(t.Field).Name(), t)
				case *ssa.Store:
					if al, ok := t.Addr.(*ssa.Alloc); ok && t.Val == ssa.Value(call) {
						cells = append(cells, al)
					}
				}
			}
			for _, al := range cells {
				for _, r := range *al.Referrers() {
					fa, ok := r.(*ssa.FieldAddr)
					if !ok {
						continue
					}
					for _, r2 := range *fa.Referrers() {
						if ld, ok := r2.(*ssa.UnOp); ok && ld.Op == token.MUL {
							note(st.Field(fa.Field).Name(), ld)
						}
					}
				}
			}
			if readsOther == "" {
				return // passed on whole (returned, handed to another operation)
			}
			key := fnm + "|result of " + name
			if readsErr {
				c.ok(key, p.instrPos(call), "the result's Err is read where its parts are used")
			} else {
				c.bad(key, p.instrPos(call), fmt.Sprintf("the frame returned by %s is taken apart (%s) but its Err is never read: when the operation fails, its result is the incoming frame with the error set, and the code goes on with all rows as if the operation had succeeded", name, readsOther))
			}
		})
	}
}

// valueMatters: v reaches a branch, a return, a store or a call (directly or through comparisons, conversions,
// phis): something depends on it.
func valueMatters(v ssa.Value, d int) bool {
	if d > 4 || v.Referrers() == nil {
		return false
	}
	for _, r := range *v.Referrers() {
		switch t := r.(type) {
		case *ssa.DebugRef:
		case *ssa.If, *ssa.Return, *ssa.Store, ssa.CallInstruction, *ssa.MapUpdate, *ssa.Send, *ssa.Panic:
			return true
		case ssa.Value:
			if valueMatters(t, d+1) {
				return true
			}
		}
	}
	return false
}

// ---------- R138 ----------

// definitelyNilError: v is the nil constant, or a call of a module function all of whose returns are.
func definitelyNilError(v ssa.Value, depth int) bool {
	if c, ok := v.(*ssa.Const); ok {
		return c.IsNil()
	}
	if mi, ok := v.(*ssa.MakeInterface); ok {
		return definitelyNilError(mi.X, depth)
	}
	call, ok := v.(*ssa.Call)
	if !ok || depth > 2 {
		return false
	}
	callee := call.Call.StaticCallee()
	if callee == nil || callee.Blocks == nil || callee.Pkg == nil || !inModule(callee.Pkg.Pkg) {
		return false
	}
	ei := errResultIndex(callee.Signature)
	if ei < 0 || callee.Signature.Results().Len() != 1 {
		return false
	}
	n, all := 0, true
	eachInstr(callee, func(in ssa.Instruction) {
		if r, ok := in.(*ssa.Return); ok {
			n++
			if !definitelyNilError(unspillResult(r, r.Results[ei]), depth+1) {
				all = false
			}
		}
	})
	return n > 0 && all
}

func isNilable(t types.Type) bool {
	switch t.Underlying().(type) {
	case *types.Interface, *types.Pointer, *types.Slice, *types.Map, *types.Signature:
		return true
	}
	return false
}

// r138CallersInspect: every call that may reach fn looks at the value result (index vi) only through nil tests
// and comma-ok / switch type tests.
func r138CallersInspect(p *Prog, res *callResolver, fn *ssa.Function, vi int) bool {
	n := 0
	okAll := true
	for _, caller := range p.Funcs {
		eachInstr(caller, func(in ssa.Instruction) {
			call, ok := in.(*ssa.Call)
			if !ok || !okAll {
				return
			}
			hit := false
			for _, callee := range res.callees(call) {
				if callee == fn {
					hit = true
				}
			}
			if !hit {
				return
			}
			n++
			var val ssa.Value
			if fn.Signature.Results().Len() == 1 {
				val = call
			} else {
				for _, r := range *call.Referrers() {
					if ex, ok := r.(*ssa.Extract); ok && ex.Index == vi {
						val = ex
					}
				}
			}
			if val == nil {
				return // value ignored
			}
			for _, r := range *val.Referrers() {
				switch t := r.(type) {
				case *ssa.DebugRef:
				case *ssa.TypeAssert:
					if !t.CommaOk {
						okAll = false
					}
				case *ssa.BinOp:
					other := t.Y
					if t.Y == val {
						other = t.X
					}
					if cst, ok := other.(*ssa.Const); !ok || !cst.IsNil() {
						okAll = false
					}
				case *ssa.Store:
					// handed to a message: stored into the variadic argument array of a formatting call
					ia, isIA := t.Addr.(*ssa.IndexAddr)
					if !isIA || t.Val != val {
						okAll = false
						break
					}
					if al, isAl := ia.X.(*ssa.Alloc); !isAl || al.Comment != "varargs" {
						okAll = false
					}
				default:
					okAll = false
				}
			}
		})
	}
	return n > 0 && okAll
}

func runR138(c *Ctx) {
	p := c.P
	res := p.resolver()
	for _, fn := range p.Funcs {
		if fn.Pkg == nil || !inModule(fn.Pkg.Pkg) || fn.Blocks == nil {
			continue
		}
		ei := errResultIndex(fn.Signature)
		if ei < 0 {
			continue
		}
		fnm := fname(fn)
		// (a) the branch taken on a non-nil error
		eachInstr(fn, func(in ssa.Instruction) {
			iff, ok := in.(*ssa.If)
			if !ok {
				return
			}
			cond, val := unNot(iff.Cond, true)
			cmp, ok := cond.(*ssa.BinOp)
			if !ok || cmp.Op != token.NEQ && cmp.Op != token.EQL {
				return
			}
			var ev ssa.Value
			if cst, ok := cmp.Y.(*ssa.Const); ok && cst.IsNil() && isErrorType(cmp.X.Type()) {
				ev = cmp.X
			} else if cst, ok := cmp.X.(*ssa.Const); ok && cst.IsNil() && isErrorType(cmp.Y.Type()) {
				ev = cmp.Y
			}
			if ev == nil {
				return
			}
			nonNilSucc := 0
			if (cmp.Op == token.EQL) == val {
				nonNilSucc = 1 // `e == nil` true edge is the nil side: the failure side is the other one
			}
			fail := iff.Block().Succs[nonNilSucc]
			if len(fail.Preds) != 1 || fail == iff.Block().Succs[1-nonNilSucc] {
				return
			}
			ret, ok := fail.Instrs[len(fail.Instrs)-1].(*ssa.Return)
			if !ok {
				return
			}
			key := fnm + "|on " + describeErrSource(ev)
			if definitelyNilError(unspillResult(ret, ret.Results[ei]), 0) {
				c.bad(key, p.instrPos(ret), fmt.Sprintf("the branch taken when %s is not nil returns a nil error: the failure is swallowed and the caller goes on with whatever value is returned", describeErrSource(ev)))
			} else {
				c.okTrivial(key, p.instrPos(ret), "the failure branch returns an error")
			}
		})
		// (c) the branch entered directly when an enum's strict flag is set and that returns at once: by then the value
		// was not found among the declared ones, so it reports that
		if fn.Pkg.Pkg.Path() == rel("internal/ecolumn") {
			eachInstr(fn, func(in ssa.Instruction) {
				iff, ok := in.(*ssa.If)
				if !ok {
					return
				}
				cond, val := unNot(iff.Cond, true)
				fld, _ := fieldOf(cond)
				if fld == nil || fld.Name() != "strict" {
					return
				}
				si := 0
				if !val {
					si = 1
				}
				blk := iff.Block().Succs[si]
				if len(blk.Preds) != 1 || blk == iff.Block().Succs[1-si] {
					return
				}
				ret, ok := blk.Instrs[len(blk.Instrs)-1].(*ssa.Return)
				if !ok {
					return
				}
				key := fnm + "|strict and undeclared"
				if definitelyNilError(unspillResult(ret, ret.Results[ei]), 0) {
					c.bad(key, p.instrPos(ret), "the branch taken for a strict (declared) enum returns a nil error: an undeclared value is accepted - as whatever code is returned with it - instead of being rejected")
				} else {
					c.okTrivial(key, p.instrPos(ret), "the strict branch returns an error")
				}
			})
		}
		// (b) no (nil, nil)
		eachInstr(fn, func(in ssa.Instruction) {
			ret, ok := in.(*ssa.Return)
			if !ok || len(ret.Results) < 2 {
				return
			}
			if !definitelyNilError(unspillResult(ret, ret.Results[ei]), 0) {
				return
			}
			for i, r := range ret.Results {
				if i == ei || !isNilable(fn.Signature.Results().At(i).Type()) {
					continue
				}
				r = unspillResult(ret, r)
				cst, ok := r.(*ssa.Const)
				if !ok || !cst.IsNil() {
					continue
				}
				key := fnm + "|nil value, nil error"
				if r138CallersInspect(p, res, fn, i) {
					c.ok(key, p.instrPos(ret), "every caller inspects the value by a nil or type test before using it")
				} else {
					c.bad(key, p.instrPos(ret), "the function returns a nil value together with a nil error: neither a result nor a failure; its callers use the value without testing it (a nil column stored in a frame is dereferenced by the next operation)")
				}
			}
		})
	}
}

func describeErrSource(v ssa.Value) string {
	switch t := v.(type) {
	case *ssa.Call:
		if o := calleeObj(t); o != nil {
			return o.Name() + "()"
		}
		if t.Call.IsInvoke() {
			return t.Call.Method.Name() + "()"
		}
	case *ssa.Extract:
		if call, ok := t.Tuple.(*ssa.Call); ok {
			if o := calleeObj(call); o != nil {
				return "the error of " + o.Name()
			}
			if call.Call.IsInvoke() {
				return "the error of " + call.Call.Method.Name()
			}
		}
	case *ssa.UnOp:
		if fld, _ := fieldOf(v); fld != nil {
			return "." + fld.Name()
		}
		if ld, ok := t.X.(*ssa.Alloc); ok && ld.Comment != "" {
			return ld.Comment
		}
	case *ssa.Phi:
		if t.Comment != "" {
			return t.Comment
		}
	}
	return "the error"
}

// ---------- R139 ----------

func runR139(c *Ctx) {
	p := c.P
	n := 0
	for _, fn := range p.Funcs {
		if fn.Pkg == nil || !inModule(fn.Pkg.Pkg) || strings.HasSuffix(fn.Pkg.Pkg.Path(), "/internal/ryu") {
			continue
		}
		loops := loopsOf(fn)
		if len(loops) == 0 {
			continue
		}
		fnm := fname(fn)
		eachInstr(fn, func(in ssa.Instruction) {
			ia, ok := in.(*ssa.IndexAddr)
			var x, index ssa.Value
			if ok {
				x, index = ia.X, ia.Index
			} else if ix, ok2 := in.(*ssa.Index); ok2 {
				x, index = ix.X, ix.Index
			} else {
				return
			}
			off, ok := stripConvInt(index).(*ssa.BinOp)
			if !ok || off.Op != token.ADD {
				return
			}
			var k ssa.Value
			var cst int64
			if v, isK := constInt(off.Y); isK {
				k, cst = stripConvInt(off.X), v
			} else if v, isK := constInt(off.X); isK {
				k, cst = stripConvInt(off.Y), v
			}
			if k == nil || cst < 1 {
				return
			}
			for _, li := range loops {
				if li.base == nil || !inLoop(li, in.Block()) || !rangeKeyOf(k, li.base) {
					continue
				}
				// s is the ranged slice itself, or allocated with its length
				s := stripSliceOpsKeepLen(x)
				sameSlice := func(a, b ssa.Value) bool {
					return a == b || accessPath(a) != "" && accessPath(a) == accessPath(b)
				}
				same := sameSlice(s, li.base)
				if mk, ok := singleDef(rootSlice(s)).(*ssa.MakeSlice); ok && !same {
					if lc, ok := stripConvInt(mk.Len).(*ssa.Call); ok && builtinName(lc) == "len" && sameSlice(lc.Call.Args[0], li.base) {
						same = true
					}
				}
				if !same {
					continue
				}
				n++
				key := fnm + "|" + types.TypeString(s.Type(), shortQual) + "[key+" + fmt.Sprint(cst) + "]"
				if r139Bounded(in.Block(), k, off, li.base) {
					c.ok(key, p.instrPos(in), "the offset access stands under a guard that bounds it")
				} else {
					c.bad(key, p.instrPos(in), fmt.Sprintf("element key+%d of a slice as long as the one the loop ranges over is accessed for every key: in the last iteration the index equals the length and the access panics (and every value lands beside its row)", cst))
				}
			}
		})
	}
	c.okTrivial("scan", "-", fmt.Sprintf("%d offset accesses inside loops over a slice of the same length", n))
}

// stripSliceOpsKeepLen: s[:] and s[0:] keep the length; anything else is left alone.
func stripSliceOpsKeepLen(v ssa.Value) ssa.Value {
	for {
		sl, ok := v.(*ssa.Slice)
		if !ok || sl.High != nil || sl.Max != nil {
			return v
		}
		if sl.Low != nil {
			if k, isK := constInt(sl.Low); !isK || k != 0 {
				return v
			}
		}
		v = sl.X
	}
}

// r139Bounded: some dominating guard bounds the offset index: it compares k+c (or another sum of k and a constant)
// with a length, or k with a length minus a constant. The loop's own `k < len(t)` bounds k only and does not count.
func r139Bounded(b *ssa.BasicBlock, k ssa.Value, off *ssa.BinOp, base ssa.Value) bool {
	isLen := func(v ssa.Value) bool {
		call, ok := stripConvInt(v).(*ssa.Call)
		return ok && builtinName(call) == "len"
	}
	// k + const
	kPlus := func(v ssa.Value) bool {
		v = stripConvInt(v)
		if v == ssa.Value(off) {
			return true
		}
		bo, ok := v.(*ssa.BinOp)
		if !ok || bo.Op != token.ADD {
			return false
		}
		_, xk := constInt(bo.X)
		_, yk := constInt(bo.Y)
		return stripConvInt(bo.X) == k && yk || stripConvInt(bo.Y) == k && xk
	}
	// len - const
	lenMinus := func(v ssa.Value) bool {
		bo, ok := stripConvInt(v).(*ssa.BinOp)
		if !ok || bo.Op != token.SUB {
			return false
		}
		_, yk := constInt(bo.Y)
		return isLen(bo.X) && yk
	}
	for _, g := range dominatingGuards(b) {
		cmp, ok := g.Cond.(*ssa.BinOp)
		if !ok {
			continue
		}
		switch cmp.Op {
		case token.LSS, token.LEQ, token.GTR, token.GEQ, token.NEQ, token.EQL:
			x, y := cmp.X, cmp.Y
			if kPlus(x) && (isLen(y) || lenMinus(y)) || kPlus(y) && (isLen(x) || lenMinus(x)) {
				return true
			}
			if stripConvInt(x) == k && lenMinus(y) || stripConvInt(y) == k && lenMinus(x) {
				return true
			}
		}
	}
	return false
}

// ---------- R140 ----------

func runR140(c *Ctx) {
	p := c.P
	ents := defaultCtxEntries(p)
	if len(ents) == 0 {
		c.undecided("config/eval.NewDefaultCtx|table", "-", "no (name -> function) entries found")
		return
	}
	isStrPtr := func(t types.Type) bool {
		pt, ok := t.Underlying().(*types.Pointer)
		if !ok {
			return false
		}
		b, ok := pt.Elem().Underlying().(*types.Basic)
		return ok && b.Kind() == types.String
	}
	// the functions behind the string entries: named functions, and for package-level function variables the
	// closures their initialiser builds
	var roots []*ssa.Function
	seen := map[*ssa.Function]bool{}
	add := func(f *ssa.Function) {
		if f != nil && f.Blocks != nil && !seen[f] && f.Pkg != nil && inModule(f.Pkg.Pkg) {
			seen[f] = true
			roots = append(roots, f)
		}
	}
	for _, e := range ents {
		// the string functions: the ones whose first argument is a *string (wherever the entry is filed: R114 decides that)
		if sig, ok := e.valueSig(); !ok || sig.Params().Len() == 0 || !isStrPtr(sig.Params().At(0).Type()) {
			continue
		}
		if e.fn != nil {
			add(e.fn)
			continue
		}
		if e.global != nil && e.global.Pkg != nil {
			if init := e.global.Pkg.Func("init"); init != nil {
				eachInstr(init, func(in ssa.Instruction) {
					st, ok := in.(*ssa.Store)
					if !ok || st.Addr != ssa.Value(e.global) {
						return
					}
					switch v := st.Val.(type) {
					case *ssa.Function:
						add(v)
					case *ssa.MakeClosure:
						add(v.Fn.(*ssa.Function))
					case *ssa.Call:
						// built by a helper (nilSafe(strings.ToUpper)): the closures the helper returns
						if callee := v.Call.StaticCallee(); callee != nil {
							for _, af := range callee.AnonFuncs {
								add(af)
							}
							add(callee)
						}
					}
				})
			}
		}
	}
	if len(roots) == 0 {
		c.undecided("config/eval.NewDefaultCtx|string functions", "-", "no string function of the default context could be resolved")
		return
	}
	// their package mates: however the tables are filled (literals, a loop over (name, fn) pairs), the functions on
	// *string cells of the package the resolved ones live in are the candidates for registration
	pkgs := map[*ssa.Package]bool{}
	for _, r := range roots {
		pkgs[r.Pkg] = true
	}
	for _, f := range p.Funcs {
		if f.Pkg == nil || !pkgs[f.Pkg] || f.Parent() != nil && !seen[f.Parent()] {
			continue
		}
		for _, prm := range f.Params {
			if isStrPtr(prm.Type()) {
				add(f)
				break
			}
		}
	}
	sort.Slice(roots, func(i, j int) bool { return fname(roots[i]) < fname(roots[j]) })
	for _, fn := range roots {
		fnm := fname(fn)
		for _, prm := range fn.Params {
			if !isStrPtr(prm.Type()) {
				continue
			}
			for _, r := range *prm.Referrers() {
				ld, ok := r.(*ssa.UnOp)
				if !ok || ld.Op != token.MUL {
					continue
				}
				key := fnm + "|*" + prm.Name()
				guarded := false
				for _, g := range dominatingGuards(ld.Block()) {
					cond, val := unNot(g.Cond, g.Val)
					cmp, ok := cond.(*ssa.BinOp)
					if !ok {
						continue
					}
					other := cmp.Y
					if cmp.Y == ssa.Value(prm) {
						other = cmp.X
					} else if cmp.X != ssa.Value(prm) {
						continue
					}
					if cst, ok := other.(*ssa.Const); ok && cst.IsNil() {
						if cmp.Op == token.NEQ && val || cmp.Op == token.EQL && !val {
							guarded = true
						}
					}
				}
				if guarded {
					c.ok(key, p.instrPos(ld), "dereferenced only where the pointer is known not to be nil")
				} else {
					c.bad(key, p.instrPos(ld), fmt.Sprintf("%s dereferences its *string argument %s without a dominating nil test: a null cell makes Eval/Apply panic instead of yielding the function's value for null", fnm, prm.Name()))
				}
			}
		}
	}
}

// ---------- R141 ----------

func init() {
	register(&Rule{ID: "R141", Name: "CONST-TYPES-AGREE", Floor: 5,
		Text: "the constant operand types the expression decoder recognises (the comma-ok / switch type tests on plain basic types and *string in the root-package function that turns an interface value into a constant expression and answers (expression, bool)) are exactly the constant types the zero-argument apply helper can turn into a column (its cases on plain basic types and *string): a type accepted by the decoder and unknown to the helper makes Eval fail on a well-formed constant; one the helper knows and the decoder rejects (a dropped `bool`) makes Val(true) and Expr(\"&\", col, true) malformed expressions",
		Run:  runR141})
}

func plainConstType(t types.Type) (string, bool) {
	switch u := t.(type) {
	case *types.Basic:
		return u.String(), true
	case *types.Pointer:
		if b, ok := u.Elem().(*types.Basic); ok {
			return "*" + b.String(), true
		}
	}
	return "", false
}

func runR141(c *Ctx) {
	p := c.P
	// the decoder: (interface) -> (struct, bool), with at least three tests on plain constant types
	var dec *ssa.Function
	decTypes := map[string]bool{}
	for _, f := range p.FuncsIn("") {
		if f.Parent() != nil || f.Signature.Recv() != nil || len(f.Params) != 1 || f.Signature.Results().Len() != 2 {
			continue
		}
		if _, ok := f.Params[0].Type().Underlying().(*types.Interface); !ok {
			continue
		}
		if b, ok := f.Signature.Results().At(1).Type().Underlying().(*types.Basic); !ok || b.Kind() != types.Bool {
			continue
		}
		if _, ok := f.Signature.Results().At(0).Type().Underlying().(*types.Struct); !ok {
			continue
		}
		ts := map[string]bool{}
		other := false
		eachInstr(f, func(in ssa.Instruction) {
			if ta, ok := in.(*ssa.TypeAssert); ok && ta.CommaOk {
				if n, ok := plainConstType(ta.AssertedType); ok {
					ts[n] = true
				} else {
					other = true
				}
			}
		})
		if len(ts) >= 3 && !other {
			dec, decTypes = f, ts
		}
	}
	// the helper: R129's anchor
	var app *ssa.Function
	for _, f := range p.FuncsIn("") {
		if f.Signature.Recv() == nil || f.Parent() != nil || len(f.Params) < 2 {
			continue
		}
		if n, ok := deref(f.Signature.Recv().Type()).(*types.Named); !ok || n.Obj().Name() != "QFrame" {
			continue
		}
		eachInstr(f, func(in ssa.Instruction) {
			if ta, ok := in.(*ssa.TypeAssert); ok && ta.CommaOk {
				if sig, ok := ta.AssertedType.Underlying().(*types.Signature); ok && sig.Params().Len() == 0 && sig.Results().Len() == 1 {
					if _, isPrm := ta.X.(*ssa.Parameter); isPrm {
						app = f
					}
				}
			}
		})
	}
	if dec == nil || app == nil {
		c.undecided("qframe|constant decoder / zero-argument apply helper", "-", "anchors not found")
		return
	}
	appTypes := map[string]bool{}
	eachInstr(app, func(in ssa.Instruction) {
		if ta, ok := in.(*ssa.TypeAssert); ok && ta.CommaOk {
			if n, ok := plainConstType(ta.AssertedType); ok {
				appTypes[n] = true
			}
		}
	})
	all := map[string]bool{}
	for k := range decTypes {
		all[k] = true
	}
	for k := range appTypes {
		all[k] = true
	}
	var names []string
	for k := range all {
		names = append(names, k)
	}
	sort.Strings(names)
	for _, k := range names {
		key := "constant type " + k
		switch {
		case decTypes[k] && appTypes[k]:
			c.ok(key, p.pos(dec.Pos()), fmt.Sprintf("recognised by %s and turned into a column by %s", fname(dec), fname(app)))
		case appTypes[k]:
			c.bad(key, p.pos(dec.Pos()), fmt.Sprintf("%s builds constant columns of type %s but %s does not recognise a %s operand as a constant: a well-formed constant expression of that type is rejected as malformed", fname(app), k, fname(dec), k))
		default:
			c.bad(key, p.pos(app.Pos()), fmt.Sprintf("%s accepts %s constants but %s has no case for them: Eval fails on a well-formed constant", fname(dec), k, fname(app)))
		}
	}
}

// ---------- R142 ----------

func init() {
	register(&Rule{ID: "R142", Name: "ENUM-NULL-GUARD", Floor: 2,
		Text: "in internal/ecolumn every access to a values table indexed by a cell's code (an enumVal converted to an index) is dominated by a test that the code is not the null code - isNull() of the same value (or of the same cell read again) answered false, or a comparison with the null constant: the null code is 255 and a values table never has more than 255 entries, so an unguarded access panics for every null cell (ToCSV, ToJSON, String, views)",
		Run:  runR142})
}

func runR142(c *Ctx) {
	p := c.P
	isEnumVal := func(t types.Type) bool {
		n, ok := t.(*types.Named)
		return ok && n.Obj().Pkg() != nil && n.Obj().Pkg().Path() == rel("internal/ecolumn") && n.Obj().Name() == "enumVal"
	}
	sameCode := func(a, b ssa.Value) bool {
		if a == b {
			return true
		}
		la, ok1 := a.(*ssa.UnOp)
		lb, ok2 := b.(*ssa.UnOp)
		if !ok1 || !ok2 || la.Op != token.MUL || lb.Op != token.MUL {
			return false
		}
		ia, ok1 := la.X.(*ssa.IndexAddr)
		ib, ok2 := lb.X.(*ssa.IndexAddr)
		return ok1 && ok2 && ia.Index == ib.Index && accessPath(ia.X) != "" && accessPath(ia.X) == accessPath(ib.X)
	}
	for _, fn := range p.FuncsIn("internal/ecolumn") {
		fnm := fname(fn)
		eachInstr(fn, func(in ssa.Instruction) {
			var x, index ssa.Value
			switch t := in.(type) {
			case *ssa.IndexAddr:
				x, index = t.X, t.Index
			case *ssa.Index:
				x, index = t.X, t.Index
			default:
				return
			}
			sl, ok := x.Type().Underlying().(*types.Slice)
			if !ok {
				return
			}
			if b, ok := sl.Elem().Underlying().(*types.Basic); !ok || b.Kind() != types.String {
				return
			}
			code := index
			for {
				cv, ok := code.(*ssa.Convert)
				if !ok {
					break
				}
				code = cv.X
			}
			if !isEnumVal(code.Type()) {
				return
			}
			key := fnm + "|values[code]"
			guarded := false
			for _, g := range dominatingGuards(in.Block()) {
				cond, val := unNot(g.Cond, g.Val)
				switch t := cond.(type) {
				case *ssa.Call:
					if callee := t.Call.StaticCallee(); callee != nil && len(t.Call.Args) == 1 && isEnumVal(t.Call.Args[0].Type()) && !val && sameCode(t.Call.Args[0], code) {
						// a one-argument predicate of the code type answered false: isNull
						if r142IsNullPredicate(callee) {
							guarded = true
						}
					}
				case *ssa.BinOp:
					for _, side := range [][2]ssa.Value{{t.X, t.Y}, {t.Y, t.X}} {
						if k, isK := constInt(side[1]); isK && k == 255 && sameCode(side[0], code) {
							if t.Op == token.EQL && !val || t.Op == token.NEQ && val || t.Op == token.LSS && val || t.Op == token.GEQ && !val {
								guarded = true
							}
						}
					}
				}
			}
			// `a.isNull() != b.isNull()` answered false (or `==` answered true) ties the two null tests together: when
			// the other code is known not to be null, this one is not either
			if !guarded {
				isNullCallOn := func(v ssa.Value) (ssa.Value, bool) {
					call, ok := v.(*ssa.Call)
					if !ok || len(call.Call.Args) != 1 || !isEnumVal(call.Call.Args[0].Type()) {
						return nil, false
					}
					callee := call.Call.StaticCallee()
					if callee == nil || !r142IsNullPredicate(callee) {
						return nil, false
					}
					return call.Call.Args[0], true
				}
				guards := dominatingGuards(in.Block())
				notNull := func(v ssa.Value) bool {
					for _, g := range guards {
						cond, val := unNot(g.Cond, g.Val)
						if arg, ok := isNullCallOn(cond); ok && !val && sameCode(arg, v) {
							return true
						}
					}
					return false
				}
				for _, g := range guards {
					cond, val := unNot(g.Cond, g.Val)
					cmp, ok := cond.(*ssa.BinOp)
					if !ok || !(cmp.Op == token.NEQ && !val || cmp.Op == token.EQL && val) {
						continue
					}
					a, ok1 := isNullCallOn(cmp.X)
					b, ok2 := isNullCallOn(cmp.Y)
					if !ok1 || !ok2 {
						continue
					}
					if sameCode(a, code) && notNull(b) || sameCode(b, code) && notNull(a) {
						guarded = true
					}
				}
			}
			// a code that was just looked up or minted (not read from a cell) cannot be the null code
			if _, fromCell := code.(*ssa.UnOp); !fromCell {
				if _, isPhi := code.(*ssa.Phi); !isPhi {
					if _, isExt := code.(*ssa.Extract); isExt {
						guarded = guarded || true
					}
				}
			}
			if guarded {
				c.ok(key, p.instrPos(in), "the code is known not to be the null code here")
			} else {
				c.bad(key, p.instrPos(in), "the values table is indexed by a cell's code without a dominating test that the cell is not null: the null code 255 lies outside every values table, so a null cell panics here")
			}
		})
	}
}

// r142IsNullPredicate: a method of the code type that returns the comparison of its receiver with the null constant.
func r142IsNullPredicate(fn *ssa.Function) bool {
	if fn.Blocks == nil || len(fn.Params) != 1 || fn.Signature.Results().Len() != 1 {
		return false
	}
	ok := false
	eachInstr(fn, func(in ssa.Instruction) {
		if r, isRet := in.(*ssa.Return); isRet {
			if cmp, isCmp := r.Results[0].(*ssa.BinOp); isCmp && cmp.Op == token.EQL {
				for _, side := range [][2]ssa.Value{{cmp.X, cmp.Y}, {cmp.Y, cmp.X}} {
					if k, isK := constInt(side[1]); isK && k == 255 && side[0] == ssa.Value(fn.Params[0]) {
						ok = true
					}
				}
			}
		}
	})
	return ok
}

// ---------- R144 ----------

func init() {
	register(&Rule{ID: "R144", Name: "ENUM-CODES-COMPARABLE", Floor: 1,
		Text: "enum cells are small integer codes whose meaning is the column's own values table: wherever the code arrays of two different enum columns are handed to one kernel (a call that receives the data field of two distinct ecolumn.Column values), the call is dominated by a successful test that relates the two columns (a boolean function of the module called with both columns and answered true): comparing codes of columns with different value lists compares unrelated numbers, and the API promises an error for it",
		Run:  runR144})
}

func runR144(c *Ctx) {
	p := c.P
	isEnumCol := func(t types.Type) bool {
		n, ok := deref(t).(*types.Named)
		return ok && n.Obj().Pkg() != nil && n.Obj().Pkg().Path() == rel("internal/ecolumn") && n.Obj().Name() == "Column"
	}
	// the enum column a `x.data` value is the code array of
	ownerOf := func(v ssa.Value) ssa.Value {
		fld, x := fieldOf(v)
		if fld == nil || !isEnumCol(x.Type()) {
			return nil
		}
		if sl, ok := fld.Type().Underlying().(*types.Slice); !ok || !strings.HasSuffix(sl.Elem().String(), "enumVal") {
			return nil
		}
		return x
	}
	same := func(a, b ssa.Value) bool {
		return a == b || accessPath(a) != "" && accessPath(a) == accessPath(b)
	}
	for _, fn := range p.FuncsIn("internal/ecolumn") {
		fnm := fname(fn)
		eachInstr(fn, func(in ssa.Instruction) {
			call, ok := in.(*ssa.Call)
			if !ok {
				return
			}
			var owners []ssa.Value
			for _, a := range call.Call.Args {
				if o := ownerOf(a); o != nil {
					dup := false
					for _, q := range owners {
						if same(q, o) {
							dup = true
						}
					}
					if !dup {
						owners = append(owners, o)
					}
				}
			}
			if len(owners) < 2 {
				return
			}
			key := fnm + "|codes of two columns"
			related := false
			for _, g := range dominatingGuards(call.Block()) {
				cond, val := unNot(g.Cond, g.Val)
				t, ok := cond.(*ssa.Call)
				if !ok {
					// the same test wrapped into a helper that answers with an error: `if err := c.comparable(other); err != nil`
					if cmp, isCmp := cond.(*ssa.BinOp); isCmp && (cmp.Op == token.EQL && val || cmp.Op == token.NEQ && !val) {
						for _, side := range [][2]ssa.Value{{cmp.X, cmp.Y}, {cmp.Y, cmp.X}} {
							if cst, isC := side[1].(*ssa.Const); isC && cst.IsNil() {
								if ec, isCall := side[0].(*ssa.Call); isCall && isErrorType(ec.Type()) {
									t, ok, val = ec, true, true
								}
							}
						}
					}
				}
				if !ok || !val {
					continue
				}
				callee := t.Call.StaticCallee()
				if callee == nil || callee.Pkg == nil || !inModule(callee.Pkg.Pkg) {
					continue
				}
				hits := 0
				for _, o := range owners {
					for _, a := range t.Call.Args {
						root := a
						if ld, ok := a.(*ssa.UnOp); ok && ld.Op == token.MUL {
							root = ld.X
						}
						if same(a, o) || same(root, o) {
							hits++
							break
						}
					}
				}
				if hits == len(owners) {
					related = true
				}
			}
			if related {
				c.ok(key, p.instrPos(call), "the two columns were related by a test that dominates the call")
			} else {
				c.bad(key, p.instrPos(call), "the code arrays of two enum columns are compared by a kernel without a dominating test that the two columns have the same value list: codes of unrelated enums are compared as numbers instead of the comparison being refused")
			}
		})
	}
}

// ---------- R145 ----------

func init() {
	register(&Rule{ID: "R145", Name: "VALUE-SET-COMPLETE", Floor: 1,
		Text: "in internal/ecolumn a loop over a values table ([]string) that collects the matching values into a bitset (like / ilike / in on enum columns: the rows are then selected by their code's membership) visits every value: it is left only when the range is exhausted, or by returning an error. Several values can satisfy one predicate - case variants under ilike, any regular expression - so stopping at the first hit drops the rows that hold the others, and string and enum columns with the same content disagree",
		Run:  runR145})
}

func runR145(c *Ctx) {
	p := c.P
	for _, fn := range p.FuncsIn("internal/ecolumn") {
		fnm := fname(fn)
		for _, li := range loopsOf(fn) {
			if li.base == nil {
				continue
			}
			sl, ok := li.base.Type().Underlying().(*types.Slice)
			if !ok {
				continue
			}
			if b, ok := sl.Elem().Underlying().(*types.Basic); !ok || b.Kind() != types.String {
				continue
			}
			// the body: everything dominated by the header's in-loop successor - also the blocks that leave the loop
			// (a `break` right after the bit was set never returns to the header)
			var bodyEntry *ssa.BasicBlock
			for _, sb := range li.header.Succs {
				if inLoop(li, sb) {
					bodyEntry = sb
				}
			}
			if bodyEntry == nil {
				continue
			}
			inBody := func(b *ssa.BasicBlock) bool { return bodyEntry.Dominates(b) }
			sets := false
			for _, b := range fn.Blocks {
				if !inBody(b) {
					continue
				}
				for _, in := range b.Instrs {
					call, ok := in.(*ssa.Call)
					if !ok {
						continue
					}
					if r := recvOf(call); r != nil {
						if n, ok := deref(r.Type()).(*types.Named); ok && n.Obj().Name() == "bitset" && n.Obj().Pkg() == fn.Pkg.Pkg {
							sets = true
						}
					}
				}
			}
			if !sets {
				continue
			}
			key := fnm + "|loop over the values"
			bad := ""
			for _, b := range fn.Blocks {
				if !inBody(b) {
					continue
				}
				if ret, ok := b.Instrs[len(b.Instrs)-1].(*ssa.Return); ok {
					if errResultIndex(fn.Signature) < 0 || mayReportSuccess(ret) {
						bad = p.instrPos(ret)
					}
					continue
				}
				// a block of the body from which the header cannot be reached again, or an edge out of the loop
				if !inLoop(li, b) {
					bad = p.pos(b.Instrs[len(b.Instrs)-1].Pos())
					if bad == "-" {
						bad = p.pos(li.header.Instrs[0].Pos())
					}
					continue
				}
				for _, sb := range b.Succs {
					if !inLoop(li, sb) && !inBody(sb) {
						bad = p.pos(b.Instrs[len(b.Instrs)-1].Pos())
						if bad == "-" && len(sb.Instrs) > 0 {
							bad = p.pos(sb.Instrs[0].Pos())
						}
					}
				}
			}
			if bad != "" {
				c.bad(key, p.pos(li.header.Instrs[0].Pos()), fmt.Sprintf("the loop that collects the matching enum values is left early at %s: values after the first hit are never tested, the rows that hold them are not selected", bad))
			} else {
				c.ok(key, p.pos(li.header.Instrs[0].Pos()), "every value is tested; the loop ends only with the range (or an error)")
			}
		}
	}
}

// ---------- R146 ----------

func init() {
	register(&Rule{ID: "R146", Name: "PATTERN-VS-VALUE", Floor: 3,
		Text: "an enum column answers two kinds of single-string filters: comparisons with a *value* (=, !=, <, ... and in), for which a strict enum rejects an undeclared constant, and *patterns* (like, ilike), which are not values and are matched against every declared value. In internal/ecolumn the table whose functions take (pattern string, values []string) and whose use site makes no strictness test (a) holds only pattern filters - every function filed in it reaches the matcher constructor - so no value comparison slips past the declared-values check by being filed there, and (b) its use site stays free of the strict flag: a literal pattern that is not a declared value selects nothing, it is not an error (string columns and derived enums answer the same)",
		Run:  runR146})
}

func runR146(c *Ctx) {
	p := c.P
	ctor := p.anchorMatcherCtor()
	if ctor == nil {
		c.undecided("internal/strings.NewMatcher", "-", "not found")
		return
	}
	var reaches func(f *ssa.Function, d int) bool
	reaches = func(f *ssa.Function, d int) bool {
		if f == nil || f.Blocks == nil || d > 3 {
			return false
		}
		found := false
		eachInstr(f, func(in ssa.Instruction) {
			if call, ok := in.(*ssa.Call); ok && !found {
				g := call.Call.StaticCallee()
				if g == ctor || g != nil && g != f && g.Pkg == f.Pkg && reaches(g, d+1) {
					found = true
				}
			}
		})
		return found
	}
	n := 0
	for _, fn := range p.FuncsIn("internal/ecolumn") {
		eachInstr(fn, func(in ssa.Instruction) {
			lk, ok := in.(*ssa.Lookup)
			if !ok || !lk.CommaOk {
				return
			}
			ld, ok := lk.X.(*ssa.UnOp)
			if !ok || ld.Op != token.MUL {
				return
			}
			g, ok := ld.X.(*ssa.Global)
			if !ok {
				return
			}
			mt, ok := g.Type().(*types.Pointer).Elem().Underlying().(*types.Map)
			if !ok {
				return
			}
			sig, ok := mt.Elem().Underlying().(*types.Signature)
			if !ok || sig.Params().Len() != 2 || errResultIndex(sig) < 0 {
				return
			}
			if b, ok := sig.Params().At(0).Type().Underlying().(*types.Basic); !ok || b.Kind() != types.String {
				return
			}
			// the ok region of this lookup
			var okIf *ssa.If
			for _, r := range *lk.Referrers() {
				if ex, ok := r.(*ssa.Extract); ok && ex.Index == 1 {
					for _, r2 := range *ex.Referrers() {
						if iff, ok := r2.(*ssa.If); ok {
							okIf = iff
						}
					}
				}
			}
			if okIf == nil {
				return
			}
			n++
			key := fname(fn) + "|table " + g.Name()
			// (b) no strictness test in the region
			strictAt := ""
			for _, b := range fn.Blocks {
				if !edgeDominates(okIf.Block(), 0, b) || len(b.Instrs) == 0 {
					continue
				}
				if iff, ok := b.Instrs[len(b.Instrs)-1].(*ssa.If); ok {
					cond, _ := unNot(iff.Cond, true)
					if fld, _ := fieldOf(cond); fld != nil && fld.Name() == "strict" {
						strictAt = p.instrPos(iff)
					}
					// a short-circuit `c.strict && ...` arrives as a phi
					if phi, ok := cond.(*ssa.Phi); ok {
						for _, e := range phi.Edges {
							if fld, _ := fieldOf(e); fld != nil && fld.Name() == "strict" {
								strictAt = p.instrPos(iff)
							}
						}
					}
				}
				if b != okIf.Block() {
					for _, pd := range b.Preds {
						if iff, ok := pd.Instrs[len(pd.Instrs)-1].(*ssa.If); ok && edgeDominates(okIf.Block(), 0, pd) {
							cond, _ := unNot(iff.Cond, true)
							if fld, _ := fieldOf(cond); fld != nil && fld.Name() == "strict" {
								strictAt = p.instrPos(iff)
							}
						}
					}
				}
			}
			if strictAt != "" {
				c.bad(key+" use", p.instrPos(lk), fmt.Sprintf("the pattern filters consult the strict flag at %s: a pattern is not a value, so whether it `is declared` must not decide between an answer and an error (a literal pattern that matches nothing selects no row on string columns and derived enums)", strictAt))
			} else {
				c.ok(key+" use", p.instrPos(lk), "the pattern filters are applied without a strictness test")
			}
			// (a) every function filed in the table is a pattern filter
			if init := g.Pkg.Func("init"); init != nil {
				eachInstr(init, func(i2 ssa.Instruction) {
					mu, ok := i2.(*ssa.MapUpdate)
					if !ok {
						return
					}
					// the map value being filled is the one stored into g
					stored := false
					for _, r := range *mu.Map.Referrers() {
						if st, ok := r.(*ssa.Store); ok && st.Addr == ssa.Value(g) {
							stored = true
						}
					}
					if !stored {
						return
					}
					name, _ := constString(mu.Key)
					v := mu.Value
					if ct, ok := v.(*ssa.ChangeType); ok {
						v = ct.X
					}
					f, _ := v.(*ssa.Function)
					ekey := fmt.Sprintf("%s|table %s[%q]", fname(fn), g.Name(), name)
					if f != nil && reaches(f, 0) {
						c.ok(ekey, p.instrPos(mu), "a pattern filter: its answer comes from the matcher constructor")
					} else {
						c.bad(ekey, p.instrPos(mu), fmt.Sprintf("the function filed under %q among the pattern filters never reaches the matcher constructor: it compares values, and on this path an undeclared value of a strict enum is not rejected", name))
					}
				})
			}
		})
	}
	if n == 0 {
		c.undecided("internal/ecolumn|pattern filter table", "-", "no lookup of a (string, values) -> (set, error) table found")
	}
}

// ---------- R147 ----------

func init() {
	register(&Rule{ID: "R147", Name: "ENUM-CODES-WRITTEN", Floor: 1,
		Text: "in internal/ecolumn a code array allocated with a length (make([]enumVal, n), n not the constant 0) is written completely before the function reports success: a loop over the whole array (a range over it or over a slice of the same length, or a count up to n) stores into the element of its key on every path through an iteration, and that loop is passed on every path to a successful return. The zero value of a code is not `no value` but the first value of the table, so an element left as allocated reads as that value (a constant column of the second declared value came out as the first)",
		Run:  runR147})
}

func runR147(c *Ctx) {
	p := c.P
	isEnumValSlice := func(t types.Type) bool {
		sl, ok := t.Underlying().(*types.Slice)
		if !ok {
			return false
		}
		n, ok := sl.Elem().(*types.Named)
		return ok && n.Obj().Name() == "enumVal" && n.Obj().Pkg() != nil && n.Obj().Pkg().Path() == rel("internal/ecolumn")
	}
	for _, fn := range p.FuncsIn("internal/ecolumn") {
		fnm := fname(fn)
		loops := loopsOf(fn)
		eachInstr(fn, func(in ssa.Instruction) {
			mk, ok := in.(*ssa.MakeSlice)
			if !ok || !isEnumValSlice(mk.Type()) {
				return
			}
			if k, isK := constInt(mk.Len); isK && k == 0 {
				return
			}
			key := fnm + "|make([]enumVal, n)"
			// the slice as a value: itself, or loads of the local it was stored in
			isSlice := func(v ssa.Value) bool {
				v = stripSliceOpsKeepLen(v)
				if v == ssa.Value(mk) {
					return true
				}
				if ld, ok := v.(*ssa.UnOp); ok && ld.Op == token.MUL {
					if al, ok := ld.X.(*ssa.Alloc); ok && singleDef(al) == ssa.Value(mk) {
						return true
					}
				}
				return false
			}
			sameLen := func(base ssa.Value) bool {
				if isSlice(base) {
					return true
				}
				if lc, ok := stripConvInt(mk.Len).(*ssa.Call); ok && builtinName(lc) == "len" {
					a := lc.Call.Args[0]
					return a == base || accessPath(a) != "" && accessPath(a) == accessPath(base)
				}
				return false
			}
			var fill *loopInfo
			for i := range loops {
				li := &loops[i]
				if li.base == nil || li.key == nil || !sameLen(li.base) {
					continue
				}
				// every path through an iteration stores into slice[key]
				stores := func(b *ssa.BasicBlock) bool {
					for _, i2 := range b.Instrs {
						st, ok := i2.(*ssa.Store)
						if !ok {
							continue
						}
						ia, ok := st.Addr.(*ssa.IndexAddr)
						if ok && isSlice(ia.X) && (stripConvInt(ia.Index) == li.key || rangeKeyOf(stripConvInt(ia.Index), li.base)) {
							return true
						}
					}
					return false
				}
				complete := true
				for _, s := range li.header.Succs {
					if !inLoop(*li, s) {
						continue
					}
					for _, rb := range reachableAvoiding(s, stores) {
						if rb == li.header {
							complete = false
						}
					}
				}
				if complete {
					fill = li
				}
			}
			// a bulk copy into the slice counts as well
			copied := false
			eachInstr(fn, func(i2 ssa.Instruction) {
				if cp, ok := i2.(*ssa.Call); ok && builtinName(cp) == "copy" && isSlice(cp.Call.Args[0]) {
					copied = true
				}
			})
			switch {
			case fill == nil && !copied:
				c.bad(key, p.instrPos(mk), "the code array is allocated with a length but no loop over all of it stores an element on every path of an iteration: what is not stored stays code 0, the first value of the table, instead of the value (or null) the row should hold")
			case fill != nil:
				// the loop is not optional: it is passed on the way to every successful return
				skipped := ""
				avoid := func(b *ssa.BasicBlock) bool { return b == fill.header }
				for _, rb := range append([]*ssa.BasicBlock{mk.Block()}, reachableAvoiding(mk.Block(), avoid)...) {
					if rb == fill.header || len(rb.Instrs) == 0 {
						continue
					}
					if ret, ok := rb.Instrs[len(rb.Instrs)-1].(*ssa.Return); ok && (errResultIndex(fn.Signature) < 0 || mayReportSuccess(ret)) && !fill.header.Dominates(rb) {
						skipped = p.instrPos(ret)
					}
				}
				if skipped != "" {
					c.bad(key, p.instrPos(mk), fmt.Sprintf("the loop that fills the code array can be skipped on the way to the return at %s: on that path every cell keeps code 0, the first value of the table", skipped))
				} else {
					c.ok(key, p.instrPos(mk), "every element is stored by a loop that lies on every path to a successful return")
				}
			default:
				c.ok(key, p.instrPos(mk), "filled by copy")
			}
		})
	}
	c.okTrivial("scan", "-", "code arrays allocated with a length are filled")
}

// ---------- R148 ----------

func init() {
	register(&Rule{ID: "R148", Name: "CELL-NOT-NARROWED", Floor: 1,
		Text: "in the five column packages no integer is converted to a narrower integer type (int/int64/uint64 to 32, 16 or 8 bits) unless the conversion stands under a dominating comparison of the value being converted with a constant or a length (a range test made *before* the conversion): cells, differences of cells and hashes are 64-bit quantities, and a narrowed copy equals the original only for small values - an offset into a bitmap of a value set computed as uint32(cell - min) folds a cell 2^32 away onto a member. Frozen: none needed on today's tree (the only conversion to a byte converts an 8-bit enum code)",
		Run:  runR148})
}

func runR148(c *Ctx) {
	p := c.P
	n := 0
	for _, cp := range columnPkgs {
		for _, fn := range p.FuncsIn(cp) {
			fnm := fname(fn)
			eachInstr(fn, func(in ssa.Instruction) {
				cv, ok := in.(*ssa.Convert)
				if !ok {
					return
				}
				from, to := intSize(cv.X.Type()), intSize(cv.Type())
				if from == 0 || to == 0 || to >= from {
					return
				}
				if _, isConst := cv.X.(*ssa.Const); isConst {
					return
				}
				// conversions to a domain type of the module (the 8-bit enum code) have rules of their own (R33, R34)
				if nt, isNamed := cv.Type().(*types.Named); isNamed && nt.Obj().Pkg() != nil && inModule(nt.Obj().Pkg()) {
					return
				}
				n++
				key := fnm + "|" + cv.X.Type().String() + " -> " + cv.Type().String()
				// a range test of the converted value (or of an operand of it) before the conversion
				operands := map[ssa.Value]bool{cv.X: true}
				if bo, ok := cv.X.(*ssa.BinOp); ok {
					operands[bo.X], operands[bo.Y] = true, true
				}
				guarded := false
				for _, g := range dominatingGuards(cv.Block()) {
					cmp, ok := g.Cond.(*ssa.BinOp)
					if !ok {
						continue
					}
					switch cmp.Op {
					case token.LSS, token.LEQ, token.GTR, token.GEQ:
						if operands[cmp.X] || operands[cmp.Y] {
							guarded = true
						}
					}
				}
				if guarded {
					c.ok(key, p.instrPos(cv), "narrowed after a range test of the value")
				} else {
					c.bad(key, p.instrPos(cv), fmt.Sprintf("a %d-bit integer is narrowed to %d bits without a preceding range test: for values that do not fit, the narrowed copy denotes another value (a distant cell aliases a member of the set, a large count wraps)", from, to))
				}
			})
		}
	}
	c.okTrivial("scan", "-", fmt.Sprintf("%d narrowing integer conversions in the column packages", n))
}
