package main

import (
	"fmt"
	"go/token"
	"go/types"
	"strings"

	"golang.org/x/tools/go/ssa"
)

var errorType = types.Universe.Lookup("error").Type()

func isErrorType(t types.Type) bool { return types.Identical(t, errorType) }

// errResultIndex returns the index of the error result of a signature, or -1.
func errResultIndex(sig *types.Signature) int {
	r := sig.Results()
	for i := r.Len() - 1; i >= 0; i-- {
		if isErrorType(r.At(i).Type()) {
			return i
		}
	}
	return -1
}

// implementsError: t is the error interface or a concrete type with an Error() string method (qerrors.Error).
func implementsError(t types.Type) bool {
	if isErrorType(t) {
		return true
	}
	if _, ok := t.Underlying().(*types.Interface); ok {
		return false
	}
	ei := errorType.Underlying().(*types.Interface)
	return types.Implements(t, ei) || types.Implements(types.NewPointer(t), ei)
}

// errorLikeResults: the values of call c that are errors (interface or a concrete error type).
func errorLikeResults(c *ssa.Call) []ssa.Value {
	sig := c.Call.Signature()
	res := sig.Results()
	var out []ssa.Value
	if res.Len() == 1 {
		if implementsError(res.At(0).Type()) {
			out = append(out, c)
		}
		return out
	}
	for _, r := range *c.Referrers() {
		if e, ok := r.(*ssa.Extract); ok && implementsError(res.At(e.Index).Type()) {
			out = append(out, e)
		}
	}
	if len(out) == 0 {
		for i := 0; i < res.Len(); i++ {
			if implementsError(res.At(i).Type()) {
				// an error result exists but is never extracted: nothing to follow, the wrap is dropped
				return []ssa.Value{c}
			}
		}
	}
	return out
}

// errValuesOfCall returns the SSA values holding the error result of call c
// (the call itself for single results, Extracts for tuples). dropped is true if
// the error result is never bound to a value at all.
func errValuesOfCall(c *ssa.Call) (vals []ssa.Value, dropped bool) {
	sig := c.Call.Signature()
	idx := errResultIndex(sig)
	if idx < 0 {
		return nil, false
	}
	if sig.Results().Len() == 1 {
		if len(*c.Referrers()) == 0 {
			return nil, true
		}
		return []ssa.Value{c}, false
	}
	for _, r := range *c.Referrers() {
		if e, ok := r.(*ssa.Extract); ok && e.Index == idx {
			vals = append(vals, e)
		}
	}
	return vals, len(vals) == 0
}

// propagates reports whether value v (an error) reaches a sink: a return operand, an argument of
// any call, a store to the heap / a field / a free variable, a closure binding, a channel send,
// a map update or a panic. Being compared with nil/io.EOF or branched on is NOT a sink.
// The walk follows phis, interface conversions and local variables (Alloc cells).
func propagates(v ssa.Value) (bool, string) {
	seen := map[ssa.Value]bool{}
	var walk func(v ssa.Value) (bool, string)
	walk = func(v ssa.Value) (bool, string) {
		if seen[v] {
			return false, ""
		}
		seen[v] = true
		refs := v.Referrers()
		if refs == nil {
			return false, ""
		}
		for _, r := range *refs {
			switch t := r.(type) {
			case *ssa.Return:
				// also when it travels in a data slot (interface{}): a caller that type-switches on the data
				// rejects it, so the failure is still reported (mutant 859 of the second mutation run is
				// behaviour-preserving up to the message text)
				return true, "returned"
			case *ssa.Phi:
				if ok, how := walk(t); ok {
					return true, how
				}
			case *ssa.MakeInterface:
				if ok, how := walk(t); ok {
					return true, how
				}
			case *ssa.ChangeInterface:
				if ok, how := walk(t); ok {
					return true, how
				}
			case *ssa.ChangeType:
				if ok, how := walk(t); ok {
					return true, how
				}
			case *ssa.TypeAssert:
				if ok, how := walk(t); ok {
					return true, how
				}
			case *ssa.Extract:
				if ok, how := walk(t); ok {
					return true, how
				}
			case *ssa.Store:
				if t.Val != v {
					continue
				}
				if underEOFGuard(v, t.Block()) {
					continue // stored only when it is io.EOF: no sink for a real failure
				}
				switch a := t.Addr.(type) {
				case *ssa.Alloc:
					if a.Heap {
						// escaping local (captured or address taken): treat loads as continuing the flow,
						// and capture by a closure as a sink.
						for _, ar := range *a.Referrers() {
							switch l := ar.(type) {
							case *ssa.UnOp:
								if l.Op == token.MUL {
									if ok, how := walk(l); ok {
										return true, how
									}
								}
							case *ssa.MakeClosure:
								return true, "captured by closure"
							case ssa.CallInstruction:
								return true, "address passed to call"
							}
						}
					} else {
						for _, ar := range *a.Referrers() {
							if l, ok := ar.(*ssa.UnOp); ok && l.Op == token.MUL {
								if ok, how := walk(l); ok {
									return true, how
								}
							}
						}
					}
				case *ssa.FieldAddr:
					// store into a field of a local struct (e.g. a result struct being built) or of an object
					return true, "stored in field " + fieldName(a)
				default:
					return true, "stored to memory"
				}
			case *ssa.MapUpdate, *ssa.Send, *ssa.Panic, *ssa.MakeClosure:
				return true, "escapes (" + strings.TrimPrefix(fmt.Sprintf("%T", r), "*ssa.") + ")"
			case ssa.CallInstruction:
				cc := t.Common()
				// receiver of err.Error() alone is not propagation, but an argument is
				if cc.IsInvoke() && cc.Value == v {
					// err.Error() - follow the string result
					if call, ok := t.(*ssa.Call); ok {
						if ok2, how := walk(call); ok2 {
							return true, "err.Error() " + how
						}
					}
					continue
				}
				name := "call"
				if o := calleeObj(t); o != nil {
					name = o.Name()
				}
				// a call that hands back an error (a wrapper such as qerrors.Propagate, fmt.Errorf) is not the end
				// of the journey: the wrapped error must reach a sink itself, otherwise `err = wrap(err)` into a
				// shadowed variable swallows the failure
				if call, ok := t.(*ssa.Call); ok {
					if wrapped := errorLikeResults(call); len(wrapped) > 0 {
						for _, w := range wrapped {
							if ok2, how := walk(w); ok2 {
								return true, "wrapped by " + name + ", then " + how
							}
						}
						continue
					}
				}
				return true, "passed to " + name
			case *ssa.BinOp:
				// comparison with nil: a sink only if the non-nil branch itself reports a failure
				if handledByBranch(t, v) {
					return true, "tested; the non-nil branch reports an error"
				}
			case *ssa.If:
			case *ssa.FieldAddr, *ssa.Field:
				// not applicable to error interfaces
			}
		}
		return false, ""
	}
	return walk(v)
}

// underEOFGuard: block b is only reached when v == io.EOF.
func underEOFGuard(v ssa.Value, b *ssa.BasicBlock) bool {
	for _, g := range dominatingGuards(b) {
		cmp, ok := g.Cond.(*ssa.BinOp)
		if !ok || !(cmp.Op == token.EQL && g.Val || cmp.Op == token.NEQ && !g.Val) {
			continue
		}
		for _, side := range [][2]ssa.Value{{cmp.X, cmp.Y}, {cmp.Y, cmp.X}} {
			if side[0] != v {
				continue
			}
			if u, ok := side[1].(*ssa.UnOp); ok && u.Op == token.MUL {
				if gl, ok := u.X.(*ssa.Global); ok && gl.Pkg != nil && gl.Pkg.Pkg.Path() == "io" && gl.Name() == "EOF" {
					return true
				}
			}
		}
	}
	return false
}

// handledByBranch: cmp is `v != nil` / `v == nil`; reports whether the region of the CFG that is
// reached only when v is non-nil constructs or returns an error (qerrors.New/Propagate, fmt.Errorf,
// errors.New, a return with a non-nil error slot, or a call of a method named withErr).
var inRetry bool

func sourceCall(v ssa.Value) *ssa.Call {
	switch t := v.(type) {
	case *ssa.Call:
		return t
	case *ssa.Extract:
		c, _ := t.Tuple.(*ssa.Call)
		return c
	}
	return nil
}

func handledByBranch(cmp *ssa.BinOp, v ssa.Value) bool {
	if cmp.Op != token.NEQ && cmp.Op != token.EQL {
		return false
	}
	other := cmp.Y
	if cmp.Y == v {
		other = cmp.X
	}
	if c, ok := other.(*ssa.Const); !ok || !c.IsNil() {
		return false
	}
	for _, r := range *cmp.Referrers() {
		iff, ok := r.(*ssa.If)
		if !ok {
			continue
		}
		nonNil := 0 // successor index taken when v != nil
		if cmp.Op == token.EQL {
			nonNil = 1
		}
		blk := iff.Block()
		// the failed attempt is retried on a fallback path: the same operation is called again on some path
		// from the non-nil edge, and that call's own error reaches a sink
		if src := sourceCall(v); src != nil && !inRetry {
			srcBlk := src.Block()
			// stay within the same activation of the enclosing loop body: do not go back to a block that
			// dominates the failed call (that would be the next iteration / another filter)
			for _, rb := range reachableAvoiding(blk.Succs[nonNil], func(x *ssa.BasicBlock) bool { return x != srcBlk && x.Dominates(srcBlk) }) {
				for _, in := range rb.Instrs {
					rc, ok := in.(*ssa.Call)
					if !ok || rc == src || calleeObj(rc) == nil || calleeObj(rc) != calleeObj(src) {
						continue
					}
					inRetry = true
					vals, _ := errValuesOfCall(rc)
					okRetry := false
					for _, ev := range vals {
						if ok, _ := propagates(ev); ok {
							okRetry = true
						}
					}
					inRetry = false
					if okRetry {
						return true
					}
				}
			}
		}
		for _, b := range blk.Parent().Blocks {
			if !edgeDominates(blk, nonNil, b) {
				continue
			}
			for _, in := range b.Instrs {
				switch t := in.(type) {
				case *ssa.Return:
					idx := errResultIndex(b.Parent().Signature)
					if idx >= 0 && idx < len(t.Results) {
						if c, ok := t.Results[idx].(*ssa.Const); !ok || !c.IsNil() {
							return true
						}
					}
				case ssa.CallInstruction:
					o := calleeObj(t)
					if o == nil || o.Pkg() == nil {
						continue
					}
					switch {
					case o.Pkg().Path() == rel("qerrors") && (o.Name() == "New" || o.Name() == "Propagate"),
						o.Pkg().Path() == "fmt" && o.Name() == "Errorf",
						o.Pkg().Path() == "errors" && o.Name() == "New":
						// the error constructed on the failure side must itself go somewhere: assigned to a
						// shadowed variable that nobody reads, it reports nothing
						if call, ok := t.(*ssa.Call); ok && !inRetry {
							if okP, _ := propagates(call); okP {
								return true
							}
							continue
						}
						return true
					case curProg != nil && curProg.isErrSetter(o):
						return true
					}
				}
			}
		}
	}
	return false
}

func fieldName(fa *ssa.FieldAddr) string {
	st, ok := deref(fa.X.Type()).Underlying().(*types.Struct)
	if !ok || fa.Field >= st.NumFields() {
		return "?"
	}
	return st.Field(fa.Field).Name()
}

// reachableAvoiding returns the blocks reachable from start without entering a block for which avoid() is true.
func reachableAvoiding(start *ssa.BasicBlock, avoid func(*ssa.BasicBlock) bool) []*ssa.BasicBlock {
	seen := map[*ssa.BasicBlock]bool{}
	var out []*ssa.BasicBlock
	var dfs func(b *ssa.BasicBlock)
	dfs = func(b *ssa.BasicBlock) {
		if seen[b] {
			return
		}
		seen[b] = true
		if avoid != nil && avoid(b) {
			return
		}
		out = append(out, b)
		for _, s := range b.Succs {
			dfs(s)
		}
	}
	dfs(start)
	return out
}

// returnsNilError reports whether the Return instruction returns a nil constant in its error slot
// (or has no error slot, in which case failures cannot be reported at all -> false).
func returnsNilError(r *ssa.Return) bool {
	sig := r.Parent().Signature
	idx := errResultIndex(sig)
	if idx < 0 || idx >= len(r.Results) {
		return false
	}
	c, ok := unspillResult(r, r.Results[idx]).(*ssa.Const)
	return ok && c.IsNil()
}

// unspillResult: in a function with a defer (or named results) go/ssa spills the results into local cells and the
// Return loads them back (`*r0`); the value returned is what was last stored into that cell on the way to the
// return - in the return's own block, or, when every predecessor path agrees, before it.
func unspillResult(r *ssa.Return, v ssa.Value) ssa.Value {
	ld, ok := v.(*ssa.UnOp)
	if !ok || ld.Op != token.MUL {
		return v
	}
	al, ok := ld.X.(*ssa.Alloc)
	if !ok {
		return v
	}
	var lastStore func(b *ssa.BasicBlock, before int, seen map[*ssa.BasicBlock]bool) (ssa.Value, bool)
	lastStore = func(b *ssa.BasicBlock, before int, seen map[*ssa.BasicBlock]bool) (ssa.Value, bool) {
		for i := before - 1; i >= 0; i-- {
			if st, ok := b.Instrs[i].(*ssa.Store); ok && st.Addr == ssa.Value(al) {
				return st.Val, true
			}
		}
		if seen[b] || len(b.Preds) == 0 {
			return nil, false
		}
		seen[b] = true
		var val ssa.Value
		for _, pd := range b.Preds {
			pv, ok := lastStore(pd, len(pd.Instrs), seen)
			if !ok {
				return nil, false
			}
			if val == nil {
				val = pv
			} else if val != pv {
				// different values on different paths: equal constants are fine
				c1, ok1 := val.(*ssa.Const)
				c2, ok2 := pv.(*ssa.Const)
				if !(ok1 && ok2 && c1.IsNil() && c2.IsNil()) {
					return nil, false
				}
			}
		}
		return val, val != nil
	}
	idx := len(r.Block().Instrs)
	for i, in := range r.Block().Instrs {
		if in == ssa.Instruction(ld) {
			idx = i
		}
	}
	if sv, ok := lastStore(r.Block(), idx, map[*ssa.BasicBlock]bool{}); ok {
		return sv
	}
	return v
}

// mayReportSuccess: the error result is nil, or the forwarded result of another call (`return f(x)`),
// which is nil whenever f succeeds; constructed errors (qerrors.New/Propagate) never are.
func mayReportSuccess(r *ssa.Return) bool {
	if returnsNilError(r) {
		return true
	}
	idx := errResultIndex(r.Parent().Signature)
	if idx < 0 || idx >= len(r.Results) {
		return false
	}
	v := unspillResult(r, r.Results[idx])
	if ex, ok := v.(*ssa.Extract); ok {
		v = ex.Tuple
	}
	call, ok := v.(*ssa.Call)
	if !ok {
		return false
	}
	if o := calleeObj(call); o != nil && o.Pkg() != nil && o.Pkg().Path() == rel("qerrors") {
		return false
	}
	return true
}

func recvOf(c ssa.CallInstruction) ssa.Value {
	cc := c.Common()
	if cc.IsInvoke() {
		return cc.Value
	}
	if cc.Signature().Recv() != nil && len(cc.Args) > 0 {
		return cc.Args[0]
	}
	return nil
}

// rootValue strips loads / conversions so that two uses of the same variable compare equal.
func rootValue(v ssa.Value) ssa.Value {
	for {
		switch t := v.(type) {
		case *ssa.ChangeType:
			v = t.X
		case *ssa.ChangeInterface:
			v = t.X
		case *ssa.MakeInterface:
			v = t.X
		case *ssa.UnOp:
			if t.Op == token.MUL {
				v = t.X
			} else {
				return v
			}
		default:
			return v
		}
	}
}

// methodOn returns the method named name with signature `func() error` / `func() bool` etc. on T or *T.
func methodOn(t types.Type, name string) *types.Func {
	for _, tt := range []types.Type{t, types.NewPointer(deref(t)), deref(t)} {
		ms := types.NewMethodSet(tt)
		for i := 0; i < ms.Len(); i++ {
			if f, ok := ms.At(i).Obj().(*types.Func); ok && f.Name() == name {
				return f
			}
		}
	}
	return nil
}

func init() {
	register(&Rule{ID: "R29", Name: "ITER-ERR", Floor: 2,
		Text: "for every loop driven by x.Next() where x also has Err() error: every path from the loop's exit edge to a return whose error result is the nil constant passes through a call of x.Err() whose result reaches a sink (scanner-style iterators report failure only through Err)",
		Run:  runR29})
	register(&Rule{ID: "R30", Name: "FLUSH-ERR", Floor: 1,
		Text: "every path from a call of (*encoding/csv.Writer).Flush or (*bufio.Writer).Flush to a return passes through Error() on the same writer (csv) or uses Flush's own error (bufio), and that error reaches a sink",
		Run:  runR30})
	register(&Rule{ID: "R31", Name: "ERR-FLOW", Floor: 60,
		Text: "every call in scope whose result tuple contains an error binds that result and the bound value reaches a sink (returned, wrapped by a call, stored in a field such as QFrame.Err or the reader's sticky err); an error that is only compared with nil/io.EOF, or never bound, is dropped. Frozen exceptions listed in evidence",
		Run:  runR31})
	register(&Rule{ID: "R41", Name: "USE-BEFORE-CHECK", Floor: 10,
		Text: "a pointer/interface result v of a call returning (v, err) is not used as a receiver, dereferenced or deferred on a path where err has not been tested to be nil (a failing driver/reader returns v == nil)",
		Run:  runR41})
	register(&Rule{ID: "R24", Name: "READ-N", Floor: 2,
		Text: "at every call of (io.Reader).Read the returned count n flows into the bound of the re-slice / is returned, and the returned error reaches a sink; no site assumes the buffer was filled",
		Run:  runR24})
}

func runR29(c *Ctx) {
	p := c.P
	for _, fn := range p.Funcs {
		for _, b := range fn.Blocks {
			if len(b.Instrs) == 0 {
				continue
			}
			iff, ok := b.Instrs[len(b.Instrs)-1].(*ssa.If)
			if !ok {
				continue
			}
			cond, val := unNot(iff.Cond, true)
			call, ok := cond.(*ssa.Call)
			if !ok {
				continue
			}
			obj := calleeObj(call)
			if obj == nil || obj.Name() != "Next" && obj.Name() != "Scan" && obj.Name() != "More" {
				continue
			}
			sig := obj.Type().(*types.Signature)
			if sig.Params().Len() != 0 || sig.Results().Len() != 1 || !types.Identical(sig.Results().At(0).Type(), types.Typ[types.Bool]) {
				continue
			}
			recv := recvOf(call)
			if recv == nil {
				continue
			}
			// how the iterator reports that it stopped because of a failure: Err() for Next/Scan iterators;
			// json.Decoder.More() returns false on a read error as well, which only the next Token/Decode reports
			closers := map[string]bool{"Err": true}
			if isFuncNamed(obj, "encoding/json", "Decoder", "More") {
				closers = map[string]bool{"Token": true, "Decode": true}
			} else if obj.Name() == "More" || methodOn(recv.Type(), "Err") == nil {
				continue
			}
			// is this a loop? the block must be reachable from its "continue" successor
			contIdx, exitIdx := 0, 1
			if !val {
				contIdx, exitIdx = 1, 0
			}
			inLoop := false
			for _, rb := range reachableAvoiding(b.Succs[contIdx], nil) {
				if rb == b {
					inLoop = true
				}
			}
			if !inLoop {
				continue
			}
			key := fname(fn) + "|loop over " + types.TypeString(deref(recv.Type()), shortQual) + "." + obj.Name()
			root := rootValue(recv)
			checksErr := func(blk *ssa.BasicBlock) bool {
				for _, in := range blk.Instrs {
					cl, ok := in.(*ssa.Call)
					if !ok {
						continue
					}
					if o := calleeObj(cl); o != nil && closers[o.Name()] && recvOf(cl) != nil && rootValue(recvOf(cl)) == root {
						if ok, _ := propagates(cl); ok {
							return true
						}
					}
					// the consultation wrapped into a helper: a module function that is handed the iterator, calls the
					// closer on that parameter and returns (a wrapping of) its result as an error, which the caller hands on
					if h := cl.Call.StaticCallee(); h != nil && h.Blocks != nil && h.Pkg != nil && inModule(h.Pkg.Pkg) && errResultIndex(h.Signature) >= 0 {
						for i, a := range cl.Call.Args {
							if rootValue(a) != root || i >= len(h.Params) {
								continue
							}
							consults := false
							eachInstr(h, func(i2 ssa.Instruction) {
								c2, ok := i2.(*ssa.Call)
								if !ok {
									return
								}
								if o := calleeObj(c2); o != nil && closers[o.Name()] && recvOf(c2) != nil && rootValue(recvOf(c2)) == ssa.Value(h.Params[i]) {
									if ok, _ := propagates(c2); ok {
										consults = true
									}
								}
							})
							if consults {
								if ok, _ := propagates(cl); ok {
									return true
								}
							}
						}
					}
				}
				return false
			}
			var badRet *ssa.Return
			for _, rb := range reachableAvoiding(b.Succs[exitIdx], checksErr) {
				if rb == b {
					continue
				}
				if ret, ok := rb.Instrs[len(rb.Instrs)-1].(*ssa.Return); ok && mayReportSuccess(ret) {
					badRet = ret
					break
				}
			}
			if badRet != nil {
				c.bad(key, p.instrPos(iff), fmt.Sprintf("loop ends when "+obj.Name()+"() returns false, and the success return at %s is reachable without consulting "+closerNames(closers)+": a failure of the underlying reader/driver is taken for end of input (partial data, no error)", p.instrPos(badRet)))
			} else {
				c.ok(key, p.instrPos(iff), "every nil-error return after the loop exit passes through Err() whose result reaches a sink")
			}
		}
	}
}

func shortQual(p *types.Package) string { return p.Name() }

func runR30(c *Ctx) {
	p := c.P
	for _, fn := range p.Funcs {
		eachInstr(fn, func(in ssa.Instruction) {
			call, ok := in.(ssa.CallInstruction)
			if !ok {
				return
			}
			obj := calleeObj(call)
			if obj == nil || obj.Name() != "Flush" || obj.Pkg() == nil {
				return
			}
			isCSV := isFuncNamed(obj, "encoding/csv", "Writer", "Flush")
			isBufio := isFuncNamed(obj, "bufio", "Writer", "Flush")
			if !isCSV && !isBufio {
				return
			}
			key := fname(fn) + "|" + obj.Pkg().Name() + ".Writer.Flush"
			pos := p.instrPos(in)
			if isBufio {
				cl, isCall := in.(*ssa.Call)
				if !isCall {
					c.bad(key, pos, "Flush's error is discarded (deferred/go call)")
					return
				}
				if ok, how := propagates(cl); ok {
					c.ok(key, pos, "Flush error "+how)
				} else {
					c.bad(key, pos, "error returned by bufio.Writer.Flush is dropped")
				}
				return
			}
			root := rootValue(recvOf(call))
			checks := func(blk *ssa.BasicBlock) bool {
				seenFlush := blk != in.Block()
				for _, i2 := range blk.Instrs {
					if i2 == in {
						seenFlush = true
						continue
					}
					if !seenFlush {
						continue
					}
					if cl, ok := i2.(*ssa.Call); ok {
						if o := calleeObj(cl); isFuncNamed(o, "encoding/csv", "Writer", "Error") && rootValue(recvOf(cl)) == root {
							if ok, _ := propagates(cl); ok {
								return true
							}
						}
					}
				}
				return false
			}
			if _, isDefer := in.(*ssa.Defer); isDefer {
				c.bad(key, pos, "deferred Flush: its outcome can never be reported")
				return
			}
			// paths from the flush to a return avoiding blocks that consult Error() after the flush
			if checks(in.Block()) {
				c.ok(key, pos, "Error() consulted right after Flush and its result reaches a sink")
				return
			}
			var badRet *ssa.Return
			start := in.Block()
			if r, ok := start.Instrs[len(start.Instrs)-1].(*ssa.Return); ok {
				badRet = r
			} else {
				for _, s := range start.Succs {
					for _, rb := range reachableAvoiding(s, checks) {
						if r, ok := rb.Instrs[len(rb.Instrs)-1].(*ssa.Return); ok {
							badRet = r
						}
					}
				}
			}
			if badRet != nil {
				c.bad(key, pos, fmt.Sprintf("csv.Writer buffers output; write errors surface only through Error() after Flush, but the return at %s is reachable from Flush without consulting it: success is reported for output the writer did not accept", p.instrPos(badRet)))
			} else {
				c.ok(key, pos, "every path from Flush to a return consults Error()")
			}
		})
	}
}

// r31Exempt: calls whose error result may be ignored, each with a reason.
var r31Exempt = []struct{ pkg, recv, name, why string }{
	{"bytes", "Buffer", "Write", "documented: err is always nil"},
	{"bytes", "Buffer", "WriteString", "documented: err is always nil"},
	{"bytes", "Buffer", "WriteByte", "documented: err is always nil"},
	{"bytes", "Buffer", "WriteRune", "documented: err is always nil"},
	{"strings", "Builder", "Write", "documented: err is always nil"},
	{"strings", "Builder", "WriteString", "documented: err is always nil"},
	{"strings", "Builder", "WriteByte", "documented: err is always nil"},
	{"strings", "Builder", "WriteRune", "documented: err is always nil"},
	{"fmt", "", "Fprintf", "used only on in-memory builders in scope (checked: first argument)"},
	{"fmt", "", "Fprintln", "as Fprintf"},
	{"fmt", "", "Fprint", "as Fprintf"},
	{"fmt", "", "Println", "diagnostic output to stdout, not part of any property"},
	{"fmt", "", "Printf", "diagnostic output to stdout, not part of any property"},
	{"database/sql", "Stmt", "Close", "read path: result set already materialised; Close error carries no data loss"},
	{"database/sql", "Rows", "Close", "as Stmt.Close"},
}

func runR31(c *Ctx) {
	p := c.P
	exempted := map[string]int{}
	for _, fn := range p.Funcs {
		eachInstr(fn, func(in ssa.Instruction) {
			ci, ok := in.(ssa.CallInstruction)
			if !ok {
				return
			}
			sig := ci.Common().Signature()
			if sig == nil || errResultIndex(sig) < 0 {
				return
			}
			obj := calleeObj(ci)
			name := "dynamic call"
			if obj != nil {
				name = obj.Name()
				if r := obj.Type().(*types.Signature).Recv(); r != nil {
					name = types.TypeString(deref(r.Type()), shortQual) + "." + name
				} else if obj.Pkg() != nil {
					name = obj.Pkg().Name() + "." + name
				}
			} else if b := builtinName(ci); b != "" {
				return
			}
			key := fname(fn) + "|" + name
			pos := p.instrPos(in)
			if obj != nil && obj.Name() == "Err" && sig.Params().Len() == 0 && sig.Results().Len() == 1 && sig.Recv() != nil {
				// accessor of an already recorded failure (FilterClause.Err, Expression.Err, Reader.Err,
				// Rows.Err): re-readable state, not a producer. R29/R20 judge where it must be consulted.
				exempted["accessor Err() error: re-exposes a stored failure; judged by R29/R20"]++
				return
			}
			for _, e := range r31Exempt {
				if obj != nil && isFuncNamed(obj, e.pkg, e.recv, e.name) {
					exempted[e.pkg+"."+e.recv+"."+e.name+": "+e.why]++
					return
				}
			}
			call, isCall := in.(*ssa.Call)
			if !isCall {
				c.bad(key, pos, "error result of a deferred/go call is discarded")
				return
			}
			// a callee that cannot fail: every function the call may reach is a module function all of whose
			// returns carry a nil error (the Rolling stubs) - there is nothing to propagate
			if r31CannotFail(p, call) {
				c.okTrivial(key, pos, "every function this call can reach returns a nil error on all paths")
				return
			}
			// a failure that stays with the writer: encoding/csv.Writer keeps the first error of its buffered writer
			// and reports it again from Error(); where the same writer's Error() is consulted in this function (R30
			// decides that it is, on every path to success) the individual Write results add nothing
			if obj != nil && isFuncNamed(obj, "encoding/csv", "Writer", "Write") && r31WriterErrorConsulted(call) {
				c.okTrivial(key, pos, "csv.Writer keeps its first error; the function consults the same writer's Error()")
				return
			}
			vals, dropped := errValuesOfCall(call)
			if dropped {
				c.bad(key, pos, "error result is never bound: failure is silently dropped")
				return
			}
			for _, v := range vals {
				if ok, how := propagates(v); ok {
					c.ok(key, pos, "error "+how)
					return
				}
			}
			c.bad(key, pos, "error result is only compared / branched on and never reaches a return, a wrapping call or an Err field: the failure cannot surface")
		})
	}
	c.note("exempted_calls", exempted)
	r31SuccessAfterUnchecked(c)
	r31DeferredOverwrite(c)
}

// r31CannotFail: every function the call may reach is a module function whose error result is the nil constant
// on every return.
func r31CannotFail(p *Prog, call *ssa.Call) bool {
	callees := p.resolver().callees(call)
	if len(callees) == 0 {
		return false
	}
	if call.Call.IsInvoke() {
		// an interface of the module that cannot be implemented outside it? only when a method mentions an
		// internal type; otherwise a foreign implementation may fail
		iface, _ := call.Call.Value.Type().Underlying().(*types.Interface)
		if iface == nil || !mentionsInternalType(iface) {
			return false
		}
	} else if call.Call.StaticCallee() == nil {
		return false
	}
	for _, callee := range callees {
		if callee.Blocks == nil || callee.Pkg == nil || !inModule(callee.Pkg.Pkg) {
			return false
		}
		ei := errResultIndex(callee.Signature)
		if ei < 0 {
			return false
		}
		n, all := 0, true
		eachInstr(callee, func(in ssa.Instruction) {
			if r, ok := in.(*ssa.Return); ok {
				n++
				if cst, ok := unspillResult(r, r.Results[ei]).(*ssa.Const); !ok || !cst.IsNil() {
					all = false
				}
			}
		})
		if n == 0 || !all {
			return false
		}
	}
	return true
}

// mentionsInternalType: some method of the interface has a parameter or result type declared in an internal/
// package of the module, so no package outside the module can implement it.
func mentionsInternalType(iface *types.Interface) bool {
	for i := 0; i < iface.NumMethods(); i++ {
		sig := iface.Method(i).Type().(*types.Signature)
		for _, tup := range []*types.Tuple{sig.Params(), sig.Results()} {
			for j := 0; j < tup.Len(); j++ {
				if n, ok := deref(tup.At(j).Type()).(*types.Named); ok && n.Obj().Pkg() != nil && strings.Contains(n.Obj().Pkg().Path(), "/internal/") {
					return true
				}
			}
		}
	}
	return false
}

// r31WriterErrorConsulted: the function also calls Error() on the writer this Write call is made on.
func r31WriterErrorConsulted(call *ssa.Call) bool {
	if len(call.Call.Args) == 0 {
		return false
	}
	w := call.Call.Args[0]
	found := false
	eachInstr(call.Parent(), func(in ssa.Instruction) {
		c2, ok := in.(*ssa.Call)
		if !ok || !isFuncNamed(calleeObj(c2), "encoding/csv", "Writer", "Error") || len(c2.Call.Args) == 0 {
			return
		}
		if c2.Call.Args[0] == w || accessPath(c2.Call.Args[0]) != "" && accessPath(c2.Call.Args[0]) == accessPath(w) {
			if valueMatters(c2, 0) {
				found = true
			}
		}
	})
	return found
}

// r31SuccessAfterUnchecked (clause b): in a function that itself returns an error, no return with a nil
// constant in the error slot is reachable from a call that produced an error value v along a path on which
// v was never looked at: no branch on v (== nil, != nil, == io.EOF), no sink of v (stored, handed on,
// returned), no repetition of the call. Path-insensitive R31 accepts an error that is returned on one path and
// silently dropped on another (`if n > 0 { return n, nil }` before the error was looked at).
func r31SuccessAfterUnchecked(c *Ctx) {
	p := c.P
	for _, fn := range p.Funcs {
		if errResultIndex(fn.Signature) < 0 || fn.Blocks == nil {
			continue
		}
		var rets []*ssa.Return
		eachInstr(fn, func(in ssa.Instruction) {
			if r, ok := in.(*ssa.Return); ok && returnsNilError(r) {
				rets = append(rets, r)
			}
		})
		if len(rets) == 0 {
			continue
		}
		eachInstr(fn, func(in ssa.Instruction) {
			call, ok := in.(*ssa.Call)
			if !ok {
				return
			}
			sig := call.Call.Signature()
			if sig == nil || errResultIndex(sig) < 0 {
				return
			}
			obj := calleeObj(call)
			if obj != nil && obj.Name() == "Err" && sig.Params().Len() == 0 && sig.Recv() != nil {
				return
			}
			for _, e := range r31Exempt {
				if obj != nil && isFuncNamed(obj, e.pkg, e.recv, e.name) {
					return
				}
			}
			vals, dropped := errValuesOfCall(call)
			if dropped || len(vals) == 0 {
				return // clause a reports it
			}
			name := "dynamic call"
			if obj != nil {
				name = obj.Name()
			}
			key := fname(fn) + "|" + name + "|checked before success"
			v := vals[0]
			aliases := errAliases(v)
			from := call.Block()
			reach := map[*ssa.BasicBlock]bool{}
			for _, b := range reachableAvoiding(from, func(*ssa.BasicBlock) bool { return false }) {
				reach[b] = true
			}
			for _, r := range rets {
				rb := r.Block()
				if rb != from && !reach[rb] {
					continue
				}
				if rb == from && !precedes(call, r) {
					continue
				}
				// the error of a Read has no `try something else` idiom: on every path it is nil, io.EOF, or handed on
				strict := call.Common().IsInvoke() && call.Common().Method.Name() == "Read"
				if why := errSettledBefore(p, aliases, call, r, strict); why != "" {
					continue
				}
				c.bad(key, p.instrPos(r), fmt.Sprintf("success (nil error) is returned at %s on a path from the call of %s at %s on which its error was neither tested nor handed on: when the call fails on that path the failure is swallowed", p.instrPos(r), name, p.instrPos(call)))
				return
			}
			c.okTrivial(key, p.instrPos(call), "every nil-error return reachable from the call lies behind a test of its error or a sink")
		})
	}
}

// errAliases: v plus phis / interface conversions / local cells it flows through (within the function).
func errAliases(v ssa.Value) map[ssa.Value]bool {
	out := map[ssa.Value]bool{}
	var walk func(x ssa.Value)
	walk = func(x ssa.Value) {
		if out[x] {
			return
		}
		out[x] = true
		refs := x.Referrers()
		if refs == nil {
			return
		}
		for _, r := range *refs {
			switch t := r.(type) {
			case *ssa.Phi:
				walk(t)
			case *ssa.MakeInterface:
				walk(t)
			case *ssa.ChangeInterface:
				walk(t)
			case *ssa.ChangeType:
				walk(t)
			case *ssa.Store:
				if t.Val == x {
					if a, ok := t.Addr.(*ssa.Alloc); ok {
						for _, ar := range *a.Referrers() {
							if l, ok := ar.(*ssa.UnOp); ok && l.Op == token.MUL {
								walk(l)
							}
						}
					}
				}
			}
		}
	}
	walk(v)
	return out
}

// errSettledBefore: "" when some path leads from the call to the return r without crossing a branch edge that
// establishes `error is nil` (or `error is io.EOF`), a block in which the error reaches a sink, or a
// repetition of the same operation; otherwise the reason the return is fine.
func errSettledBefore(p *Prog, aliases map[ssa.Value]bool, call *ssa.Call, r *ssa.Return, strict bool) string {
	rb := r.Block()
	obj := calleeObj(call)
	// position of the first sink / retry per block (instructions after the call in the call's own block)
	settlesAt := func(b *ssa.BasicBlock, from int) int {
		for i := from; i < len(b.Instrs); i++ {
			in := b.Instrs[i]
			switch t := in.(type) {
			case *ssa.Store:
				if aliases[t.Val] {
					if _, local := t.Addr.(*ssa.Alloc); !local {
						return i
					}
				}
			case *ssa.MapUpdate:
				if aliases[t.Value] {
					return i
				}
			case *ssa.Send:
				if aliases[t.X] {
					return i
				}
			case *ssa.Panic:
				return i
			case ssa.CallInstruction:
				cc := t.Common()
				for _, arg := range cc.Args {
					if aliases[arg] && !(cc.IsInvoke() && cc.Value == arg) {
						return i
					}
				}
				if rc, ok := in.(*ssa.Call); ok && rc != call && obj != nil && calleeObj(rc) == obj {
					return i // the operation is attempted again: its own error is a separate obligation
				}
			case *ssa.Return:
				// returning the error itself
				for _, res := range t.Results {
					if aliases[res] {
						return i
					}
				}
			}
		}
		return -1
	}
	idxOf := func(b *ssa.BasicBlock, in ssa.Instruction) int {
		for i, x := range b.Instrs {
			if x == in {
				return i
			}
		}
		return -1
	}
	seen := map[*ssa.BasicBlock]bool{}
	var visit func(b *ssa.BasicBlock, from int) bool // true = a bad path reaches r
	visit = func(b *ssa.BasicBlock, from int) bool {
		if from == 0 {
			if seen[b] || b == call.Block() {
				return false // back at the call: a new error value replaces this one
			}
			seen[b] = true
		}
		stop := settlesAt(b, from)
		if b == rb {
			ri := idxOf(b, r)
			if ri >= from && (stop < 0 || stop > ri) {
				return true
			}
		}
		if stop >= 0 {
			return false
		}
		if len(b.Instrs) == 0 {
			return false
		}
		if iff, ok := b.Instrs[len(b.Instrs)-1].(*ssa.If); ok {
			// a branch on the error itself (either way): what follows is a decision taken in knowledge of the
			// failure (type inference falls back to the next type, end of input ends a loop); whether the
			// failure side reports is clause (a)'s business
			if !strict && (condSettlesErr(iff.Cond, true, aliases) || condSettlesErr(iff.Cond, false, aliases)) {
				return false
			}
			for si, val := range []bool{true, false} {
				// strict (errors of io.Reader.Read): only the side on which the error is nil - or is io.EOF -
				// may report success; on the other side the error has to go somewhere
				if strict && condSettlesErr(iff.Cond, val, aliases) {
					continue
				}
				if visit(b.Succs[si], 0) {
					return true
				}
			}
			return false
		}
		for _, s := range b.Succs {
			if visit(s, 0) {
				return true
			}
		}
		return false
	}
	if visit(call.Block(), idxOf(call.Block(), call)+1) {
		return ""
	}
	return "settled on every path"
}

// condSettlesErr: the branch outcome (cond == val) implies that the error is nil, or that it is io.EOF
// (end of input, deliberately a success), for one of the aliases. Conjunctions/disjunctions are unfolded.
func condSettlesErr(cond ssa.Value, val bool, aliases map[ssa.Value]bool) bool {
	cond, val = unNot(cond, val)
	switch t := cond.(type) {
	case *ssa.BinOp:
		if t.Op != token.EQL && t.Op != token.NEQ {
			return false
		}
		var other ssa.Value
		switch {
		case aliases[t.X]:
			other = t.Y
		case aliases[t.Y]:
			other = t.X
		default:
			return false
		}
		isEq := (t.Op == token.EQL) == val
		if !isEq {
			return false
		}
		if cst, ok := other.(*ssa.Const); ok && cst.IsNil() {
			return true
		}
		// err == io.EOF
		if u, ok := other.(*ssa.UnOp); ok && u.Op == token.MUL {
			if g, ok := u.X.(*ssa.Global); ok && g.Pkg != nil && g.Pkg.Pkg.Path() == "io" && g.Name() == "EOF" {
				return true
			}
		}
	case *ssa.Phi:
		// short-circuit && / ||: (a && b) == true implies both; handled conservatively: every non-constant
		// edge must settle it when val is true for &&-shaped phis (constant false edges), and symmetrically
		allConstFalse, allConstTrue := true, true
		var nonConst []ssa.Value
		for _, e := range t.Edges {
			if isConstBool(e, false) {
				allConstTrue = false
				continue
			}
			if isConstBool(e, true) {
				allConstFalse = false
				continue
			}
			nonConst = append(nonConst, e)
		}
		_ = allConstFalse
		_ = allConstTrue
		if val {
			// a && b: constant edges are false; being true means the last operand was evaluated and true,
			// which is only reachable when the earlier operands were true as well: enough that ANY operand settles
			for _, e := range nonConst {
				if condSettlesErr(e, true, aliases) {
					return true
				}
			}
			// the conditions of the branches that lead to the non-constant edge
			for i, e := range t.Edges {
				if isConstBool(e, false) {
					pred := t.Block().Preds[i]
					if iff, ok := pred.Instrs[len(pred.Instrs)-1].(*ssa.If); ok {
						// this pred took the false edge of an earlier operand: the operand itself, when true, settles?
						if condSettlesErr(iff.Cond, true, aliases) {
							return true
						}
					}
				}
			}
		}
	}
	return false
}

// r31DeferredOverwrite (clause c): a deferred function literal that assigns a captured error variable of the
// enclosing function (its named result) must not overwrite an earlier failure: the store is dominated by a
// test that the variable is nil at that moment, or the stored value is computed from the variable's current
// value (a wrap). `defer func() { err = f.Close() }()` turns a failed write into success when Close works.
func r31DeferredOverwrite(c *Ctx) {
	p := c.P
	for _, fn := range p.Funcs {
		if fn.Parent() == nil || len(fn.FreeVars) == 0 {
			continue
		}
		// is fn deferred by its parent?
		deferred := false
		eachInstr(fn.Parent(), func(in ssa.Instruction) {
			if d, ok := in.(*ssa.Defer); ok {
				if mc, ok := d.Call.Value.(*ssa.MakeClosure); ok && mc.Fn == fn {
					deferred = true
				}
			}
		})
		if !deferred {
			continue
		}
		for _, fv := range fn.FreeVars {
			pt, ok := fv.Type().(*types.Pointer)
			if !ok || !isErrorType(pt.Elem()) {
				continue
			}
			for _, r := range *fv.Referrers() {
				st, ok := r.(*ssa.Store)
				if !ok || st.Addr != fv {
					continue
				}
				key := fname(fn.Parent()) + "|deferred store to " + fv.Name()
				if cst, ok := st.Val.(*ssa.Const); ok && cst.IsNil() {
					c.bad(key, p.instrPos(st), "a deferred function clears the enclosing function's error variable")
					continue
				}
				guarded := false
				for _, g := range dominatingGuards(st.Block()) {
					if b, ok := g.Cond.(*ssa.BinOp); ok && (b.Op == token.EQL || b.Op == token.NEQ) {
						isEq := (b.Op == token.EQL) == g.Val
						for _, side := range [][2]ssa.Value{{b.X, b.Y}, {b.Y, b.X}} {
							if l, ok := side[0].(*ssa.UnOp); ok && l.Op == token.MUL && l.X == fv {
								if cst, ok := side[1].(*ssa.Const); ok && cst.IsNil() && isEq {
									guarded = true
								}
							}
						}
					}
				}
				// value derived from the variable's own current value
				derived := false
				var dep func(v ssa.Value, d int) bool
				dep = func(v ssa.Value, d int) bool {
					if d > 6 {
						return false
					}
					if l, ok := v.(*ssa.UnOp); ok && l.Op == token.MUL && l.X == fv {
						return true
					}
					if in, ok := v.(ssa.Instruction); ok {
						for _, op := range in.Operands(nil) {
							if *op != nil && dep(*op, d+1) {
								return true
							}
						}
					}
					return false
				}
				derived = dep(st.Val, 0)
				if guarded || derived {
					c.ok(key, p.instrPos(st), "the deferred assignment keeps an earlier failure")
				} else {
					c.bad(key, p.instrPos(st), fmt.Sprintf("the deferred function assigns %s unconditionally: the error the function was about to return is replaced by the result of the cleanup call, so a failed operation reports success when the cleanup succeeds", fv.Name()))
				}
			}
		}
	}
}

func runR41(c *Ctx) {
	p := c.P
	for _, fn := range p.Funcs {
		eachInstr(fn, func(in ssa.Instruction) {
			call, ok := in.(*ssa.Call)
			if !ok {
				return
			}
			sig := call.Call.Signature()
			ei := errResultIndex(sig)
			if ei < 0 || sig.Results().Len() < 2 {
				return
			}
			var errV ssa.Value
			var others []*ssa.Extract
			for _, r := range *call.Referrers() {
				if e, ok := r.(*ssa.Extract); ok {
					if e.Index == ei {
						errV = e
					} else {
						switch e.Type().Underlying().(type) {
						case *types.Pointer, *types.Interface:
							others = append(others, e)
						}
					}
				}
			}
			if errV == nil || len(others) == 0 {
				return
			}
			name := "call"
			if o := calleeObj(call); o != nil {
				name = o.Name()
			}
			for _, v := range others {
				key := fname(fn) + "|result of " + name
				okAll := true
				for _, u := range *v.Referrers() {
					if !derefUse(u, v) {
						continue
					}
					// the use must be dominated by err == nil (false edge of err != nil)
					guarded := false
					for _, g := range dominatingGuards(u.Block()) {
						if b, ok := g.Cond.(*ssa.BinOp); ok && (b.X == errV || b.Y == errV || isSpilledCopyOf(b.X, errV) || isSpilledCopyOf(b.Y, errV)) {
							if (b.Op == token.NEQ && !g.Val) || (b.Op == token.EQL && g.Val) {
								guarded = true
							}
						}
					}
					if !guarded {
						okAll = false
						c.bad(key, p.instrPos(u), fmt.Sprintf("%s result is used (method call / dereference / defer) on a path where the accompanying error has not been tested: on failure the value is nil and this panics", name))
					}
				}
				if okAll {
					c.ok(key, p.instrPos(call), "all receiver/deref uses are dominated by err == nil")
				}
			}
		})
	}
}

// isSpilledCopyOf: v is a load of a local cell (a named result kept in memory because the function defers) whose
// content at the load is orig: orig was stored into the cell and no other store to it can run in between.
func isSpilledCopyOf(v, orig ssa.Value) bool {
	ld, ok := v.(*ssa.UnOp)
	if !ok || ld.Op != token.MUL {
		return false
	}
	cell, ok := ld.X.(*ssa.Alloc)
	if !ok {
		return false
	}
	var st *ssa.Store
	var others []*ssa.Store
	for _, r := range *cell.Referrers() {
		switch t := r.(type) {
		case *ssa.Store:
			if t.Addr != ssa.Value(cell) {
				return false // the cell's address is stored somewhere
			}
			if t.Val == orig && precedes(t, ld) {
				st = t
			} else {
				others = append(others, t)
			}
		case *ssa.UnOp, *ssa.DebugRef:
		default:
			// closures (the deferred function) may write the cell, but only when they run: at function exit
			if _, isClosure := r.(*ssa.MakeClosure); !isClosure {
				return false
			}
		}
	}
	if st == nil {
		return false
	}
	reach := func(a, b *ssa.BasicBlock) bool {
		for _, s := range a.Succs {
			for _, r := range reachableAvoiding(s, nil) {
				if r == b {
					return true
				}
			}
		}
		return false
	}
	for _, o := range others {
		if o.Block() == st.Block() && o.Block() == ld.Block() {
			if precedes(st, o) && precedes(o, ld) {
				return false
			}
			continue
		}
		if st.Block() == ld.Block() {
			continue // st runs again before ld on every path that comes back to this block
		}
		afterSt := o.Block() == st.Block() && precedes(st, o) || o.Block() != st.Block() && reach(st.Block(), o.Block())
		beforeLd := o.Block() == ld.Block() && precedes(o, ld) || o.Block() != ld.Block() && reach(o.Block(), ld.Block())
		if afterSt && beforeLd {
			return false
		}
	}
	return true
}

// derefUse reports whether instruction u dereferences / invokes on value v.
func derefUse(u ssa.Instruction, v ssa.Value) bool {
	switch t := u.(type) {
	case ssa.CallInstruction:
		cc := t.Common()
		if cc.IsInvoke() && cc.Value == v {
			return true
		}
		if cc.Signature().Recv() != nil && len(cc.Args) > 0 && cc.Args[0] == v {
			return true
		}
	case *ssa.UnOp:
		return t.Op == token.MUL && t.X == v
	case *ssa.FieldAddr:
		return t.X == v
	case *ssa.Store:
		return t.Addr == v
	}
	return false
}

func runR24(c *Ctx) {
	p := c.P
	for _, fn := range p.Funcs {
		eachInstr(fn, func(in ssa.Instruction) {
			call, ok := in.(*ssa.Call)
			if !ok {
				return
			}
			cc := call.Common()
			if !cc.IsInvoke() || cc.Method.Name() != "Read" || cc.Method.Pkg() == nil || cc.Method.Pkg().Path() != "io" {
				return
			}
			key := fname(fn) + "|io.Reader.Read"
			pos := p.instrPos(in)
			var nV, eV ssa.Value
			for _, r := range *call.Referrers() {
				if e, ok := r.(*ssa.Extract); ok {
					if e.Index == 0 {
						nV = e
					} else {
						eV = e
					}
				}
			}
			if nV == nil {
				c.bad(key, pos, "byte count returned by Read is ignored: the code assumes the buffer was filled")
				return
			}
			if eV == nil {
				c.bad(key, pos, "error returned by Read is ignored")
				return
			}
			if ok, _ := propagates(eV); !ok {
				c.bad(key, pos, "error returned by Read never reaches a sink")
				return
			}
			// n must flow into a slice bound or a return
			used := false
			var walk func(v ssa.Value, depth int)
			walk = func(v ssa.Value, depth int) {
				if depth > 6 || used {
					return
				}
				for _, r := range *v.Referrers() {
					switch t := r.(type) {
					case *ssa.Slice:
						if t.High == v || t.Low == v {
							used = true
						}
					case *ssa.Return:
						used = true
					case *ssa.BinOp:
						if t.Op == token.ADD || t.Op == token.SUB {
							walk(t, depth+1)
						}
					case *ssa.Phi:
						walk(t, depth+1)
					case *ssa.Convert:
						walk(t, depth+1)
					}
				}
			}
			walk(nV, 0)
			if !used {
				c.bad(key, pos, "byte count returned by Read does not bound the data taken into account (no re-slice by n, not returned)")
				return
			}
			c.ok(key, pos, "count bounds the re-slice / is returned; error reaches a sink")
		})
	}
}

func closerNames(m map[string]bool) string {
	var ns []string
	for n := range m {
		ns = append(ns, n+"()")
	}
	sortStrings(ns)
	return strings.Join(ns, "/")
}
