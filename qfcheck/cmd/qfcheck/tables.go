package main

import (
	"fmt"
	"go/ast"
	"go/constant"
	"go/token"
	"go/types"
	"math/big"

	"golang.org/x/tools/go/packages"
	"golang.org/x/tools/go/ssa"
)

// Engine E9: constants and tables read from the type-checked source and recomputed from their definition.

func init() {
	register(&Rule{ID: "R32", Name: "RYU-TABLES", Floor: 600,
		Text: "the Ryu multiplier tables and layout constants are the ones the algorithm's correctness argument requires, recomputed in math/big: pow5Split{32,64}[i] = 5^i normalised to pow5NumBits bits (shifted left, or right with truncation), pow5InvSplit{32,64}[i] = floor(2^(bitlen(5^i)-1+pow5InvNumBits) / 5^i) + 1, powersOf10[i] = 10^i, mantBits64 = 52, expBits64 = 11, bias64 = 1023 (and the binary32 counterparts)",
		Run:  runR32})
	register(&Rule{ID: "R19", Name: "BITS", Floor: 6,
		Text: "strings.Pointer packs (offset, length, null) in one layout: the shift in NewPointer equals the shift in Offset, the length mask is 1<<shift - 1, the offset mask is 1<<(63-shift) - 1, the null bit is 1<<63; ecolumn's bitset has 4 x 64 bits >= the 256 values of an enumVal, with word shift 6 matching bit mask 0x3F; nullValue = maxCardinality = 255 = max uint8",
		Run:  runR19})
}

func pkgVarInit(pk *packages.Package, name string) (ast.Expr, *ast.File) {
	for _, f := range pk.Syntax {
		for _, d := range f.Decls {
			gd, ok := d.(*ast.GenDecl)
			if !ok || gd.Tok != token.VAR {
				continue
			}
			for _, sp := range gd.Specs {
				vs := sp.(*ast.ValueSpec)
				for i, n := range vs.Names {
					if n.Name == name && i < len(vs.Values) {
						return vs.Values[i], f
					}
				}
			}
		}
	}
	return nil, nil
}

func constOf(pk *packages.Package, e ast.Expr) (*big.Int, bool) {
	tv, ok := pk.TypesInfo.Types[e]
	if !ok || tv.Value == nil {
		return nil, false
	}
	v := constant.ToInt(tv.Value)
	if v.Kind() != constant.Int {
		return nil, false
	}
	b, ok := new(big.Int).SetString(v.ExactString(), 10)
	return b, ok
}

func pkgConst(pk *packages.Package, name string) (*big.Int, bool) {
	o, ok := pk.Types.Scope().Lookup(name).(*types.Const)
	if !ok {
		return nil, false
	}
	v := constant.ToInt(o.Val())
	if v.Kind() != constant.Int {
		return nil, false
	}
	b, ok := new(big.Int).SetString(v.ExactString(), 10)
	return b, ok
}

func runR32(c *Ctx) {
	p := c.P
	pk := p.PkgByID[rel("internal/ryu")]
	if pk == nil {
		c.undecided("internal/ryu", "-", "package not found")
		return
	}
	five := big.NewInt(5)
	one := big.NewInt(1)
	checkTable := func(name, bitsConst string, inv bool, wide bool) {
		init, _ := pkgVarInit(pk, name)
		lit, ok := init.(*ast.CompositeLit)
		bits, okB := pkgConst(pk, bitsConst)
		if !ok || !okB {
			c.undecided("internal/ryu."+name, "-", "table or its bit-count constant not found")
			return
		}
		nb := int(bits.Int64())
		bad := 0
		for i, el := range lit.Elts {
			var got *big.Int
			if wide {
				cl, ok := el.(*ast.CompositeLit)
				if !ok || len(cl.Elts) != 2 {
					c.undecided(fmt.Sprintf("internal/ryu.%s[%d]", name, i), p.pos(el.Pos()), "unexpected element shape")
					return
				}
				lo, ok1 := constOf(pk, cl.Elts[0])
				hi, ok2 := constOf(pk, cl.Elts[1])
				if !ok1 || !ok2 {
					c.undecided(fmt.Sprintf("internal/ryu.%s[%d]", name, i), p.pos(el.Pos()), "element is not constant")
					return
				}
				got = new(big.Int).Add(new(big.Int).Lsh(hi, 64), lo)
			} else {
				g, ok := constOf(pk, el)
				if !ok {
					c.undecided(fmt.Sprintf("internal/ryu.%s[%d]", name, i), p.pos(el.Pos()), "element is not constant")
					return
				}
				got = g
			}
			pow := new(big.Int).Exp(five, big.NewInt(int64(i)), nil)
			bl := pow.BitLen()
			var want *big.Int
			if inv {
				num := new(big.Int).Lsh(one, uint(bl-1+nb))
				want = new(big.Int).Add(new(big.Int).Div(num, pow), one)
			} else if bl <= nb {
				want = new(big.Int).Lsh(pow, uint(nb-bl))
			} else {
				want = new(big.Int).Rsh(pow, uint(bl-nb))
			}
			key := fmt.Sprintf("internal/ryu.%s[%d]", name, i)
			if got.Cmp(want) == 0 {
				c.ok(key, p.pos(el.Pos()), "equals its definition")
			} else {
				bad++
				c.bad(key, p.pos(el.Pos()), fmt.Sprintf("table entry %s differs from its definition %s: floats whose conversion uses 5^%d are printed with wrong digits", got, want, i))
			}
		}
		c.note(name+"_entries", len(lit.Elts))
	}
	checkTable("pow5Split64", "pow5NumBits64", false, true)
	checkTable("pow5InvSplit64", "pow5InvNumBits64", true, true)
	checkTable("pow5Split32", "pow5NumBits32", false, false)
	checkTable("pow5InvSplit32", "pow5InvNumBits32", true, false)
	if init, _ := pkgVarInit(pk, "powersOf10"); init != nil {
		if lit, ok := init.(*ast.CompositeLit); ok {
			for i, el := range lit.Elts {
				got, ok := constOf(pk, el)
				want := new(big.Int).Exp(big.NewInt(10), big.NewInt(int64(i)), nil)
				key := fmt.Sprintf("internal/ryu.powersOf10[%d]", i)
				if ok && got.Cmp(want) == 0 {
					c.ok(key, p.pos(el.Pos()), "10^i")
				} else {
					c.bad(key, p.pos(el.Pos()), "entry is not 10^i")
				}
			}
		}
	}
	for name, want := range map[string]int64{"mantBits64": 52, "expBits64": 11, "bias64": 1023, "mantBits32": 23, "expBits32": 8, "bias32": 127} {
		got, ok := pkgConst(pk, name)
		key := "internal/ryu." + name
		if ok && got.Int64() == want {
			c.ok(key, "-", fmt.Sprintf("= %d (IEEE 754)", want))
		} else {
			c.bad(key, "-", fmt.Sprintf("layout constant is not %d", want))
		}
	}
}

// constOperand returns the constant operand of a binary op with the given operator found in fn
// (the first one whose other operand satisfies pred).
func findBinOpConst(fn *ssa.Function, op token.Token) []uint64 {
	var out []uint64
	eachInstr(fn, func(in ssa.Instruction) {
		b, ok := in.(*ssa.BinOp)
		if !ok || b.Op != op {
			return
		}
		for _, o := range []ssa.Value{b.Y, b.X} {
			if cst, ok := o.(*ssa.Const); ok && cst.Value != nil && cst.Value.Kind() == constant.Int {
				if u, exact := constant.Uint64Val(constant.ToInt(cst.Value)); exact {
					out = append(out, u)
					return
				}
			}
		}
	})
	return out
}

func runR19(c *Ctx) {
	p := c.P
	sp := "internal/strings"
	np, off, ln, isn := p.Func(sp, "NewPointer"), p.Func(sp, "Pointer.Offset"), p.Func(sp, "Pointer.Len"), p.Func(sp, "Pointer.IsNull")
	if np == nil || off == nil || ln == nil || isn == nil {
		c.undecided(sp+".Pointer", "-", "NewPointer/Offset/Len/IsNull not found")
	} else {
		shl := findBinOpConst(np, token.SHL)
		shr := findBinOpConst(off, token.SHR)
		offMask := findBinOpConst(off, token.AND)
		lenMask := findBinOpConst(ln, token.AND)
		nullMask := findBinOpConst(isn, token.AND)
		orNull := findBinOpConst(np, token.OR)
		switch {
		case len(shl) != 1 || len(shr) != 1 || len(offMask) != 1 || len(lenMask) != 1 || len(nullMask) != 1:
			c.undecided(sp+".Pointer|layout", p.pos(np.Pos()), "cannot read the shift/mask constants (shape changed)")
		default:
			s := shl[0]
			key := sp + ".Pointer|"
			chk := func(name string, ok bool, msg string) {
				if ok {
					c.ok(key+name, p.pos(np.Pos()), msg)
				} else {
					c.bad(key+name, p.pos(np.Pos()), "inconsistent string pointer layout: "+msg)
				}
			}
			chk("offset shift", shr[0] == s, fmt.Sprintf("NewPointer shifts the offset by %d, Offset shifts back by %d", s, shr[0]))
			chk("length mask", lenMask[0] == 1<<s-1, fmt.Sprintf("Len masks with %#x, length field is %d bits", lenMask[0], s))
			chk("offset mask", offMask[0] == 1<<(63-s)-1, fmt.Sprintf("Offset masks with %#x, offset field is %d bits", offMask[0], 63-s))
			chk("null bit", nullMask[0] == 1<<63 && (len(orNull) == 0 || containsU(orNull, 1<<63)), fmt.Sprintf("IsNull tests %#x", nullMask[0]))
		}
	}
	ep := "internal/ecolumn"
	// the layout of the enum bitset (word = code>>k, bit = code&(2^k-1), enough words for 256 codes) is decided
	// access by access by R121's analysis; R19 reports its verdict for the type as a whole
	{
		sub := &Ctx{P: p, rule: &Rule{ID: "R121"}}
		runR121(sub)
		nBad, nOK := 0, 0
		first := ""
		for _, o := range sub.obls {
			if o.Status == Discharged {
				nOK++
			} else {
				nBad++
				if first == "" {
					first = o.Pos + ": " + o.Detail
				}
			}
		}
		switch {
		case nBad > 0:
			c.bad(ep+".bitset|layout", "-", "word shift, bit mask and array size of the enum bitset do not describe one layout covering every enumVal: "+first)
		case nOK < 2:
			c.undecided(ep+".bitset|layout", "-", "fewer than two accesses to the bitset found")
		default:
			c.ok(ep+".bitset|layout", "-", fmt.Sprintf("%d accesses use word = code>>k, bit = 1<<(code&(2^k-1)) with enough words for all 256 codes", nOK))
		}
	}
	if pk := p.PkgByID[rel(ep)]; pk != nil {
		mc, ok1 := pkgConst(pk, "maxCardinality")
		nv, ok2 := pkgConst(pk, "nullValue")
		ev := p.Named(ep, "enumVal")
		is8 := false
		if ev != nil {
			if b, ok := ev.Underlying().(*types.Basic); ok && b.Kind() == types.Uint8 {
				is8 = true
			}
		}
		if ok1 && ok2 && is8 && mc.Int64() == 255 && nv.Int64() == 255 {
			c.ok(ep+"|cardinality constants", "-", "enumVal is uint8, nullValue = maxCardinality = 255")
		} else {
			c.bad(ep+"|cardinality constants", "-", "nullValue / maxCardinality / enumVal width are inconsistent: the null marker can collide with a real rank")
		}
	}
}

func containsU(s []uint64, v uint64) bool {
	for _, x := range s {
		if x == v {
			return true
		}
	}
	return false
}

// ---- R121: the enum bitset is only touched through (word = code>>6, bit = code&63) of one code ----

func init() {
	register(&Rule{ID: "R121", Name: "BITSET-ACCESS", Floor: 2,
		Text: "in internal/ecolumn every access to a word of the value bitset (the [4]uint64 set of enum codes that `in`, like and ilike build and the row loop tests) selects the word by code>>k and the bit by 1<<(code&(2^k-1)) of the SAME code value: a store writes old|bit, a load is only ever and-ed with that bit. A word selected by a constant or any other index may be printed but not used in arithmetic, and no word is stored from anything but old|bit (a literal of all ones sets bit 255, the null code; a single-word fast path folds code 255 onto bit 63 of word 0) - so membership of the null code and of codes >= 64 is what set() recorded",
		Run:  runR121})
}

func runR121(c *Ctx) {
	p := c.P
	ep := "internal/ecolumn"
	bs := p.Named(ep, "bitset")
	if bs == nil {
		c.undecided(ep+".bitset", "-", "bitset type not found")
		return
	}
	arr, _ := bs.Underlying().(*types.Array)
	if arr == nil {
		c.undecided(ep+".bitset", "-", "bitset is not an array")
		return
	}
	isBitset := func(t types.Type) bool {
		t = deref(t)
		n, ok := t.(*types.Named)
		return ok && n.Obj() == bs.Obj()
	}
	// A value may be the result of a small helper of the package (`word, mask := position(val)`): unwrap follows
	// a call / an extract of a call into the helper's single return expression, remembering which argument each
	// parameter stands for, so that the code reached at the end is a value of the accessing function.
	type bnd struct {
		v    ssa.Value
		bind map[*ssa.Parameter]ssa.Value
	}
	var unwrap func(b bnd, depth int) bnd
	unwrap = func(b bnd, depth int) bnd {
		for depth < 6 {
			depth++
			b.v = stripConv(b.v)
			if prm, ok := b.v.(*ssa.Parameter); ok && b.bind != nil {
				if a, ok := b.bind[prm]; ok {
					b = bnd{a, nil}
					continue
				}
			}
			var call *ssa.Call
			idx := 0
			switch t := b.v.(type) {
			case *ssa.Extract:
				call, _ = t.Tuple.(*ssa.Call)
				idx = t.Index
			case *ssa.Call:
				call = t
			}
			if call == nil {
				break
			}
			g := call.Call.StaticCallee()
			if g == nil || g.Blocks == nil || g.Pkg == nil || g.Pkg.Pkg.Path() != rel(ep) || len(call.Call.Args) != len(g.Params) {
				break
			}
			var ret *ssa.Return
			n := 0
			eachInstr(g, func(in ssa.Instruction) {
				if r, ok := in.(*ssa.Return); ok {
					ret = r
					n++
				}
			})
			if n != 1 || idx >= len(ret.Results) {
				break
			}
			nb := map[*ssa.Parameter]ssa.Value{}
			for i, prm := range g.Params {
				a := unwrap(bnd{call.Call.Args[i], b.bind}, depth)
				nb[prm] = a.v
			}
			b = bnd{ret.Results[idx], nb}
		}
		return b
	}
	operand := func(b bnd, v ssa.Value) bnd { return unwrap(bnd{v, b.bind}, 0) }
	// code >> k  -> (code, k)
	shiftOf := func(v ssa.Value) (ssa.Value, int64, bool) {
		b := unwrap(bnd{v, nil}, 0)
		bo, ok := b.v.(*ssa.BinOp)
		if !ok || bo.Op != token.SHR {
			return nil, 0, false
		}
		k, ok := constInt(bo.Y)
		if !ok {
			return nil, 0, false
		}
		return operand(b, bo.X).v, k, true
	}
	// 1 << (code & mask) -> code
	bitOf := func(v ssa.Value, k int64) (ssa.Value, bool) {
		b := unwrap(bnd{v, nil}, 0)
		bo, ok := b.v.(*ssa.BinOp)
		if !ok || bo.Op != token.SHL {
			return nil, false
		}
		if one, ok := constInt(stripConv(bo.X)); !ok || one != 1 {
			return nil, false
		}
		ab := operand(b, bo.Y)
		a, ok := ab.v.(*ssa.BinOp)
		if !ok || a.Op != token.AND {
			return nil, false
		}
		if m, ok := constInt(a.Y); ok && m == (int64(1)<<uint(k))-1 {
			return operand(ab, a.X).v, true
		}
		if m, ok := constInt(a.X); ok && m == (int64(1)<<uint(k))-1 {
			return operand(ab, a.Y).v, true
		}
		return nil, false
	}
	n := 0
	for _, fn := range p.FuncsIn(ep) {
		eachInstr(fn, func(in ssa.Instruction) {
			var x, idx ssa.Value
			var refs *[]ssa.Instruction
			var isAddr bool
			switch t := in.(type) {
			case *ssa.IndexAddr:
				x, idx, refs, isAddr = t.X, t.Index, t.Referrers(), true
			case *ssa.Index:
				x, idx, refs = t.X, t.Index, t.Referrers()
			default:
				return
			}
			if !isBitset(x.Type()) {
				return
			}
			n++
			key := fname(fn) + "|word access"
			pos := p.instrPos(in)
			code, k, shifted := shiftOf(idx)
			if shifted && int64(arr.Len())<<uint(k) < 256 {
				c.bad(key, pos, fmt.Sprintf("word index code>>%d with %d words does not cover the 256 codes", k, arr.Len()))
				return
			}
			// collect the loaded words and the stores
			var loads []ssa.Value
			var stores []*ssa.Store
			if isAddr {
				for _, r := range *refs {
					switch u := r.(type) {
					case *ssa.UnOp:
						if u.Op == token.MUL {
							loads = append(loads, u)
						}
					case *ssa.Store:
						if u.Addr == in.(ssa.Value) {
							stores = append(stores, u)
						}
					}
				}
			} else {
				loads = append(loads, in.(ssa.Value))
			}
			if !shifted {
				if len(stores) > 0 {
					c.bad(key, pos, "a word of the enum bitset is written at an index that is not code>>k: bits are set without a code (a literal or fill of all ones includes bit 255, the null code)")
					return
				}
				for _, l := range loads {
					for _, r := range *l.Referrers() {
						switch u := r.(type) {
						case *ssa.MakeInterface, *ssa.DebugRef:
						case ssa.CallInstruction:
							// handed to a formatter of the standard library: printing. Handed to a function of the module
							// (isSetLow(word, code)) the word takes part in a membership test after all
							if callee := u.Common().StaticCallee(); callee != nil && callee.Pkg != nil && inModule(callee.Pkg.Pkg) {
								c.bad(key, pos, "a word of the enum bitset selected by an index that is not code>>k is handed to "+callee.Name()+": membership is then tested in that word for every code, and codes outside it (the null code 255 folds onto bit 63 of word 0) alias into it")
								return
							}
						default:
							c.bad(key, pos, "a word of the enum bitset selected by an index that is not code>>k is used in a computation: membership is then tested in the wrong word for codes outside it (the null code 255 folds onto bit 63 of word 0)")
							return
						}
					}
				}
				c.okTrivial(key, pos, "word read for printing only")
				return
			}
			for _, st := range stores {
				or, ok := stripConv(st.Val).(*ssa.BinOp)
				good := false
				if ok && or.Op == token.OR {
					for _, side := range [][2]ssa.Value{{or.X, or.Y}, {or.Y, or.X}} {
						ld, isLd := side[0].(*ssa.UnOp)
						bc, isBit := bitOf(side[1], k)
						if isLd && ld.Op == token.MUL && isBit && bc == code {
							if la, ok := ld.X.(*ssa.IndexAddr); ok && sameElem(la, in.(*ssa.IndexAddr)) {
								good = true
							}
						}
					}
				}
				if !good {
					c.bad(key, pos, "the word at code>>k is stored from something other than old | 1<<(code&mask) of the same code")
					return
				}
			}
			for _, l := range loads {
				for _, r := range *l.Referrers() {
					b, ok := r.(*ssa.BinOp)
					if !ok {
						if _, isDbg := r.(*ssa.DebugRef); isDbg {
							continue
						}
						c.bad(key, pos, "the word at code>>k is used other than by and/or with the code's bit")
						return
					}
					other := b.Y
					if b.Y == l {
						other = b.X
					}
					bc, isBit := bitOf(other, k)
					if !(b.Op == token.AND || b.Op == token.OR) || !isBit || bc != code {
						c.bad(key, pos, "the word selected by one code is combined with the bit of another value (or with no single bit at all)")
						return
					}
				}
			}
			c.ok(key, pos, fmt.Sprintf("word = code>>%d, bit = 1<<(code&%#x) of the same code", k, (int64(1)<<uint(k))-1))
		})
	}
	if n == 0 {
		c.undecided(ep+".bitset|accesses", "-", "no access to a bitset word found")
	}
}
