package main

import (
	"fmt"
	"go/token"
	"go/types"
	"strings"

	"golang.org/x/tools/go/ssa"
)

func init() {
	register(&Rule{ID: "R35", Name: "MATCHER-TABLE", Floor: 20,
		Text: "NewMatcher is evaluated on the 16 valuations of (pattern has regexp metacharacters, leading %, trailing %, caseSensitive): the allocated matcher is Regexp / Contains / Suffix / Prefix / Exact (CI variants when not case sensitive); CI matchers are constructed from strings.ToUpper(pattern), case-sensitive ones and the regexp from the pattern itself (the regexp never from an upper-cased pattern; its flag, anchors and grouping are decided by R102); every matcher's Matches is a single return of the corresponding strings function applied to the cell (CI: to ToUpper of the cell) and the stored pattern; like passes caseSensitive=true and ilike false in both scolumn and ecolumn; in scolumn the call of Matches is dominated by !isNull",
		Run:  runR35})
	register(&Rule{ID: "R48", Name: "SCAN-COPY", Floor: 1,
		Text: "in every implementation of database/sql.Scanner in scope, a []byte taken from the scanned value is only copied (string(v), append) or measured, never reinterpreted in place or retained: the driver may reuse that buffer for the next row",
		Run:  runR48})
	register(&Rule{ID: "R26", Name: "FMT-PAIR", Floor: 10,
		Text: "writer/reader agreement per data type: every return of a column's StringAt is, for int cells strconv.FormatInt(int64(cell), 10), for float cells strconv.FormatFloat(cell, 'f'|'e'|'g', -1, 64) or the caller's naRep under IsNaN(cell), for bool cells strconv.FormatBool(cell), for string/enum cells the cell's own string or naRep under the null test; the CSV reader parses with strconv.Atoi / ParseFloat(_, 64) / ParseBool; ToCSV passes the empty string as naRep and the reader maps the empty cell to NaN for floats and to null exactly under EmptyNull for strings",
		Run:  runR26})
}

var matcherFunc = map[string]string{"Prefix": "HasPrefix", "Suffix": "HasSuffix", "Contains": "Contains", "Exact": "=="}

func runR35(c *Ctx) {
	p := c.P
	const sp = "internal/strings"
	// (a) Matches methods
	for _, ci := range []bool{false, true} {
		for kind, fnName := range matcherFunc {
			tn := kind + "Matcher"
			if ci {
				tn = "CI" + tn
			}
			fn := p.Func(sp, tn+".Matches")
			key := sp + "." + tn + ".Matches"
			if fn == nil {
				c.bad(key, "-", "matcher type or its Matches method not found")
				continue
			}
			var rets []*ssa.Return
			eachInstr(fn, func(in ssa.Instruction) {
				if r, ok := in.(*ssa.Return); ok {
					rets = append(rets, r)
				}
			})
			if len(rets) != 1 {
				c.bad(key, p.pos(fn.Pos()), fmt.Sprintf("%d returns: a matcher decides by exactly one strings operation on the (upper-cased) cell; an extra early return changes which cells match", len(rets)))
				continue
			}
			var a0, a1 ssa.Value
			okFn := false
			switch v := rets[0].Results[0].(type) {
			case *ssa.Call:
				if isFuncNamed(calleeObj(v), "strings", "", fnName) && len(v.Call.Args) == 2 {
					a0, a1, okFn = v.Call.Args[0], v.Call.Args[1], true
				}
			case *ssa.BinOp:
				if fnName == "==" && v.Op == token.EQL {
					a0, a1, okFn = v.X, v.Y, true
					// equality is symmetric: whichever side is the cell (or its upper-cased copy)
					if a1 == ssa.Value(fn.Params[1]) {
						a0, a1 = a1, a0
					} else if call, ok := a1.(*ssa.Call); ok && call.Call.StaticCallee() != nil && call.Call.StaticCallee() == p.anchorUpper() {
						a0, a1 = a1, a0
					}
				}
			}
			if !okFn {
				c.bad(key, p.instrPos(rets[0]), "does not return strings."+fnName+"(cell, pattern)")
				continue
			}
			// first operand: the cell (param s) or ToUpper(&m.buf, s)
			cellOK := false
			if ci {
				if call, ok := a0.(*ssa.Call); ok {
					if callee := call.Call.StaticCallee(); callee != nil && callee == p.anchorUpper() {
						if len(call.Call.Args) == 2 && call.Call.Args[1] == ssa.Value(fn.Params[1]) {
							cellOK = true
						}
					}
				}
			} else {
				cellOK = a0 == ssa.Value(fn.Params[1])
			}
			patOK := false
			if fld, x := fieldOf(a1); fld != nil && rootValue(x) == ssa.Value(fn.Params[0]) {
				if b, ok := fld.Type().Underlying().(*types.Basic); ok && b.Kind() == types.String {
					patOK = true
				}
			}
			switch {
			case !cellOK && ci:
				c.bad(key, p.instrPos(rets[0]), "the cell is not upper-cased (ToUpper) before the comparison")
			case !cellOK:
				c.bad(key, p.instrPos(rets[0]), "the first operand is not the cell string")
			case !patOK:
				c.bad(key, p.instrPos(rets[0]), "the second operand is not the stored pattern")
			default:
				c.ok(key, p.instrPos(rets[0]), "single return: strings."+fnName+" on the cell and the stored pattern")
			}
		}
	}
	// the regexp matcher: the whole decision is the regular expression's
	if rm := p.Func(sp, "RegexpMatcher.Matches"); rm != nil {
		key := sp + ".RegexpMatcher.Matches"
		var rets []*ssa.Return
		eachInstr(rm, func(in ssa.Instruction) {
			if r, ok := in.(*ssa.Return); ok {
				rets = append(rets, r)
			}
		})
		okRe := false
		if len(rets) == 1 && len(rets[0].Results) == 1 {
			if call, ok := rets[0].Results[0].(*ssa.Call); ok {
				if o := calleeObj(call); isFuncNamed(o, "regexp", "Regexp", "MatchString") && len(call.Call.Args) == 2 && call.Call.Args[1] == ssa.Value(rm.Params[1]) {
					okRe = true
				}
			}
		}
		if okRe {
			c.ok(key, p.pos(rm.Pos()), "single return: the regular expression's MatchString on the cell")
		} else {
			c.bad(key, p.pos(rm.Pos()), "the regexp matcher does not decide by a single MatchString(cell) of the compiled expression: an extra test (a literal-prefix or length pre-filter) rejects cells in which the match does not start at the first byte, which is wrong for every pattern with a leading %")
		}
	} else {
		c.bad(sp+".RegexpMatcher.Matches", "-", "matcher type or its Matches method not found")
	}
	// (b) NewMatcher on 16 valuations
	fn := p.anchorMatcherCtor()
	if fn == nil || len(fn.Params) != 2 {
		c.undecided(sp+".NewMatcher", "-", "not found")
		return
	}
	for v := 0; v < 16; v++ {
		hasRe, fs, fe, cs := v&1 != 0, v&2 != 0, v&4 != 0, v&8 != 0
		key := fmt.Sprintf("%s.NewMatcher(regex=%v,leading%%=%v,trailing%%=%v,caseSensitive=%v)", sp, hasRe, fs, fe, cs)
		pe := &pathExec{fn: fn}
		atom := func(x ssa.Value) (bool, bool) {
			switch t := x.(type) {
			case *ssa.Parameter:
				if t == fn.Params[1] {
					return cs, true
				}
			case *ssa.Call:
				o := calleeObj(t)
				if isFuncNamed(o, "strings", "", "HasPrefix") {
					return fs, true
				}
				if isFuncNamed(o, "strings", "", "HasSuffix") {
					return fe, true
				}
			case *ssa.BinOp:
				// regexp.QuoteMeta(c) != c
				for _, o := range []ssa.Value{t.X, t.Y} {
					if call, ok := o.(*ssa.Call); ok && isFuncNamed(calleeObj(call), "regexp", "", "QuoteMeta") {
						if t.Op == token.NEQ {
							return hasRe, true
						}
						if t.Op == token.EQL {
							return !hasRe, true
						}
					}
				}
				// err != nil after Compile: assume a valid expression
				if cst, ok := t.Y.(*ssa.Const); ok && cst.IsNil() && isErrorType(t.X.Type()) {
					return t.Op == token.EQL, true
				}
				// a comparison of integers that fold on this path (the kind of matcher picked by a helper)
				if isIntegerType(t.X.Type()) {
					x, ok1 := pe.intOf(t.X, 0)
					y, ok2 := pe.intOf(t.Y, 0)
					if ok1 && ok2 {
						switch t.Op {
						case token.EQL:
							return x == y, true
						case token.NEQ:
							return x != y, true
						case token.LSS:
							return x < y, true
						case token.LEQ:
							return x <= y, true
						case token.GTR:
							return x > y, true
						case token.GEQ:
							return x >= y, true
						}
					}
				}
			}
			return false, false
		}
		pe.oracle = func(pe *pathExec, cond ssa.Value) (bool, bool) { return pe.evalBool(cond, atom) }
		pe.inline = func(callee *ssa.Function) bool {
			// constructor helpers (e.g. an extracted regexp branch): same package, return a Matcher
			if callee.Pkg != fn.Pkg || callee.Signature.Results().Len() == 0 {
				return false
			}
			if isNamed(callee.Signature.Results().At(0).Type(), rel(sp), "Matcher") {
				return true
			}
			// a helper that compiles the expression (and wraps the error)
			if pt, ok := callee.Signature.Results().At(0).Type().(*types.Pointer); ok && isNamed(pt.Elem(), "regexp", "Regexp") {
				return true
			}
			// classification helpers: booleans/integers in, one boolean/integer out (which kind of matcher)
			basic := func(t types.Type) bool {
				b, ok := t.Underlying().(*types.Basic)
				return ok && b.Info()&(types.IsBoolean|types.IsInteger) != 0
			}
			if callee.Signature.Results().Len() != 1 || !basic(callee.Signature.Results().At(0).Type()) {
				return false
			}
			for _, prm := range callee.Params {
				if !basic(prm.Type()) {
					return false
				}
			}
			return true
		}
		// a constructor picked from a write-once table of constructors by the kind
		pe.dynCallee = func(pe *pathExec, call *ssa.Call) *ssa.Function { return pe.tableCallee(p, call) }
		end, why := pe.run()
		ret, ok := end.(*ssa.Return)
		if !ok {
			c.undecided(key, p.pos(fn.Pos()), "cannot evaluate: "+why)
			continue
		}
		rv := pe.resolve(ret.Results[0])
		if mi, ok := rv.(*ssa.MakeInterface); ok {
			rv = mi.X
		}
		gotType := types.TypeString(deref(rv.Type()), func(*types.Package) string { return "" })
		want := "ExactMatcher"
		switch {
		case fs && fe:
			want = "ContainsMatcher"
		case fs:
			want = "SuffixMatcher"
		case fe:
			want = "PrefixMatcher"
		}
		if !cs {
			want = "CI" + want
		}
		if hasRe {
			want = "RegexpMatcher"
		}
		if gotType != want {
			c.bad(key, p.instrPos(ret), fmt.Sprintf("builds a %s where the wildcard/case rules call for a %s", gotType, want))
			continue
		}
		// provenance of the pattern
		var src ssa.Value
		ck, _ := cellKey(rv)
		st, _ := deref(rv.Type()).Underlying().(*types.Struct)
		if hasRe {
			for _, call := range pe.calls {
				if isFuncNamed(calleeObj(call), "regexp", "", "Compile") || isFuncNamed(calleeObj(call), "regexp", "", "MustCompile") {
					src = call.Call.Args[0]
				}
			}
		} else if st != nil {
			for i := 0; i < st.NumFields(); i++ {
				if b, ok := st.Field(i).Type().Underlying().(*types.Basic); ok && b.Kind() == types.String {
					src = pe.mem[fmt.Sprintf("%s.%d", ck, i)]
				}
			}
		}
		if src == nil {
			c.bad(key, p.instrPos(ret), "the pattern the matcher is built from cannot be found")
			continue
		}
		upper, consts := patternProvenance(pe, src, fn.Params[0])
		problems := []string{}
		if hasRe {
			if upper {
				problems = append(problems, "the regular expression is compiled from an upper-cased pattern (\\d, \\w, \\s and character classes change meaning)")
			}
			// the exact text compiled (flag, anchors, grouping, wildcard removal) is decided by R102's token
			// evaluation; recognising the pieces among the constants concatenated here fails as soon as they are
			// chosen first and concatenated once ("^(?:" / "(?:" picked by a branch)
			_ = consts
		} else if upper == cs {
			if cs {
				problems = append(problems, "a case-sensitive matcher is built from an upper-cased pattern")
			} else {
				problems = append(problems, "a case-insensitive matcher is built from a pattern that was not upper-cased")
			}
		}
		if len(problems) > 0 {
			c.bad(key, p.instrPos(ret), strings.Join(problems, "; "))
		} else {
			c.ok(key, p.instrPos(ret), gotType+" built from the "+map[bool]string{true: "upper-cased ", false: ""}[upper]+"pattern")
		}
	}
	// (c) like / ilike pass the right case flag in both column packages; null never reaches Matches
	for _, cp := range []string{"internal/scolumn", "internal/ecolumn"} {
		for name, wantCS := range map[string]bool{"like": true, "ilike": false} {
			fn := p.tableKernel(cp, name)
			if fn == nil {
				fn = p.Func(cp, name)
			}
			key := cp + "." + name + "|case flag"
			if fn == nil {
				c.bad(key, "-", "kernel not found")
				continue
			}
			found := false
			eachInstr(fn, func(in ssa.Instruction) {
				call, ok := in.(*ssa.Call)
				if !ok || call.Call.StaticCallee() == nil {
					return
				}
				for _, a := range call.Call.Args {
					if isConstBool(a, true) || isConstBool(a, false) {
						found = true
						if isConstBool(a, wantCS) {
							c.ok(key, p.instrPos(call), fmt.Sprintf("caseSensitive=%v", wantCS))
						} else {
							c.bad(key, p.instrPos(call), fmt.Sprintf("%s passes caseSensitive=%v", name, !wantCS))
						}
					}
				}
			})
			if !found {
				// the flag travels in a parameter object (likeSpec{pattern, caseSensitive: true}): follow the matcher
				// constructor's flag argument back to the constants it can hold when reached from this kernel
				if ctor := p.anchorMatcherCtor(); ctor != nil {
					eachInstr(fn, func(in ssa.Instruction) {
						st, ok := in.(*ssa.Store)
						if !ok {
							return
						}
						if fa, ok := st.Addr.(*ssa.FieldAddr); ok {
							if bt, ok := deref(fa.Type()).Underlying().(*types.Basic); ok && bt.Kind() == types.Bool {
								if isConstBool(st.Val, true) || isConstBool(st.Val, false) {
									found = true
									if isConstBool(st.Val, wantCS) {
										c.ok(key, p.instrPos(st), fmt.Sprintf("caseSensitive=%v (in the parameter object)", wantCS))
									} else {
										c.bad(key, p.instrPos(st), fmt.Sprintf("%s passes caseSensitive=%v", name, !wantCS))
									}
								}
							}
						}
					})
				}
			}
			if !found {
				c.undecided(key, p.pos(fn.Pos()), "no constant case flag passed on")
			}
			// every answer comes from the one matcher constructor: no path reports success without NewMatcher
			// having classified the pattern (a private notion of `plain string` in one column type makes string
			// and enum columns disagree on patterns such as mon|tue or a{2})
			ctor := p.anchorMatcherCtor()
			mkey := cp + "." + name + "|matcher from NewMatcher"
			if ctor == nil || errResultIndex(fn.Signature) < 0 {
				continue
			}
			var mustCall func(f *ssa.Function, d int) bool
			mustCall = func(f *ssa.Function, d int) bool {
				if f == nil || f.Blocks == nil || d > 3 {
					return false
				}
				calls := func(b *ssa.BasicBlock) bool {
					for _, in := range b.Instrs {
						if call, ok := in.(*ssa.Call); ok {
							if g := call.Call.StaticCallee(); g == ctor || (g != nil && g != f && g.Pkg == f.Pkg && mustCall(g, d+1)) {
								return true
							}
						}
					}
					return false
				}
				for _, rb := range append([]*ssa.BasicBlock{f.Blocks[0]}, reachableAvoiding(f.Blocks[0], calls)...) {
					if calls(rb) {
						continue
					}
					if ret, ok := rb.Instrs[len(rb.Instrs)-1].(*ssa.Return); ok {
						if errResultIndex(f.Signature) < 0 || mayReportSuccess(ret) {
							return false
						}
					}
				}
				return true
			}
			if mustCall(fn, 0) {
				c.ok(mkey, p.pos(fn.Pos()), "every path that reports success has passed NewMatcher")
			} else {
				c.bad(mkey, p.pos(fn.Pos()), "some path answers the pattern without strings.NewMatcher having classified it: which patterns count as plain strings, wildcards or regular expressions is then decided twice, and the two column types can disagree")
			}
		}
	}
	// (d) the pattern that reaches the matcher constructor is the one the caller wrote: at every call of NewMatcher
	// outside its package the pattern argument is a string parameter of the calling function, and wherever that
	// function is called inside its package the argument bound to that parameter is a parameter again - no rewriting
	// on the way (an `expanded` pattern changes which cells a literal % or a metacharacter matches)
	if ctor := p.anchorMatcherCtor(); ctor != nil {
		fromParam := func(v ssa.Value, fn *ssa.Function, d int) string {
			for _, o := range p.valueOrigins(v, fn, 0) {
				if _, ok := o.(*ssa.Parameter); !ok {
					return describe(o)
				}
			}
			return ""
		}
		for _, fn := range p.Funcs {
			if fn.Pkg == nil || fn.Pkg == ctor.Pkg || !inModule(fn.Pkg.Pkg) {
				continue
			}
			eachInstr(fn, func(in ssa.Instruction) {
				call, ok := in.(*ssa.Call)
				if !ok || call.Call.StaticCallee() != ctor || len(call.Call.Args) < 1 {
					return
				}
				key := fname(fn) + "|pattern handed to NewMatcher"
				if bad := fromParam(call.Call.Args[0], fn, 0); bad != "" {
					c.bad(key, p.instrPos(call), fmt.Sprintf("the pattern given to the matcher constructor is not the caller's pattern but %s: the pattern is rewritten on the way, so what a %% or a metacharacter inside it matches is no longer what the like/ilike rules say", bad))
				} else {
					c.ok(key, p.instrPos(call), "the caller's pattern reaches the constructor unchanged")
				}
			})
		}
	}
	if fn := p.anchorMatchLoop(); fn != nil {
		eachInstr(fn, func(in ssa.Instruction) {
			call, ok := in.(*ssa.Call)
			if !ok || !call.Call.IsInvoke() || call.Call.Method.Name() != "Matches" {
				return
			}
			okG := false
			for _, g := range dominatingGuards(call.Block()) {
				if isNullPredicate(g.Cond) && !g.Val {
					okG = true
				}
			}
			if okG {
				c.ok("internal/scolumn.regexFilter|null guard", p.instrPos(call), "Matches is dominated by !isNull")
			} else {
				c.bad("internal/scolumn.regexFilter|null guard", p.instrPos(call), "null cells reach the matcher (they are presented as empty strings and may match)")
			}
		})
	}
}

// patternProvenance: does src derive from strings.ToUpper(pattern); which constant strings were concatenated.
func patternProvenance(pe *pathExec, src ssa.Value, pat *ssa.Parameter) (upper bool, consts map[string]bool) {
	consts = map[string]bool{}
	seen := map[ssa.Value]bool{}
	var walk func(v ssa.Value, d int)
	walk = func(v ssa.Value, d int) {
		if v == nil || d > 30 {
			return
		}
		v = pe.resolve(v)
		if seen[v] {
			return
		}
		seen[v] = true
		switch t := v.(type) {
		case *ssa.Const:
			if s, ok := constString(t); ok {
				consts[s] = true
			}
		case *ssa.BinOp:
			walk(t.X, d+1)
			walk(t.Y, d+1)
		case *ssa.Slice:
			walk(t.X, d+1)
		case *ssa.Call:
			if isFuncNamed(calleeObj(t), "strings", "", "ToUpper") {
				upper = true
			}
			for _, a := range t.Call.Args {
				walk(a, d+1)
			}
		}
	}
	walk(src, 0)
	return
}

// ---------- R48 ----------

func runR48(c *Ctx) {
	p := c.P
	n := 0
	for _, fn := range p.Funcs {
		if fn.Name() != "Scan" || fn.Signature.Recv() == nil || fn.Signature.Params().Len() != 1 || errResultIndex(fn.Signature) != 0 {
			continue
		}
		if _, ok := fn.Signature.Params().At(0).Type().Underlying().(*types.Interface); !ok {
			continue
		}
		n++
		key := fname(fn) + "|[]byte from the driver"
		bad := ""
		found := false
		eachInstr(fn, func(in ssa.Instruction) {
			ta, ok := in.(*ssa.TypeAssert)
			if !ok {
				return
			}
			sl, ok := ta.AssertedType.Underlying().(*types.Slice)
			if !ok {
				return
			}
			if b, ok := sl.Elem().Underlying().(*types.Basic); !ok || b.Kind() != types.Uint8 {
				return
			}
			found = true
			var uses []ssa.Instruction
			for _, r := range *ta.Referrers() {
				if ex, ok := r.(*ssa.Extract); ok {
					if ex.Index == 0 {
						uses = append(uses, *ex.Referrers()...)
					}
				} else {
					uses = append(uses, r)
				}
			}
			for _, u := range uses {
				switch t := u.(type) {
				case *ssa.Convert:
					if b, ok := t.Type().Underlying().(*types.Basic); ok && b.Info()&types.IsString != 0 {
						continue // string(v): a copy
					}
					bad = "converted without copying at " + p.instrPos(u)
				case *ssa.Call:
					if n := builtinName(t); n == "len" || n == "cap" {
						continue
					}
					if builtinName(t) == "append" && len(t.Call.Args) == 2 && t.Call.Args[1] == ssa.Value(ta) {
						continue
					}
					bad = "passed on without copying at " + p.instrPos(u)
				case *ssa.DebugRef, *ssa.If:
				default:
					bad = "used without copying at " + p.instrPos(u)
				}
			}
		})
		if bad != "" {
			c.bad(key, p.pos(fn.Pos()), "bytes handed over by the database driver are "+bad+": database/sql allows the driver to reuse that buffer, so earlier rows' text is overwritten")
		} else if found {
			c.ok(key, p.pos(fn.Pos()), "only copied (string(v)) or measured")
		} else {
			c.okTrivial(key, p.pos(fn.Pos()), "no []byte case")
		}
	}
	if n == 0 {
		c.undecided("module|sql.Scanner", "-", "no Scan(interface{}) error method found")
	}
}

// ---------- R26 ----------

func runR26(c *Ctx) {
	p := c.P
	f := p.idxFacts()
	res := p.resolver()
	for _, cp := range columnPkgs {
		fn := p.Func(cp, "Column.StringAt")
		if fn == nil {
			c.undecided(cp+"|StringAt", "-", "method not found")
			continue
		}
		naRep := fn.Params[2]
		eachInstr(fn, func(in ssa.Instruction) {
			ret, ok := in.(*ssa.Return)
			if !ok {
				return
			}
			key := fname(fn) + "|return"
			pos := p.instrPos(ret)
			v := ret.Results[0]
			if v == ssa.Value(naRep) {
				// must be under the null test
				okG := false
				for _, g := range dominatingGuards(ret.Block()) {
					if isNullPredicate(g.Cond) && g.Val {
						okG = true
					}
				}
				if okG || !nullablePkg[cp] {
					c.ok(key, pos, "naRep under the null test")
				} else {
					c.bad(key, pos, "naRep is returned without the cell having been tested null")
				}
				return
			}
			call, isCall := v.(*ssa.Call)
			switch cp {
			case "internal/icolumn":
				if isCall && isFuncNamed(calleeObj(call), "strconv", "", "FormatInt") {
					if k, ok := constInt(call.Call.Args[1]); ok && k == 10 && len(f.posReads(call.Call.Args[0], res)) == 1 {
						c.ok(key, pos, "FormatInt(int64(cell), 10)")
						return
					}
				}
				if isCall && isFuncNamed(calleeObj(call), "strconv", "", "Itoa") && len(f.posReads(call.Call.Args[0], res)) == 1 {
					c.ok(key, pos, "Itoa(cell)")
					return
				}
				c.bad(key, pos, "an int cell is not written with FormatInt(cell, 10)/Itoa: the reader's Atoi would not reproduce it")
			case "internal/fcolumn":
				if isCall && isFuncNamed(calleeObj(call), "strconv", "", "FormatFloat") && len(call.Call.Args) == 4 {
					fmtB, _ := constInt(call.Call.Args[1])
					prec, okP := constInt(call.Call.Args[2])
					bits, okB := constInt(call.Call.Args[3])
					if (fmtB == 'f' || fmtB == 'e' || fmtB == 'g') && okP && prec == -1 && okB && bits == 64 && len(f.posReads(call.Call.Args[0], res)) == 1 {
						c.ok(key, pos, fmt.Sprintf("FormatFloat(cell, '%c', -1, 64): shortest representation that round-trips", rune(fmtB)))
						return
					}
					c.bad(key, pos, "FormatFloat is not called with precision -1 and bit size 64: floats do not round-trip bit-identically")
					return
				}
				c.bad(key, pos, "a float cell is written by something other than strconv.FormatFloat(cell, fmt, -1, 64) (integer fast paths lose -0, large magnitudes and precision)")
			case "internal/bcolumn":
				if isCall && isFuncNamed(calleeObj(call), "strconv", "", "FormatBool") {
					c.ok(key, pos, "FormatBool(cell)")
					return
				}
				c.bad(key, pos, "a bool cell is not written with FormatBool")
			default:
				// the cell's own string: derives from a read at the position parameter
				if len(f.posReads(v, res)) >= 1 || derivesFromPosParam(f, v) {
					c.ok(key, pos, "the cell's own string")
				} else {
					c.bad(key, pos, "the returned string does not derive from the cell")
				}
			}
		})
	}
	// reader side
	want := map[string][]string{"ParseInt": {"strconv", "Atoi"}, "ParseFloat": {"strconv", "ParseFloat"}, "ParseBool": {"strconv", "ParseBool"}}
	for name, w := range want {
		fn := p.Func("internal/strings", name)
		key := "internal/strings." + name + "|parser"
		if fn == nil {
			c.undecided(key, "-", "not found")
			continue
		}
		ok := false
		eachInstr(fn, func(in ssa.Instruction) {
			if call, isC := in.(*ssa.Call); isC && isFuncNamed(calleeObj(call), w[0], "", w[1]) {
				if w[1] == "ParseFloat" {
					if k, isK := constInt(call.Call.Args[1]); !isK || k != 64 {
						return
					}
				}
				ok = true
			}
		})
		if ok {
			c.ok(key, p.pos(fn.Pos()), "inverse of the writer's formatter: "+w[0]+"."+w[1])
		} else {
			c.bad(key, p.pos(fn.Pos()), "does not parse with "+w[0]+"."+w[1]+" (64 bit)")
		}
	}
	// every typed cell the CSV reader produces is the parse of that cell's own text by the parser of its type: a
	// float obtained by converting the int parse of the same text has lost the sign of -0 (and would lose anything
	// else the int syntax does not carry)
	if ctd := p.anchorColumnToData(); ctd != nil {
		parserOf := map[types.BasicKind]string{types.Float64: "ParseFloat", types.Int: "ParseInt", types.Bool: "ParseBool"}
		eachInstr(ctd, func(in ssa.Instruction) {
			call, ok := in.(*ssa.Call)
			if !ok || builtinName(call) != "append" || len(call.Call.Args) != 2 {
				return
			}
			sl, ok := call.Type().Underlying().(*types.Slice)
			if !ok {
				return
			}
			bt, ok := sl.Elem().Underlying().(*types.Basic)
			if !ok {
				return
			}
			want, ok := parserOf[bt.Kind()]
			if !ok {
				return
			}
			for _, el := range variadicElems(call.Call.Args[1]) {
				key := fname(ctd) + "|" + bt.Name() + " cell provenance"
				okEl := false
				switch t := el.(type) {
				case *ssa.Extract:
					if pc, ok := t.Tuple.(*ssa.Call); ok && t.Index == 0 {
						if isFuncNamed(calleeObj(pc), rel("internal/strings"), "", want) {
							okEl = true
						}
					}
				case *ssa.Call:
					if isFuncNamed(calleeObj(t), "math", "", "NaN") && bt.Kind() == types.Float64 {
						okEl = true
					}
				}
				if okEl {
					c.ok(key, p.instrPos(call), "the cell is "+want+" of its own text (or NaN for an empty float cell)")
				} else {
					c.bad(key, p.instrPos(call), fmt.Sprintf("a %s cell is appended that is not the result of %s on that cell's text (%s): values converted from another type's parse of the text lose what that type cannot carry (-0 becomes 0)", bt.Name(), want, describe(el)))
				}
			}
		})
	}
	// ToCSV passes "" as naRep
	if fn := p.Func("", "QFrame.ToCSV"); fn != nil {
		eachInstr(fn, func(in ssa.Instruction) {
			call, ok := in.(*ssa.Call)
			if !ok || !call.Call.IsInvoke() || call.Call.Method.Name() != "StringAt" {
				return
			}
			if s, ok := constString(call.Call.Args[1]); ok && s == "" {
				c.ok(fname(fn)+"|naRep", p.instrPos(call), `null/NaN written as the empty cell`)
			} else {
				c.bad(fname(fn)+"|naRep", p.instrPos(call), "null/NaN is not written as the empty cell; the reader maps only the empty cell back to NaN/null")
			}
		})
	}
	// reader: empty cell -> NaN in the float stage; -> null under EmptyNull in the string stage
	if fn := p.anchorColumnToData(); fn != nil {
		nan, emptyNull := false, false
		// columnToData and the helpers of its package it calls (an extracted parseFloatColumn)
		scope := []*ssa.Function{fn}
		eachInstr(fn, func(in ssa.Instruction) {
			if call, ok := in.(*ssa.Call); ok {
				if callee := call.Call.StaticCallee(); callee != nil && callee.Pkg == fn.Pkg && callee.Blocks != nil {
					scope = append(scope, callee)
				}
			}
		})
		for _, sf := range scope {
			eachInstr(sf, func(in ssa.Instruction) {
				call, ok := in.(*ssa.Call)
				if !ok {
					return
				}
				if isFuncNamed(calleeObj(call), "math", "", "NaN") {
					for _, g := range dominatingGuards(call.Block()) {
						if b, ok := g.Cond.(*ssa.BinOp); ok && b.Op == token.EQL && g.Val {
							if fieldNameOfLoad(b.X) == "start" && fieldNameOfLoad(b.Y) == "end" || fieldNameOfLoad(b.X) == "end" && fieldNameOfLoad(b.Y) == "start" {
								nan = true
							}
						}
					}
				}
				if o := calleeObj(call); o != nil && o.Name() == "NewPointer" && len(call.Call.Args) == 3 {
					if flag := call.Call.Args[2]; isConstBool(flag, true) {
						if p.underEmptyNull(call.Block()) {
							emptyNull = true
						}
					} else if _, isConst := flag.(*ssa.Const); !isConst && p.impliesEmptyNull(flag) {
						emptyNull = true
					}
				}
			})
		}
		if nan {
			c.ok(fname(fn)+"|empty float", p.pos(fn.Pos()), "empty cell -> NaN")
		} else {
			c.bad(fname(fn)+"|empty float", p.pos(fn.Pos()), "the float conversion does not map the empty cell to NaN")
		}
		if emptyNull {
			c.ok(fname(fn)+"|empty string", p.pos(fn.Pos()), "empty cell -> null exactly under EmptyNull")
		} else {
			c.bad(fname(fn)+"|empty string", p.pos(fn.Pos()), "null strings are not produced under (and only under) EmptyNull")
		}
	}
}

func derivesFromPosParam(f *idxFacts, v ssa.Value) bool {
	seen := map[ssa.Value]bool{}
	found := false
	var walk func(v ssa.Value, d int)
	walk = func(v ssa.Value, d int) {
		if v == nil || seen[v] || d > 10 || found {
			return
		}
		seen[v] = true
		if pr, ok := v.(*ssa.Parameter); ok && f.pParam[pr] {
			found = true
			return
		}
		if in, ok := v.(ssa.Instruction); ok {
			var ops []*ssa.Value
			for _, o := range in.Operands(ops) {
				if o != nil && *o != nil {
					walk(*o, d+1)
				}
			}
		}
	}
	walk(v, 0)
	return found
}

// ---- R101: every write into the upper-casing buffer is in bounds and no rune is lost ----

// cursorAdvancesOnlyByWrites: every definition of the write cursor n is 0, the result of copy, n+1 next to a
// single-byte store at b[n], or n + utf8.EncodeRune(b[n:], ..).
func cursorAdvancesOnlyByWrites(n ssa.Value) bool {
	seen := map[ssa.Value]bool{}
	var ok func(v ssa.Value) bool
	ok = func(v ssa.Value) bool {
		if seen[v] {
			return true
		}
		seen[v] = true
		switch t := v.(type) {
		case *ssa.Const:
			k, isK := constInt(t)
			return isK && k == 0
		case *ssa.Phi:
			for _, e := range t.Edges {
				if !ok(e) {
					return false
				}
			}
			return true
		case *ssa.Call:
			return builtinName(t) == "copy"
		case *ssa.BinOp:
			if t.Op != token.ADD || !ok(t.X) {
				return false
			}
			if k, isK := constInt(t.Y); isK && k == 1 {
				// a byte store at b[t.X] in the same block
				for _, in := range t.Block().Instrs {
					if st, isSt := in.(*ssa.Store); isSt {
						if ia, isIA := st.Addr.(*ssa.IndexAddr); isIA && ia.Index == t.X {
							return true
						}
					}
				}
				return false
			}
			if call, isCall := t.Y.(*ssa.Call); isCall && isFuncNamed(calleeObj(call), "unicode/utf8", "", "EncodeRune") {
				if sl, isSl := call.Call.Args[0].(*ssa.Slice); isSl && sl.Low == t.X {
					return true
				}
			}
			return false
		}
		return false
	}
	return ok(n)
}

func init() {
	register(&Rule{ID: "R101", Name: "UPPER-BUFFER", Floor: 6,
		Text: "in the zero-alloc ToUpper (internal/strings): (a) the buffer chosen at the first changed rune is at least len(s)+utf8.UTFMax long on both branches - the caller's buffer only under a dominating test `len(*bP) >= len(s)+UTFMax`, otherwise a make of exactly that expression; (b) every single-byte store b[n] = byte(r) is dominated by a test n < len(b), or follows n = copy(b, prefix of s) into the buffer of (a) (a store under the contradictory guard n > len(b) is unreachable, given that n only advances by the byte count of a write); (c) every utf8.EncodeRune(b[n:], r) either follows the sizing of (a) directly or is dominated by the branch on `n+UTFMax >= len(b)`, whose true side replaces b by a make of at least twice its length into which b[:n] is copied first; (d) from each r := unicode.ToUpper(c) every path to the end of the iteration writes r exactly once - the byte store or the EncodeRune - except paths on the negative side of a test `r < 0` / `r >= 0` (no other constant), which write nothing; a rune is neither dropped nor written twice",
		Run:  runR101})
}

func runR101(c *Ctx) {
	p := c.P
	fn := p.anchorUpper()
	if fn == nil {
		c.undecided("internal/strings.ToUpper", "-", "not found")
		return
	}
	fnm := fname(fn)
	sP := fn.Params[1]
	isLenOf := func(v ssa.Value, of func(ssa.Value) bool) bool {
		call, ok := v.(*ssa.Call)
		return ok && builtinName(call) == "len" && of(call.Call.Args[0])
	}
	isS := func(v ssa.Value) bool {
		// the string parameter or a phi/slice of it (s = s[i:])
		seen := map[ssa.Value]bool{}
		var walk func(v ssa.Value, d int) bool
		walk = func(v ssa.Value, d int) bool {
			if seen[v] || d > 5 {
				return false
			}
			seen[v] = true
			switch t := v.(type) {
			case *ssa.Parameter:
				return t == sP
			case *ssa.Phi:
				for _, e := range t.Edges {
					if walk(e, d+1) {
						return true
					}
				}
			case *ssa.Slice:
				return walk(t.X, d+1)
			}
			return false
		}
		return walk(v, 0)
	}
	isNeed := func(v ssa.Value) bool { // len(s) + UTFMax
		add, ok := v.(*ssa.BinOp)
		if !ok || add.Op != token.ADD {
			return false
		}
		k, isK := constInt(add.Y)
		return isK && k == 4 && isLenOf(add.X, isS)
	}
	// (a) first buffer
	var firstBuf *ssa.Phi
	eachInstr(fn, func(in ssa.Instruction) {
		phi, ok := in.(*ssa.Phi)
		if !ok || len(phi.Edges) != 2 {
			return
		}
		if _, isSl := phi.Type().Underlying().(*types.Slice); !isSl {
			return
		}
		hasMake := false
		for _, e := range phi.Edges {
			if _, ok := e.(*ssa.MakeSlice); ok {
				hasMake = true
			}
		}
		if hasMake && firstBuf == nil {
			firstBuf = phi
		}
	})
	if firstBuf == nil {
		c.undecided(fnm+"|first buffer", p.pos(fn.Pos()), "the choice between the caller's buffer and a new one was not found")
		return
	}
	{
		key := fnm + "|first buffer"
		var problems []string
		for i, e := range firstBuf.Edges {
			switch t := e.(type) {
			case *ssa.MakeSlice:
				if !isNeed(t.Len) {
					problems = append(problems, "the new buffer is allocated with "+describe(t.Len)+", not len(s)+utf8.UTFMax")
				}
			default:
				// the caller's buffer: guarded
				okG := false
				pred := firstBuf.Block().Preds[i]
				for _, g := range dominatingGuards(pred) {
					b, ok := g.Cond.(*ssa.BinOp)
					if !ok {
						continue
					}
					if b.Op == token.GEQ && g.Val && isNeed(b.Y) && isLenOf(b.X, func(v ssa.Value) bool { return true }) {
						okG = true
					}
					if b.Op == token.LSS && !g.Val && isNeed(b.Y) && isLenOf(b.X, func(v ssa.Value) bool { return true }) {
						okG = true
					}
				}
				// the guard may be the branch that selects this very edge
				if iff, ok := pred.Instrs[len(pred.Instrs)-1].(*ssa.If); ok && !okG {
					if b, ok := iff.Cond.(*ssa.BinOp); ok && isNeed(b.Y) {
						if b.Op == token.GEQ && pred.Succs[0] == firstBuf.Block() || b.Op == token.LSS && pred.Succs[1] == firstBuf.Block() {
							okG = true
						}
					}
				}
				if !okG {
					problems = append(problems, "the caller's buffer is used without a dominating test that it holds len(s)+utf8.UTFMax bytes")
				}
			}
		}
		if len(problems) == 0 {
			c.ok(key, p.instrPos(firstBuf), "at least len(s)+UTFMax bytes on both branches")
		} else {
			c.bad(key, p.instrPos(firstBuf), strings.Join(problems, "; "))
		}
	}
	// collect writes
	type write struct {
		in     ssa.Instruction
		single bool
		pos    ssa.Value // n
	}
	var writes []write
	eachInstr(fn, func(in ssa.Instruction) {
		switch t := in.(type) {
		case *ssa.Store:
			if ia, ok := t.Addr.(*ssa.IndexAddr); ok {
				if sl, ok := ia.X.Type().Underlying().(*types.Slice); ok {
					if b, ok := sl.Elem().Underlying().(*types.Basic); ok && b.Kind() == types.Byte {
						writes = append(writes, write{in, true, ia.Index})
					}
				}
			}
		case *ssa.Call:
			if isFuncNamed(calleeObj(t), "unicode/utf8", "", "EncodeRune") {
				var n ssa.Value
				if sl, ok := t.Call.Args[0].(*ssa.Slice); ok {
					n = sl.Low
				}
				writes = append(writes, write{in, false, n})
			}
		}
	})
	afterSizing := func(b *ssa.BasicBlock) bool {
		// the position is the result of copy(b, s[:i]) into the first buffer: n <= i < len(s) <= len(b) - UTFMax
		return firstBuf.Block().Dominates(b) && !inAnyLoopAfter(fn, firstBuf.Block(), b)
	}
	nb, ns := 0, 0
	for _, w := range writes {
		if w.single {
			nb++
			key := fmt.Sprintf("%s|byte store", fnm)
			ok := false
			for _, g := range dominatingGuards(w.in.Block()) {
				if b, isB := g.Cond.(*ssa.BinOp); isB && b.Op == token.LSS && g.Val && b.X == w.pos && isLenOf(b.Y, func(ssa.Value) bool { return true }) {
					ok = true
				}
			}
			// a store under the contradictory guard n > len(b) can never run: n only advances by the number of
			// bytes some in-bounds write just produced (checked here), so n <= len(b) holds throughout
			dead := false
			for _, g := range dominatingGuards(w.in.Block()) {
				if b, isB := g.Cond.(*ssa.BinOp); isB && b.Op == token.GTR && g.Val && b.X == w.pos && isLenOf(b.Y, func(ssa.Value) bool { return true }) {
					dead = cursorAdvancesOnlyByWrites(w.pos)
				}
			}
			if ok {
				c.ok(key, p.instrPos(w.in), "dominated by n < len(b)")
			} else if dead {
				c.ok(key, p.instrPos(w.in), "unreachable: guarded by n > len(b), and n never exceeds len(b)")
			} else if afterSizing(w.in.Block()) {
				c.ok(key, p.instrPos(w.in), "right after the buffer was sized to len(s)+UTFMax and the prefix copied")
			} else {
				c.bad(key, p.instrPos(w.in), "a byte is stored at b[n] without a dominating test n < len(b)")
			}
			continue
		}
		ns++
		key := fmt.Sprintf("%s|EncodeRune", fnm)
		if afterSizing(w.in.Block()) {
			c.ok(key, p.instrPos(w.in), "right after the buffer was sized to len(s)+UTFMax and the prefix copied")
			continue
		}
		// dominated by the grow test
		var growIf *ssa.If
		for _, g := range dominatingGuards(w.in.Block()) {
			_ = g
		}
		for _, b := range fn.Blocks {
			iff, ok := b.Instrs[len(b.Instrs)-1].(*ssa.If)
			if !ok || !b.Dominates(w.in.Block()) {
				continue
			}
			cmp, ok := iff.Cond.(*ssa.BinOp)
			if !ok || cmp.Op != token.GEQ && cmp.Op != token.GTR {
				continue
			}
			add, ok := cmp.X.(*ssa.BinOp)
			if !ok || add.Op != token.ADD || add.X != w.pos {
				continue
			}
			if k, isK := constInt(add.Y); isK && k == 4 && isLenOf(cmp.Y, func(ssa.Value) bool { return true }) && cmp.Op == token.GEQ {
				growIf = iff
			}
		}
		if growIf == nil {
			c.bad(key, p.instrPos(w.in), "a rune of up to UTFMax bytes is encoded at b[n:] without the dominating capacity test `n+utf8.UTFMax >= len(b)`")
			continue
		}
		// the grow branch
		grow := growIf.Block().Succs[0]
		var mk *ssa.MakeSlice
		copied := false
		for _, in := range grow.Instrs {
			switch t := in.(type) {
			case *ssa.MakeSlice:
				mk = t
			case *ssa.Call:
				if builtinName(t) == "copy" && mk != nil && t.Call.Args[0] == ssa.Value(mk) {
					if sl, ok := t.Call.Args[1].(*ssa.Slice); ok && sl.High == w.pos {
						copied = true
					}
				}
			}
		}
		var problems []string
		if mk == nil {
			problems = append(problems, "the `too small` branch allocates no buffer")
		} else {
			okLen := false
			if mul, ok := mk.Len.(*ssa.BinOp); ok && mul.Op == token.MUL {
				k, isK := constInt(mul.X)
				if !isK {
					k, isK = constInt(mul.Y)
				}
				if isK && k >= 2 && (isLenOf(mul.X, func(ssa.Value) bool { return true }) || isLenOf(mul.Y, func(ssa.Value) bool { return true })) {
					okLen = true
				}
			}
			if !okLen {
				problems = append(problems, "the grown buffer has length "+describe(mk.Len)+", not at least 2*len(b)")
			}
			if !copied {
				problems = append(problems, "the bytes converted so far (b[:n]) are not copied into the grown buffer")
			}
			// the buffer written is the grown one on that edge
			usesGrown := false
			if sl, ok := w.in.(*ssa.Call).Call.Args[0].(*ssa.Slice); ok {
				if phi, ok := sl.X.(*ssa.Phi); ok {
					for _, e := range phi.Edges {
						if e == ssa.Value(mk) {
							usesGrown = true
						}
					}
				}
			}
			if !usesGrown {
				problems = append(problems, "the rune is not encoded into the grown buffer")
			}
		}
		if len(problems) == 0 {
			c.ok(key, p.instrPos(w.in), "under the capacity test; the grow branch doubles the buffer and keeps its content")
		} else {
			c.bad(key, p.instrPos(w.in), strings.Join(problems, "; "))
		}
	}
	if nb == 0 || ns == 0 {
		c.undecided(fnm+"|writes", p.pos(fn.Pos()), "expected byte stores and EncodeRune calls")
	}
	// (d) after r := unicode.ToUpper(c): every path to the end of the iteration writes r exactly once, except the
	// paths that took the `r is negative` side of a test of r against 0, which write nothing
	eachInstr(fn, func(in ssa.Instruction) {
		rcall, ok := in.(*ssa.Call)
		if !ok || !isFuncNamed(calleeObj(rcall), "unicode", "", "ToUpper") {
			return
		}
		key := fnm + "|rune written once"
		isWrite := func(b *ssa.BasicBlock) int {
			n := 0
			for _, w := range writes {
				if w.in.Block() == b {
					n++
				}
			}
			return n
		}
		headers := map[*ssa.BasicBlock]bool{}
		for _, li := range loopsOf(fn) {
			headers[li.header] = true
		}
		bad := ""
		nPaths := 0
		// sign: 0 unknown, 1 negative (or unchanged in the scan for the first changed rune: nothing to write), 2 non-negative
		var dfs func(b *ssa.BasicBlock, n int, sign int, depth int, first bool)
		dfs = func(b *ssa.BasicBlock, n int, sign int, depth int, first bool) {
			neg := sign == 1
			if bad != "" || nPaths > 2000 {
				return
			}
			if !first && (headers[b] || !rcall.Block().Dominates(b)) || depth > 14 {
				nPaths++
				switch {
				case neg && n != 0:
					bad = fmt.Sprintf("a negative (or unchanged, not yet buffered) result of unicode.ToUpper is written (%d write(s))", n)
				case !neg && n != 1:
					bad = fmt.Sprintf("a path writes the upper-cased rune %d times; it must be written exactly once (a dropped or duplicated rune changes the string)", n)
				}
				return
			}
			n += isWrite(b)
			last := b.Instrs[len(b.Instrs)-1]
			if _, isRet := last.(*ssa.Return); isRet || len(b.Succs) == 0 {
				nPaths++
				if !neg && n != 1 {
					bad = fmt.Sprintf("a path writes the upper-cased rune %d times; it must be written exactly once", n)
				}
				return
			}
			if iff, ok := last.(*ssa.If); ok {
				cond, val := unNot(iff.Cond, true)
				if cmp, ok := cond.(*ssa.BinOp); ok {
					var k int64
					var isK, rLeft bool
					if cmp.X == ssa.Value(rcall) {
						k, isK = constInt(cmp.Y)
						rLeft = true
					} else if cmp.Y == ssa.Value(rcall) {
						k, isK = constInt(cmp.X)
					}
					if isK && k <= 1 && k >= -1 {
						op := cmp.Op
						if !rLeft {
							op = map[token.Token]token.Token{token.LSS: token.GTR, token.LEQ: token.GEQ, token.GTR: token.LSS, token.GEQ: token.LEQ}[op]
						}
						// which edge means r < 0 ?
						negOnTrue, understood := false, false
						switch {
						case op == token.LSS && k == 0, op == token.LEQ && k == -1:
							negOnTrue, understood = true, true
						case op == token.GEQ && k == 0, op == token.GTR && k == -1:
							negOnTrue, understood = false, true
						}
						if !understood && (op == token.LSS || op == token.LEQ || op == token.GTR || op == token.GEQ) {
							bad = fmt.Sprintf("the upper-cased rune is tested with `r %s %d`: U+0000 is a rune like any other and must be written (only negative results are skipped)", op, k)
							return
						}
						if understood {
							if !val {
								negOnTrue = !negOnTrue
							}
							for si := 0; si < 2; si++ {
								edgeNeg := negOnTrue == (si == 0)
								want := 2
								if edgeNeg {
									want = 1
								}
								if sign != 0 && sign != want {
									continue // contradicts what this path already knows about r
								}
								dfs(b.Succs[si], n, want, depth+1, false)
							}
							return
						}
					}
				}
			}
			// r == c: the rune is unchanged (the scan for the first rune that changes writes nothing for it)
			if iff, ok := last.(*ssa.If); ok {
				cond, val := unNot(iff.Cond, true)
				if cmp, ok := cond.(*ssa.BinOp); ok && (cmp.Op == token.EQL || cmp.Op == token.NEQ) && (cmp.X == ssa.Value(rcall) || cmp.Y == ssa.Value(rcall)) {
					if _, isConst := cmp.Y.(*ssa.Const); !isConst {
						eqEdge := 0
						if (cmp.Op == token.EQL) != val {
							eqEdge = 1
						}
						dfs(b.Succs[eqEdge], n, 1, depth+1, false)
						dfs(b.Succs[1-eqEdge], n, sign, depth+1, false)
						return
					}
				}
			}
			for _, sc := range b.Succs {
				dfs(sc, n, sign, depth+1, false)
			}
		}
		// start after the call: the rest of its block belongs to the region
		dfs(rcall.Block(), 0, 0, 0, true)
		if bad == "" {
			c.ok(key, p.instrPos(rcall), fmt.Sprintf("%d paths: the rune is written exactly once unless it is negative", nPaths))
		} else {
			c.bad(key, p.instrPos(rcall), bad)
		}
	})
	r101UnchangedReturn(c, fn, sP)
}

// r101UnchangedReturn (clause e): the input string itself is returned only after every one of its runes has been
// looked at. A `return s` that is reachable from an early exit of a loop over s (a break, e.g. at the first
// non-ASCII byte) without passing the exhaustion of another loop over s hands back strings whose tail was never
// examined: `Åsa` comes back unchanged because no lower-case ASCII letter precedes its first non-ASCII character.
func r101UnchangedReturn(c *Ctx, fn *ssa.Function, sP *ssa.Parameter) {
	p := c.P
	key := fname(fn) + "|input returned unchanged"
	var rets []*ssa.Return
	eachInstr(fn, func(in ssa.Instruction) {
		if r, ok := in.(*ssa.Return); ok && len(r.Results) == 1 && r.Results[0] == ssa.Value(sP) {
			rets = append(rets, r)
		}
	})
	if len(rets) == 0 {
		c.okTrivial(key, p.pos(fn.Pos()), "the parameter itself is never returned as such")
		return
	}
	// loops over s: a range over the string (Range/Next) or a counter compared with len(s)
	type loopS struct {
		li   loopInfo
		exit map[[2]*ssa.BasicBlock]bool // exhaustion edges
	}
	var loops []loopS
	for _, li := range loopsOf(fn) {
		over := false
		ex := map[[2]*ssa.BasicBlock]bool{}
		for _, b := range fn.Blocks {
			if !inLoop(li, b) || len(b.Instrs) == 0 {
				continue
			}
			iff, ok := b.Instrs[len(b.Instrs)-1].(*ssa.If)
			if !ok {
				continue
			}
			isBound := false
			switch t := iff.Cond.(type) {
			case *ssa.Extract: // ok of Next over a string range
				if nx, ok := t.Tuple.(*ssa.Next); ok && nx.IsString && t.Index == 0 {
					isBound = true
				}
			case *ssa.BinOp:
				for _, o := range []ssa.Value{t.X, t.Y} {
					if call, ok := o.(*ssa.Call); ok && builtinName(call) == "len" {
						if bt, ok := call.Call.Args[0].Type().Underlying().(*types.Basic); ok && bt.Info()&types.IsString != 0 {
							isBound = true
						}
					}
				}
			}
			if !isBound {
				continue
			}
			over = true
			for _, sc := range b.Succs {
				if !inLoop(li, sc) {
					ex[[2]*ssa.BasicBlock{b, sc}] = true
				}
			}
		}
		if over {
			loops = append(loops, loopS{li, ex})
		}
	}
	bad := ""
	for _, l := range loops {
		for _, b := range fn.Blocks {
			if !inLoop(l.li, b) {
				continue
			}
			for _, sc := range b.Succs {
				if inLoop(l.li, sc) || l.exit[[2]*ssa.BasicBlock{b, sc}] {
					continue
				}
				// an early exit b -> sc: search forward without crossing any exhaustion edge of a loop over s
				seen := map[*ssa.BasicBlock]bool{}
				var walk func(x *ssa.BasicBlock) bool
				walk = func(x *ssa.BasicBlock) bool {
					if seen[x] {
						return false
					}
					seen[x] = true
					for _, r := range rets {
						if r.Block() == x {
							return true
						}
					}
					for _, nx := range x.Succs {
						crossed := false
						for _, l2 := range loops {
							if l2.exit[[2]*ssa.BasicBlock{x, nx}] {
								crossed = true
							}
						}
						if !crossed && walk(nx) {
							return true
						}
					}
					return false
				}
				if walk(sc) {
					bad = p.instrPos(b.Instrs[len(b.Instrs)-1])
				}
			}
		}
	}
	if bad != "" {
		c.bad(key, bad, "the input string is returned unchanged on a path that left a scan of the string early (at "+bad+") and never finished another one: runes behind the exit were not examined, so strings that still need upper-casing come back as they are")
	} else {
		c.ok(key, p.instrPos(rets[0]), "the input is returned as it is only after a complete scan found nothing to change")
	}
}

// inAnyLoopAfter: b lies in a loop whose header is strictly dominated by `from` (a later loop).
func inAnyLoopAfter(fn *ssa.Function, from, b *ssa.BasicBlock) bool {
	for _, li := range loopsOf(fn) {
		if from.Dominates(li.header) && li.header != from && inLoop(li, b) && !inLoop(li, from) {
			return true
		}
	}
	return false
}

// ---- R102: the regular expression compiled for a like pattern ----

func init() {
	register(&Rule{ID: "R102", Name: "REGEX-PATTERN", Floor: 8,
		Text: "the regexp branch of NewMatcher is evaluated (E5) for the eight worlds of (leading %, trailing %, caseSensitive) with the pattern abstracted to a token list [%] BODY [%] (BODY = five opaque bytes): string concatenation, slicing by constants and by len(x)-k, HasPrefix/HasSuffix and the helpers are interpreted; the string handed to the last regexp.Compile on the path (the matcher's) must be exactly [(?i)] [^] (?:BODY) [$] - the flag exactly when case-insensitive, an anchor exactly at each end without %, the % itself removed, no byte of BODY removed or kept twice (a pattern `%a.c` must match `xabc`; stripping two bytes would drop the `a`), and BODY wrapped in a group whenever an anchor is concatenated to it (`^a|b$` is `^a` or `b$`: like `a|b` would match `axx`); with % at both ends the group is optional",
		Run:  runR102})
}

func runR102(c *Ctx) {
	p := c.P
	fn := p.anchorMatcherCtor()
	if fn == nil || len(fn.Params) != 2 {
		c.undecided("internal/strings.NewMatcher", "-", "not found")
		return
	}
	patP := fn.Params[0]
	for v := 0; v < 8; v++ {
		fs, fe, cs := v&1 != 0, v&2 != 0, v&4 != 0
		key := fmt.Sprintf("internal/strings.NewMatcher|regexp pattern leading%%=%v trailing%%=%v caseSensitive=%v", fs, fe, cs)
		var initial []string
		if fs {
			initial = append(initial, "%")
		}
		initial = append(initial, "B1", "B2", "B3", "B4", "B5")
		if fe {
			initial = append(initial, "%")
		}
		toks := map[ssa.Value][]string{}
		pe := &pathExec{fn: fn}
		var tokOf func(v ssa.Value) ([]string, bool)
		tokOf = func(v ssa.Value) ([]string, bool) {
			v = pe.resolve(v)
			if v == ssa.Value(patP) {
				return initial, true
			}
			if ts, ok := toks[v]; ok {
				return ts, true
			}
			if s, ok := constString(v); ok {
				var out []string
				for i := 0; i < len(s); i++ {
					out = append(out, s[i:i+1])
				}
				return out, true
			}
			return nil, false
		}
		pe.lenOf = func(call *ssa.Call) (int64, bool) {
			if ts, ok := tokOf(call.Call.Args[0]); ok {
				return int64(len(ts)), true
			}
			return 0, false
		}
		bad := ""
		var compiled []string
		haveCompiled := false
		atom := func(x ssa.Value) (bool, bool) {
			switch t := x.(type) {
			case *ssa.Parameter:
				if t == fn.Params[1] {
					return cs, true
				}
			case *ssa.Call:
				o := calleeObj(t)
				if isFuncNamed(o, "strings", "", "HasPrefix") || isFuncNamed(o, "strings", "", "HasSuffix") {
					ts, ok := tokOf(t.Call.Args[0])
					pre, okP := constString(t.Call.Args[1])
					if !ok || !okP || len(pre) != 1 {
						return false, false
					}
					if len(ts) == 0 {
						return false, true
					}
					if isFuncNamed(o, "strings", "", "HasPrefix") {
						return ts[0] == pre, true
					}
					return ts[len(ts)-1] == pre, true
				}
			case *ssa.BinOp:
				for _, o := range []ssa.Value{t.X, t.Y} {
					if call, ok := o.(*ssa.Call); ok && isFuncNamed(calleeObj(call), "regexp", "", "QuoteMeta") {
						return t.Op == token.NEQ, true // the pattern contains regexp metacharacters
					}
				}
				if cst, ok := t.Y.(*ssa.Const); ok && cst.IsNil() && isErrorType(t.X.Type()) {
					return t.Op == token.EQL, true
				}
			}
			return false, false
		}
		pe.oracle = func(pe *pathExec, cond ssa.Value) (bool, bool) { return pe.evalBool(cond, atom) }
		pe.inline = func(callee *ssa.Function) bool {
			return callee.Pkg == fn.Pkg && callee.Signature.Recv() == nil
		}
		pe.onInstr = func(pe *pathExec, in ssa.Instruction) {
			switch t := in.(type) {
			case *ssa.Phi:
				if ts, ok := tokOf(pe.phi[t]); ok {
					toks[t] = append([]string(nil), ts...)
				}
			case *ssa.BinOp:
				if t.Op == token.ADD {
					if bt, ok := t.Type().Underlying().(*types.Basic); ok && bt.Info()&types.IsString != 0 {
						a, ok1 := tokOf(t.X)
						b, ok2 := tokOf(t.Y)
						if ok1 && ok2 {
							toks[t] = append(append([]string(nil), a...), b...)
						} else {
							delete(toks, t)
						}
					}
				}
			case *ssa.Slice:
				src, ok := tokOf(t.X)
				if !ok {
					delete(toks, t)
					return
				}
				lo, hi := int64(0), int64(len(src))
				if t.Low != nil {
					k, ok := pe.intOf(t.Low, 0)
					if !ok {
						delete(toks, t)
						return
					}
					lo = k
				}
				if t.High != nil {
					k, ok := pe.intOf(t.High, 0)
					if !ok {
						delete(toks, t)
						return
					}
					hi = k
				}
				if lo < 0 || hi > int64(len(src)) || lo > hi {
					bad = fmt.Sprintf("the pattern of %d bytes is sliced [%d:%d] at %s: out of range", len(src), lo, hi, p.instrPos(t))
					delete(toks, t)
					return
				}
				toks[t] = append([]string(nil), src[lo:hi]...)
			case *ssa.Call:
				o := calleeObj(t)
				switch {
				case isFuncNamed(o, "strings", "", "TrimPrefix"), isFuncNamed(o, "strings", "", "TrimSuffix"):
					ts, ok := tokOf(t.Call.Args[0])
					cut, okC := constString(t.Call.Args[1])
					if ok && okC && len(cut) == 1 {
						out := append([]string(nil), ts...)
						if isFuncNamed(o, "strings", "", "TrimPrefix") && len(out) > 0 && out[0] == cut {
							out = out[1:]
						}
						if isFuncNamed(o, "strings", "", "TrimSuffix") && len(out) > 0 && out[len(out)-1] == cut {
							out = out[:len(out)-1]
						}
						toks[t] = out
					}
				case isFuncNamed(o, "regexp", "", "Compile"), isFuncNamed(o, "regexp", "", "MustCompile"):
					if ts, ok := tokOf(t.Call.Args[0]); ok {
						compiled, haveCompiled = ts, true
					} else {
						bad = "the expression handed to regexp.Compile at " + p.instrPos(t) + " is not derived from the pattern by operations the evaluation tracks"
					}
				}
			}
		}
		end, why := pe.run()
		if _, ok := end.(*ssa.Return); !ok && bad == "" {
			c.undecided(key, p.pos(fn.Pos()), "cannot evaluate: "+why)
			continue
		}
		if bad != "" {
			c.bad(key, p.pos(fn.Pos()), bad)
			continue
		}
		if !haveCompiled {
			c.undecided(key, p.pos(fn.Pos()), "no regular expression is compiled in this world")
			continue
		}
		// The body must be wrapped in a group whenever an anchor is concatenated to it: ^a|b$ is (^a)|(b$).
		// Without any anchor the group is optional. The last expression compiled on the path is the matcher's
		// (an earlier Compile of the bare body that only validates it is fine).
		build := func(open []string, closeTok []string) string {
			var want []string
			if !cs {
				want = append(want, "(", "?", "i", ")")
			}
			if !fs {
				want = append(want, "^")
			}
			want = append(want, open...)
			want = append(want, "B1", "B2", "B3", "B4", "B5")
			want = append(want, closeTok...)
			if !fe {
				want = append(want, "$")
			}
			return strings.Join(want, "")
		}
		accepted := []string{build([]string{"(", "?", ":"}, []string{")"}), build([]string{"("}, []string{")"})}
		if fs && fe {
			accepted = append(accepted, build(nil, nil))
		}
		got := strings.Join(compiled, "")
		okGot := false
		for _, a := range accepted {
			if got == a {
				okGot = true
			}
		}
		if okGot {
			c.ok(key, p.pos(fn.Pos()), "compiles "+got)
		} else if got == build(nil, nil) {
			c.bad(key, p.pos(fn.Pos()), fmt.Sprintf("compiles %s: the anchor is concatenated to the bare pattern, so an alternation escapes it (like `a|b` becomes ^a or b$ and matches `axx`); %s is required (B1..B5 stand for the pattern between the wildcards)", got, accepted[0]))
		} else {
			c.bad(key, p.pos(fn.Pos()), fmt.Sprintf("compiles %s where %s is required (B1..B5 stand for the pattern between the wildcards)", got, accepted[0]))
		}
	}
}
