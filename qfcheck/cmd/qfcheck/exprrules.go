package main

import (
	"fmt"
	"go/token"
	"go/types"
	"sort"
	"strings"

	"golang.org/x/tools/go/ssa"
)

func init() {
	register(&Rule{ID: "R14", Name: "TEMP", Floor: 4,
		Text: "temporary column names are resources: in Eval and in every execute that evaluates a sub-expression, each column name obtained from a sub-expression's execute that is not returned to the caller (F2) reaches a Drop, and (F1) unless it came from a constant expression (always temporary) the point where it is committed to the drop list is dominated by `!original.Contains(name)` on the function's own frame parameter - so no temporary survives and no original column is dropped; (F3) the name the function returns is not dropped",
		Run:  runR14})
	register(&Rule{ID: "R15", Name: "OPERAND-ORDER", Floor: 8,
		Text: "operands are applied in the order written: for each constructor that decodes the list form {op, a, b} every decoding path is enumerated and the list position each field was filled from is recorded; the matching execute is evaluated with those field values: the list it rebuilds / the Instruction it issues places the value that came from position 1 first and the one from position 2 second (a flipped decoding must be recorded in a field and undone); Expr builds the list in argument order; every Apply2 passes the receiver's cell first",
		Run:  runR15})
}

// ---------- R14 ----------

func isExecuteCall(call *ssa.Call) bool {
	sig := call.Call.Signature()
	if sig.Results().Len() != 2 {
		return false
	}
	// recognised by its signature, not its name: (frame, context) -> (frame, column name)
	return isExecuteSig(sig)
}

// isExecuteSig: the signature of Expression.execute - two results, a frame and a types.ColumnName, and a frame among
// the parameters (the receiver, when there is one, does not count).
func isExecuteSig(sig *types.Signature) bool {
	if sig.Results().Len() != 2 || !isFrameType(sig.Results().At(0).Type()) {
		return false
	}
	n, ok := sig.Results().At(1).Type().(*types.Named)
	if !ok || n.Obj().Name() != "ColumnName" {
		return false
	}
	for i := 0; i < sig.Params().Len(); i++ {
		if isFrameType(sig.Params().At(i).Type()) {
			return true
		}
	}
	return false
}

// forwardReach: values that carry (a conversion of) v, through converts, phis, array/slice stores and loads.
func forwardReach(v ssa.Value) map[ssa.Value]bool {
	out := map[ssa.Value]bool{}
	var walk func(v ssa.Value)
	walk = func(v ssa.Value) {
		if v == nil || out[v] {
			return
		}
		out[v] = true
		refs := v.Referrers()
		if refs == nil {
			return
		}
		for _, r := range *refs {
			switch t := r.(type) {
			case *ssa.Convert:
				walk(t)
			case *ssa.ChangeType:
				walk(t)
			case *ssa.Phi:
				walk(t)
			case *ssa.MakeInterface:
				walk(t)
			case *ssa.Store:
				if t.Val != v {
					continue
				}
				// element of an array / slice backing store, or a local variable
				switch a := t.Addr.(type) {
				case *ssa.IndexAddr:
					walk(a.X)
					// loads from any element of the same backing array
					if al, ok := a.X.(*ssa.Alloc); ok {
						for _, ar := range *al.Referrers() {
							switch x := ar.(type) {
							case *ssa.Slice:
								walk(x)
							case *ssa.IndexAddr:
								for _, lr := range *x.Referrers() {
									if ld, ok := lr.(*ssa.UnOp); ok && ld.Op == token.MUL {
										walk(ld)
									}
								}
							}
						}
					}
				case *ssa.Alloc:
					for _, ar := range *a.Referrers() {
						if ld, ok := ar.(*ssa.UnOp); ok && ld.Op == token.MUL {
							walk(ld)
						}
					}
				}
			case *ssa.Slice:
				walk(t)
			case *ssa.IndexAddr:
				// ranging over a slice that holds the name
				for _, lr := range *t.Referrers() {
					if ld, ok := lr.(*ssa.UnOp); ok && ld.Op == token.MUL {
						walk(ld)
					}
				}
			case *ssa.Call:
				if builtinName(t) == "append" {
					walk(t)
				}
			}
		}
	}
	walk(v)
	return out
}

// variadicElems: the values passed in the slice literal that go/ssa builds for a variadic call.
func variadicElems(v ssa.Value) []ssa.Value {
	sl, ok := v.(*ssa.Slice)
	if !ok {
		return nil
	}
	al, ok := sl.X.(*ssa.Alloc)
	if !ok {
		return nil
	}
	var out []ssa.Value
	for _, r := range *al.Referrers() {
		if ia, ok := r.(*ssa.IndexAddr); ok {
			for _, r2 := range *ia.Referrers() {
				if st, ok := r2.(*ssa.Store); ok && st.Addr == ssa.Value(ia) {
					out = append(out, st.Val)
				}
			}
		}
	}
	return out
}

// r14DstNotDropped (F4): where the value computed under the name x is copied to the destination d and x is
// dropped afterwards, the drop is guarded by x != d - otherwise Eval("colcol-temp-0", ...), whose destination
// happens to be the temporary name the evaluation picked, copies the column onto itself and then drops it: no
// error and no destination column.
func r14DstNotDropped(c *Ctx, drop *ssa.Function) {
	p := c.P
	copyFn := p.Func("", "QFrame.Copy")
	if copyFn == nil {
		return
	}
	for _, fn := range p.FuncsIn("") {
		var copies []*ssa.Call
		eachInstr(fn, func(in ssa.Instruction) {
			if call, ok := in.(*ssa.Call); ok && call.Call.StaticCallee() == copyFn && len(call.Call.Args) == 3 {
				copies = append(copies, call)
			}
		})
		if len(copies) == 0 {
			continue
		}
		eachInstr(fn, func(in ssa.Instruction) {
			call, ok := in.(*ssa.Call)
			if !ok || call.Call.StaticCallee() != drop || len(call.Call.Args) != 2 {
				return
			}
			for _, x := range variadicElems(call.Call.Args[1]) {
				for _, cp := range copies {
					d, src := cp.Call.Args[1], cp.Call.Args[2]
					if stripConv(src) != stripConv(x) || !cp.Block().Dominates(call.Block()) {
						continue
					}
					key := fname(fn) + "|destination not dropped"
					guarded := false
					for _, g := range dominatingGuards(call.Block()) {
						cmp, ok := g.Cond.(*ssa.BinOp)
						if !ok || !(cmp.Op == token.NEQ && g.Val || cmp.Op == token.EQL && !g.Val) {
							continue
						}
						a, b := stripConv(cmp.X), stripConv(cmp.Y)
						if a == stripConv(x) && b == stripConv(d) || b == stripConv(x) && a == stripConv(d) {
							guarded = true
						}
					}
					if guarded {
						c.ok(key, p.instrPos(call), "the evaluated column is dropped only when its name differs from the destination")
					} else {
						c.bad(key, p.instrPos(call), "the column is copied to the destination and then dropped by its own name without a test that the two names differ: when the destination equals the (temporary) name of the evaluated column the result is dropped and the destination column never appears, without an error")
					}
				}
			}
		})
	}
}

func runR14(c *Ctx) {
	p := c.P
	drop := p.Func("", "QFrame.Drop")
	contains := p.Func("", "QFrame.Contains")
	if drop == nil || contains == nil {
		c.undecided("anchor|Drop/Contains", "-", "QFrame.Drop or QFrame.Contains not found")
		return
	}
	r14DstNotDropped(c, drop)
	for _, fn := range p.FuncsIn("") {
		// the function's own frame parameter
		var frame *ssa.Parameter
		for _, prm := range fn.Params {
			if n, ok := prm.Type().(*types.Named); ok && n.Obj().Name() == "QFrame" {
				frame = prm
				break
			}
		}
		if frame == nil {
			continue
		}
		fnm := fname(fn)
		var returned map[ssa.Value]bool
		eachInstr(fn, func(in ssa.Instruction) {
			if r, ok := in.(*ssa.Return); ok && len(r.Results) == 2 {
				if returned == nil {
					returned = map[ssa.Value]bool{}
				}
				var back func(v ssa.Value)
				back = func(v ssa.Value) {
					if returned[v] {
						return
					}
					returned[v] = true
					if phi, ok := v.(*ssa.Phi); ok {
						for _, e := range phi.Edges {
							back(e)
						}
					}
				}
				back(r.Results[1])
			}
		})
		eachInstr(fn, func(in ssa.Instruction) {
			call, ok := in.(*ssa.Call)
			if !ok || !isExecuteCall(call) {
				return
			}
			var name ssa.Value
			for _, r := range *call.Referrers() {
				if ex, ok := r.(*ssa.Extract); ok && ex.Index == 1 {
					name = ex
				}
			}
			fromConst := false
			if callee := call.Call.StaticCallee(); callee != nil && callee.Signature.Recv() != nil {
				if n, ok := deref(callee.Signature.Recv().Type()).(*types.Named); ok && n.Obj().Name() == "constExpr" {
					fromConst = true
				}
			}
			src := "sub-expression"
			if fromConst {
				src = "constant expression"
			}
			key := fnm + "|name from " + src
			pos := p.instrPos(call)
			if name == nil {
				c.bad(key, pos, "the column name returned by the sub-expression is discarded: its temporary column can never be dropped")
				return
			}
			if returned[name] {
				// F3: must not be dropped here
				reach := forwardReach(name)
				droppedHere := false
				eachInstr(fn, func(i2 ssa.Instruction) {
					if dc, ok := i2.(*ssa.Call); ok && dc.Call.StaticCallee() == drop {
						for _, a := range dc.Call.Args[1:] {
							if reach[a] {
								droppedHere = true
							}
						}
					}
				})
				if droppedHere {
					c.bad(key, pos, "the name handed back to the caller is also dropped here")
				} else {
					c.ok(key, pos, "ownership of the name passes to the caller (returned, not dropped)")
				}
				return
			}
			st, msg := checkDrop(p, fn, name, frame, fromConst, drop, contains, 0)
			switch st {
			case Discharged:
				c.ok(key, pos, msg)
			case Violated:
				c.bad(key, pos, msg)
			default:
				c.undecided(key, pos, msg)
			}
		})
	}
}

// ---------- R15 ----------

// listOrigins: which positions (1, 2) of the decoded list a value derives from, on the executed path.
func listOrigins(pe *pathExec, v ssa.Value, list ssa.Value) map[int]bool {
	out := map[int]bool{}
	seen := map[ssa.Value]bool{}
	var walk func(v ssa.Value, d int)
	walk = func(v ssa.Value, d int) {
		if v == nil || d > 30 {
			return
		}
		if pe != nil {
			v = pe.resolve(v)
		}
		if seen[v] {
			return
		}
		seen[v] = true
		switch t := v.(type) {
		case *ssa.UnOp:
			if t.Op == token.MUL {
				if ia, ok := t.X.(*ssa.IndexAddr); ok {
					if k, isK := constInt(ia.Index); isK && (list == nil || stripConv(ia.X) == list) {
						out[int(k)] = true
						return
					}
				}
				if fa, ok := t.X.(*ssa.FieldAddr); ok && pe != nil {
					// field of a local struct assigned as a whole
					if k, ok := cellKey(fa.X); ok {
						if whole, ok := pe.mem[k]; ok {
							walk(whole, d+1)
							return
						}
					}
				}
				walk(t.X, d+1)
			}
		case *ssa.Extract:
			walk(t.Tuple, d+1)
		case *ssa.Call:
			for _, a := range t.Call.Args {
				walk(a, d+1)
			}
		case *ssa.TypeAssert:
			walk(t.X, d+1)
		case *ssa.MakeInterface:
			walk(t.X, d+1)
		case *ssa.Convert:
			walk(t.X, d+1)
		case *ssa.ChangeType:
			walk(t.X, d+1)
		case *ssa.Field:
			walk(t.X, d+1)
		case *ssa.Phi:
			for _, e := range t.Edges {
				walk(e, d+1)
			}
		}
	}
	walk(v, 0)
	return out
}

func posSet(m map[int]bool) string {
	var ks []int
	for k := range m {
		ks = append(ks, k)
	}
	sort.Ints(ks)
	return fmt.Sprint(ks)
}

type decodePath struct {
	fields map[string]map[int]bool // struct field -> list positions it was filled from
	bools  map[string]bool         // constant bool fields
	descr  string
}

// decodeConstructor enumerates the decoding paths of a list-form constructor.
func decodeConstructor(p *Prog, fn *ssa.Function) ([]decodePath, string) {
	// predicates: second results of the first decoding attempt (calls in the block that loads l[1], l[2])
	var okVals []ssa.Value
	// composite decoders of the same package (colAndConst(a, b) = colIdentifier(a) + newConstExpr(b)) are
	// evaluated in place, so that each part keeps its own list position and its own ok
	composite := func(callee *ssa.Function) bool {
		return callee != nil && callee.Pkg == fn.Pkg && callee.Blocks != nil && len(callee.Params) >= 2 && callee.Signature.Recv() == nil
	}
	scan := []*ssa.Function{fn}
	eachInstr(fn, func(in ssa.Instruction) {
		if call, ok := in.(*ssa.Call); ok && composite(call.Call.StaticCallee()) {
			scan = append(scan, call.Call.StaticCallee())
		}
	})
	for _, sf := range scan {
		eachInstr(sf, func(in ssa.Instruction) {
			ex, ok := in.(*ssa.Extract)
			if !ok || ex.Index == 0 {
				return
			}
			if call, ok := ex.Tuple.(*ssa.Call); ok && call.Call.StaticCallee() != nil && !composite(call.Call.StaticCallee()) && ex.Index == call.Call.Signature().Results().Len()-1 {
				if b, ok := ex.Type().Underlying().(*types.Basic); ok && b.Kind() == types.Bool {
					okVals = append(okVals, ex)
				}
			}
		})
	}
	var list ssa.Value
	eachInstr(fn, func(in ssa.Instruction) {
		if ta, ok := in.(*ssa.TypeAssert); ok && ta.CommaOk {
			if _, isSl := ta.AssertedType.Underlying().(*types.Slice); isSl {
				for _, r := range *ta.Referrers() {
					if ex, ok := r.(*ssa.Extract); ok && ex.Index == 0 {
						list = ex
					}
				}
			}
		}
	})
	if list == nil {
		return nil, "no []interface{} decoding found"
	}
	// The worlds range over semantic predicates "decoder D accepts list position k" (discovered while evaluating:
	// the same decoder call inside a helper that is entered twice stands for two predicates).
	isOk := map[ssa.Value]bool{}
	for _, o := range okVals {
		isOk[o] = true
	}
	var preds []string
	known := map[string]bool{}
	var out []decodePath
	seenSig := map[string]bool{}
	grew := false
	for v := 0; v < 1<<uint(len(preds)); v++ {
		if len(preds) > 7 {
			return nil, "too many decoding predicates"
		}
		if grew {
			// a predicate was met for the first time: enumerate again over the larger set
			grew, out, seenSig, v = false, nil, map[string]bool{}, 0
		}
		val := map[string]bool{}
		for i, pr := range preds {
			val[pr] = v&(1<<uint(i)) != 0
		}
		pe := &pathExec{fn: fn}
		pe.inline = composite
		predOf := func(x ssa.Value) (string, bool) {
			ex, ok := x.(*ssa.Extract)
			if !ok || !isOk[x] {
				return "", false
			}
			call := ex.Tuple.(*ssa.Call)
			key := call.Call.StaticCallee().Name() + "@"
			pos := map[int]bool{}
			for _, a := range call.Call.Args {
				for k := range listOrigins(pe, a, list) {
					pos[k] = true
				}
			}
			return key + posSet(pos), true
		}
		worldAtom := func(x ssa.Value) (bool, bool) {
			if k, ok := predOf(x); ok {
				if !known[k] {
					known[k] = true
					preds = append(preds, k)
					grew = true
				}
				b, have := val[k]
				if !have {
					b = true
				}
				return b, true
			}
			return false, false
		}
		pe.evalBoolResult = func(v ssa.Value) (bool, bool) { return pe.evalBool(v, worldAtom) }
		pe.oracle = func(pe *pathExec, cond ssa.Value) (bool, bool) {
			return pe.evalBool(cond, func(x ssa.Value) (bool, bool) {
				if b, ok := worldAtom(x); ok {
					return b, true
				}
				// shape tests (type assertion ok, len == n) and later attempts succeed: the list has exactly the
				// length it is compared with
				if b, ok := x.(*ssa.BinOp); ok {
					if call, isCall := b.X.(*ssa.Call); isCall && builtinName(call) == "len" {
						switch b.Op {
						case token.NEQ, token.LSS, token.GTR:
							return false, true
						}
					}
				}
				return true, true
			})
		}
		end, _ := pe.run()
		ret, ok := end.(*ssa.Return)
		if !ok {
			continue
		}
		// success result only
		if len(ret.Results) == 2 {
			if isConstBool(pe.resolve(ret.Results[1]), false) {
				continue
			}
		}
		var cell ssa.Value
		rv := ret.Results[0]
		if mi, ok := rv.(*ssa.MakeInterface); ok {
			rv = mi.X
		}
		if ld, ok := rv.(*ssa.UnOp); ok && ld.Op == token.MUL {
			cell = ld.X
		}
		ck, okK := cellKey(cell)
		if cell == nil || !okK {
			continue
		}
		st, _ := deref(cell.Type()).Underlying().(*types.Struct)
		if st == nil {
			continue
		}
		dp := decodePath{fields: map[string]map[int]bool{}, bools: map[string]bool{}}
		var sig []string
		for i := 0; i < st.NumFields(); i++ {
			fv, ok := pe.mem[fmt.Sprintf("%s.%d", ck, i)]
			if !ok {
				continue
			}
			name := st.Field(i).Name()
			if isConstBool(fv, true) {
				dp.bools[name] = true
				sig = append(sig, name+"=true")
				continue
			}
			if isConstBool(fv, false) {
				dp.bools[name] = false
				sig = append(sig, name+"=false")
				continue
			}
			if basicKind(fv.Type()) == types.Bool {
				// a flag computed from the decoders' ok results (`constFirst := !argsOk`): its value in this world
				if b, known := pe.evalBool(fv, worldAtom); known {
					dp.bools[name] = b
					sig = append(sig, fmt.Sprintf("%s=%v", name, b))
					continue
				}
			}
			o := listOrigins(pe, fv, list)
			delete(o, 0)
			dp.fields[name] = o
			sig = append(sig, name+"<-"+posSet(o))
		}
		s := strings.Join(sig, " ")
		if seenSig[s] {
			continue
		}
		seenSig[s] = true
		dp.descr = s
		out = append(out, dp)
	}
	if grew {
		return nil, "the set of decoding predicates did not stabilise"
	}
	return out, ""
}

func runR15(c *Ctx) {
	p := c.P
	// (1) colConstExpr: constructor paths x execute
	if ctor, exe := p.anchorByResult("colConstExpr", "newColConstExpr"), p.executeOf("colConstExpr"); ctor != nil && exe != nil {
		paths, why := decodeConstructor(p, ctor)
		if len(paths) == 0 {
			c.undecided("qframe.newColConstExpr|decoding paths", p.pos(ctor.Pos()), "cannot enumerate: "+why)
		}
		for _, dp := range paths {
			key := "qframe.colConstExpr|decoding " + dp.descr
			colPos, constPos := 0, 0
			for name, o := range dp.fields {
				if len(o) != 1 {
					continue
				}
				for k := range o {
					switch name {
					case "srcCol":
						colPos = k
					case "value":
						constPos = k
					}
				}
			}
			if colPos == 0 || constPos == 0 || colPos == constPos {
				c.undecided(key, p.pos(ctor.Pos()), "cannot tell which list position the column and the constant came from")
				continue
			}
			// evaluate execute with the bool fields of this path
			pe := &pathExec{fn: exe}
			pe.oracle = func(pe *pathExec, cond ssa.Value) (bool, bool) {
				return pe.evalBool(cond, func(x ssa.Value) (bool, bool) {
					if n := fieldNameOfLoad(x); n != "" {
						if b, ok := dp.bools[n]; ok {
							return b, true
						}
						if n == "Err" {
							return false, true
						}
					}
					if b, ok := x.(*ssa.BinOp); ok {
						for _, o := range []ssa.Value{b.X, b.Y} {
							if fieldNameOfLoad(o) == "Err" {
								return b.Op == token.EQL, true
							}
						}
					}
					return false, false
				})
			}
			end, why := pe.run()
			if _, ok := end.(*ssa.Return); !ok {
				c.undecided(key, p.pos(exe.Pos()), "cannot evaluate execute: "+why)
				continue
			}
			first, second, okL := colColOperands(p, exe, pe)
			if !okL {
				c.undecided(key, p.pos(exe.Pos()), "cannot find the operands handed to the column-column expression")
				continue
			}
			isCol := func(v ssa.Value) bool { return derivesFromField(pe, v, "srcCol") }
			isConst := func(v ssa.Value) bool { return derivesFromExecuteOf(pe, v, "constExpr") }
			var gotColPos int
			switch {
			case isCol(first) && isConst(second):
				gotColPos = 1
			case isConst(first) && isCol(second):
				gotColPos = 2
			}
			if gotColPos == 0 {
				c.undecided(key, p.pos(exe.Pos()), "operands of the rebuilt list are not the column and the constant's temporary column")
			} else if gotColPos == colPos {
				c.ok(key, p.pos(exe.Pos()), fmt.Sprintf("column written at position %d is applied as operand %d", colPos, gotColPos))
			} else {
				c.bad(key, p.pos(exe.Pos()), fmt.Sprintf("the column was written as operand %d and the constant as operand %d, but execute applies the column as operand %d: Expr(op, const, col) computes op(col, const)", colPos, constPos, gotColPos))
			}
		}
	} else {
		c.undecided("qframe.colConstExpr", "-", "constructor or execute not found")
	}
	// (2) colColExpr: fields from positions 1, 2; Instruction SrcCol1/SrcCol2 from srcCol1/srcCol2
	if ctor, exe := p.anchorByResult("colColExpr", "newColColExpr"), p.executeOf("colColExpr"); ctor != nil && exe != nil {
		paths, _ := decodeConstructor(p, ctor)
		for _, dp := range paths {
			key := "qframe.colColExpr|decoding " + dp.descr
			if dp.fields["srcCol1"][1] && !dp.fields["srcCol1"][2] && dp.fields["srcCol2"][2] && !dp.fields["srcCol2"][1] {
				c.ok(key, p.pos(ctor.Pos()), "srcCol1 <- position 1, srcCol2 <- position 2")
			} else {
				c.bad(key, p.pos(ctor.Pos()), "the two column operands are not decoded from positions 1 and 2 in that order")
			}
		}
		// Instruction literal
		eachInstr(exe, func(in ssa.Instruction) {
			st, ok := in.(*ssa.Store)
			if !ok {
				return
			}
			fa, ok := st.Addr.(*ssa.FieldAddr)
			if !ok {
				return
			}
			s, ok := deref(fa.X.Type()).Underlying().(*types.Struct)
			if !ok {
				return
			}
			fnm := s.Field(fa.Field).Name()
			if fnm != "SrcCol1" && fnm != "SrcCol2" {
				return
			}
			want := "srcCol" + fnm[len(fnm)-1:]
			key := "qframe.colColExpr.execute|Instruction." + fnm
			if derivesFromField(nil, st.Val, want) {
				c.ok(key, p.instrPos(st), fnm+" <- "+want)
			} else {
				c.bad(key, p.instrPos(st), fnm+" is not filled from "+want+": the operands are applied in the wrong order")
			}
		})
	}
	// (3) exprExpr2: lhs <- 1, rhs <- 2 ; list {op, name(lhs), name(rhs)}
	if ctor, exe := p.Func("", "newExprExpr"), p.executeOf("exprExpr2"); ctor != nil && exe != nil {
		// constructor: returns exprExpr2{lhs: newExpr(l[1]), rhs: newExpr(l[2])}
		okCtor, seen := true, false
		eachInstr(ctor, func(in ssa.Instruction) {
			st, ok := in.(*ssa.Store)
			if !ok {
				return
			}
			fa, ok := st.Addr.(*ssa.FieldAddr)
			if !ok {
				return
			}
			s, ok := deref(fa.X.Type()).Underlying().(*types.Struct)
			if !ok {
				return
			}
			n, ok := deref(fa.X.Type()).(*types.Named)
			if !ok || n.Obj().Name() != "exprExpr2" {
				return
			}
			fnm := s.Field(fa.Field).Name()
			if fnm != "lhs" && fnm != "rhs" {
				return
			}
			seen = true
			o := listOrigins(nil, st.Val, nil)
			want := map[string]int{"lhs": 1, "rhs": 2}[fnm]
			if !(len(o) == 1 && o[want]) {
				okCtor = false
			}
		})
		key := "qframe.exprExpr2|constructor"
		if seen && okCtor {
			c.ok(key, p.pos(ctor.Pos()), "lhs <- position 1, rhs <- position 2")
		} else {
			c.bad(key, p.pos(ctor.Pos()), "lhs/rhs are not decoded from positions 1 and 2 in that order")
		}
		// execute
		first, second, okL := colColOperands(p, exe, nil)
		key = "qframe.exprExpr2.execute|rebuilt list"
		if !okL {
			c.undecided(key, p.pos(exe.Pos()), "cannot find the rebuilt {op, a, b} list")
		} else if derivesFromExecuteOnField(first, "lhs") && derivesFromExecuteOnField(second, "rhs") {
			c.ok(key, p.pos(exe.Pos()), "{op, result of lhs, result of rhs}")
		} else {
			c.bad(key, p.pos(exe.Pos()), "the results of the left and right sub-expressions are not passed on in that order")
		}
	}
	// (4) Expr: list built in argument order
	if fn := p.Func("", "Expr"); fn != nil {
		args := fn.Params[1]
		nOK, nBad := 0, 0
		eachInstr(fn, func(in ssa.Instruction) {
			st, ok := in.(*ssa.Store)
			if !ok {
				return
			}
			ia, ok := st.Addr.(*ssa.IndexAddr)
			if !ok {
				return
			}
			al, ok := ia.X.(*ssa.Alloc)
			if !ok {
				return
			}
			if arr, ok := deref(al.Type()).Underlying().(*types.Array); !ok || arr.Len() < 2 {
				return
			}
			k, isK := constInt(ia.Index)
			if !isK || k == 0 {
				return
			}
			o := listOrigins(nil, st.Val, args)
			if len(o) == 0 {
				return
			}
			if len(o) == 1 && o[int(k)-1] {
				nOK++
			} else {
				nBad++
				c.bad("qframe.Expr|list position", p.instrPos(st), fmt.Sprintf("list position %d is filled from argument %s, not from argument %d", k, posSet(o), k-1))
			}
		})
		if nBad == 0 && nOK > 0 {
			c.ok("qframe.Expr|list positions", p.pos(fn.Pos()), fmt.Sprintf("%d list elements, each from the argument at the same position", nOK))
		} else if nOK == 0 && nBad == 0 {
			c.undecided("qframe.Expr|list positions", p.pos(fn.Pos()), "no list construction found")
		}
	}
	// (5) Apply2: receiver's cell first
	f := p.idxFacts()
	res := p.resolver()
	for _, cp := range columnPkgs {
		fn := p.Func(cp, "Column.Apply2")
		if fn == nil {
			continue
		}
		eachInstr(fn, func(in ssa.Instruction) {
			call, ok := in.(*ssa.Call)
			if !ok || call.Call.IsInvoke() || call.Call.StaticCallee() != nil || builtinName(call) != "" || len(call.Call.Args) != 2 {
				return
			}
			if isUser, _ := userFuncOrigin(call.Call.Value, 0); !isUser {
				return
			}
			key := fname(fn) + "|callback argument order"
			r0 := storageRootOf(f, res, call.Call.Args[0])
			r1 := storageRootOf(f, res, call.Call.Args[1])
			if r0 != nil && r1 != nil && rootIsParam(r0, fn.Params[0]) && !rootIsParam(r1, fn.Params[0]) {
				c.ok(key, p.instrPos(call), "fn(receiver cell, other column's cell)")
			} else {
				c.bad(key, p.instrPos(call), "the function is not called as fn(cell of the first source column, cell of the second): operands swapped")
			}
		})
	}
}

// storageRootOf: the struct whose storage the value was read from (receiver or the other column).
func storageRootOf(f *idxFacts, res *callResolver, v ssa.Value) ssa.Value {
	var root ssa.Value
	seen := map[ssa.Value]bool{}
	var walk func(v ssa.Value, d int)
	walk = func(v ssa.Value, d int) {
		if v == nil || seen[v] || d > 10 || root != nil {
			return
		}
		seen[v] = true
		switch t := v.(type) {
		case *ssa.UnOp:
			if ia, ok := t.X.(*ssa.IndexAddr); ok && f.isStorage(ia.X) {
				_, x := fieldOf(ia.X)
				root = x
				return
			}
			walk(t.X, d+1)
		case *ssa.Call:
			for _, callee := range res.callees(t) {
				args := argsFor(t, callee)
				for i := range args {
					if f.pParam[callee.Params[i]] && len(args) > 0 {
						root = args[0]
						return
					}
				}
			}
			for _, a := range t.Call.Args {
				walk(a, d+1)
			}
		case *ssa.Extract:
			walk(t.Tuple, d+1)
		case *ssa.MakeInterface:
			walk(t.X, d+1)
		}
	}
	walk(v, 0)
	return root
}

// rebuiltList returns elements 1 and 2 of a []interface{}{op, a, b} literal.
func rebuiltList(pe *pathExec, list ssa.Value) (ssa.Value, ssa.Value, bool) {
	if list == nil {
		return nil, nil, false
	}
	for i := 0; i < 6; i++ {
		if pe != nil {
			list = pe.resolve(list)
		}
		if mi, ok := list.(*ssa.MakeInterface); ok {
			list = mi.X
			continue
		}
		break
	}
	sl, ok := list.(*ssa.Slice)
	if !ok {
		return nil, nil, false
	}
	al, ok := sl.X.(*ssa.Alloc)
	if !ok {
		return nil, nil, false
	}
	var e1, e2 ssa.Value
	for _, r := range *al.Referrers() {
		ia, ok := r.(*ssa.IndexAddr)
		if !ok {
			continue
		}
		k, isK := constInt(ia.Index)
		if !isK {
			continue
		}
		for _, r2 := range *ia.Referrers() {
			if st, ok := r2.(*ssa.Store); ok {
				switch k {
				case 1:
					e1 = st.Val
				case 2:
					e2 = st.Val
				}
			}
		}
	}
	return e1, e2, e1 != nil && e2 != nil
}

func backwardAny(pe *pathExec, v ssa.Value, pred func(ssa.Value) bool) bool {
	seen := map[ssa.Value]bool{}
	found := false
	var walk func(v ssa.Value, d int)
	walk = func(v ssa.Value, d int) {
		if v == nil || d > 20 || found {
			return
		}
		if pe != nil {
			v = pe.resolve(v)
		}
		if seen[v] {
			return
		}
		seen[v] = true
		if pred(v) {
			found = true
			return
		}
		switch t := v.(type) {
		case *ssa.MakeInterface:
			walk(t.X, d+1)
		case *ssa.Convert:
			walk(t.X, d+1)
		case *ssa.ChangeType:
			walk(t.X, d+1)
		case *ssa.Extract:
			walk(t.Tuple, d+1)
		case *ssa.Phi:
			for _, e := range t.Edges {
				walk(e, d+1)
			}
		case *ssa.UnOp:
			walk(t.X, d+1)
		}
	}
	walk(v, 0)
	return found
}

func derivesFromField(pe *pathExec, v ssa.Value, field string) bool {
	return backwardAny(pe, v, func(x ssa.Value) bool { return fieldNameOfLoad(x) == field })
}

// derivesFromExecuteOf: v is the name result of execute on a value of the given expression type.
func derivesFromExecuteOf(pe *pathExec, v ssa.Value, typ string) bool {
	return backwardAny(pe, v, func(x ssa.Value) bool {
		call, ok := x.(*ssa.Call)
		if !ok || !isExecuteCall(call) {
			return false
		}
		if callee := call.Call.StaticCallee(); callee != nil && callee.Signature.Recv() != nil {
			if n, ok := deref(callee.Signature.Recv().Type()).(*types.Named); ok && n.Obj().Name() == typ {
				return true
			}
		}
		return false
	})
}

func derivesFromExecuteOnField(v ssa.Value, field string) bool {
	return backwardAny(nil, v, func(x ssa.Value) bool {
		call, ok := x.(*ssa.Call)
		if !ok || !isExecuteCall(call) || !call.Call.IsInvoke() {
			return false
		}
		return fieldNameOfLoad(call.Call.Value) == field
	})
}

// colColOperands finds the two column operands handed to the column-column expression: either the
// rebuilt {op, a, b} list passed to its constructor, or a colColExpr struct literal whose execute is called.
func colColOperands(p *Prog, fn *ssa.Function, pe *pathExec) (ssa.Value, ssa.Value, bool) {
	ctor := p.anchorByResult("colColExpr", "newColColExpr")
	var calls []*ssa.Call
	if pe != nil {
		calls = pe.calls
	} else {
		eachInstr(fn, func(in ssa.Instruction) {
			if c, ok := in.(*ssa.Call); ok {
				calls = append(calls, c)
			}
		})
	}
	// (a) list form
	for _, call := range calls {
		if callee := call.Call.StaticCallee(); callee != nil && callee == ctor {
			if a, b, ok := rebuiltList(pe, call.Call.Args[0]); ok {
				return a, b, true
			}
		}
	}
	// (b) struct literal on which execute is called
	for _, call := range calls {
		callee := call.Call.StaticCallee()
		if callee == nil || !isExecuteSig(callee.Signature) || callee.Signature.Recv() == nil {
			continue
		}
		n, ok := deref(callee.Signature.Recv().Type()).(*types.Named)
		if !ok || n.Obj().Name() != "colColExpr" {
			continue
		}
		recv := call.Call.Args[0]
		ld, ok := recv.(*ssa.UnOp)
		if !ok {
			continue
		}
		st, ok := n.Underlying().(*types.Struct)
		if !ok {
			continue
		}
		var colFields []int
		for i := 0; i < st.NumFields(); i++ {
			if ft, ok := st.Field(i).Type().(*types.Named); ok && ft.Obj().Name() == "ColumnName" {
				colFields = append(colFields, i)
			}
		}
		if len(colFields) != 2 {
			continue
		}
		get := func(i int) ssa.Value {
			if pe != nil {
				if pe.vals[ld] != nil {
					// struct loaded as a whole: fields live in the cell it was loaded from
				}
				if k, ok := cellKey(ld.X); ok {
					return pe.mem[fmt.Sprintf("%s.%d", k, i)]
				}
				return nil
			}
			// no path: the literal must be assigned exactly once
			var v ssa.Value
			n := 0
			al, ok := ld.X.(*ssa.Alloc)
			if !ok {
				return nil
			}
			for _, r := range *al.Referrers() {
				if fa, ok := r.(*ssa.FieldAddr); ok && fa.Field == i {
					for _, r2 := range *fa.Referrers() {
						if s, ok := r2.(*ssa.Store); ok && s.Addr == ssa.Value(fa) {
							v = s.Val
							n++
						}
					}
				}
				// whole-struct assignment from a literal
				if s, ok := r.(*ssa.Store); ok && s.Addr == ssa.Value(al) {
					if src, ok := s.Val.(*ssa.UnOp); ok {
						if sal, ok := src.X.(*ssa.Alloc); ok {
							for _, r2 := range *sal.Referrers() {
								if fa, ok := r2.(*ssa.FieldAddr); ok && fa.Field == i {
									for _, r3 := range *fa.Referrers() {
										if s2, ok := r3.(*ssa.Store); ok && s2.Addr == ssa.Value(fa) {
											v = s2.Val
											n++
										}
									}
								}
							}
						}
					}
				}
			}
			if n == 1 {
				return v
			}
			return nil
		}
		a, b := get(colFields[0]), get(colFields[1])
		if a != nil && b != nil {
			return a, b, true
		}
	}
	return nil, nil, false
}

// checkDrop decides F1/F2 for a temporary name inside fn; if the name is handed, together with the
// original frame, to a helper of the same package, the helper is judged the same way (one level).
func checkDrop(p *Prog, fn *ssa.Function, name ssa.Value, frame *ssa.Parameter, fromConst bool, drop, contains *ssa.Function, depth int) (Status, string) {
	reach := forwardReach(name)
	var dropCalls []*ssa.Call
	eachInstr(fn, func(i2 ssa.Instruction) {
		if dc, ok := i2.(*ssa.Call); ok && dc.Call.StaticCallee() == drop {
			for _, a := range dc.Call.Args[1:] {
				if reach[a] {
					dropCalls = append(dropCalls, dc)
				}
			}
		}
	})
	if len(dropCalls) == 0 && depth == 0 {
		// handed to a helper together with the original frame?
		var verdict *Status
		var vmsg string
		eachInstr(fn, func(i2 ssa.Instruction) {
			hc, ok := i2.(*ssa.Call)
			if !ok || verdict != nil {
				return
			}
			h := hc.Call.StaticCallee()
			if h == nil || h.Pkg != fn.Pkg || h == drop || h == contains || h.Blocks == nil {
				return
			}
			nameIdx, frameIdx := -1, -1
			for i, a := range hc.Call.Args {
				if reach[a] {
					nameIdx = i
				}
				if rootIsParam(a, frame) {
					frameIdx = i
				}
			}
			if nameIdx < 0 || frameIdx < 0 || nameIdx >= len(h.Params) || frameIdx >= len(h.Params) {
				return
			}
			// the helper may hand back the list of names to drop instead of dropping them itself: then the list
			// must reach a Drop here, and the helper puts the name on it only if absent from the original frame
			returnsList := false
			hreach := forwardReach(h.Params[nameIdx])
			eachInstr(h, func(i3 ssa.Instruction) {
				if r, ok := i3.(*ssa.Return); ok {
					for _, rv := range r.Results {
						if hreach[rv] {
							returnsList = true
						}
					}
				}
			})
			if returnsList {
				creach := forwardReach(hc)
				dropped := false
				eachInstr(fn, func(i3 ssa.Instruction) {
					if dc, ok := i3.(*ssa.Call); ok && dc.Call.StaticCallee() == drop {
						for _, a := range dc.Call.Args[1:] {
							if creach[a] {
								dropped = true
							}
						}
					}
				})
				if !dropped {
					st := Violated
					verdict, vmsg = &st, "the list of temporary names built by "+h.Name()+" never reaches a Drop: a temporary column survives in the result of Eval"
					return
				}
				st, m := checkDropCommits(p, h, hreach, h.Params[frameIdx], fromConst, contains)
				verdict, vmsg = &st, "through helper "+h.Name()+" (returns the drop list): "+m
				return
			}
			st, m := checkDrop(p, h, h.Params[nameIdx], h.Params[frameIdx], fromConst, drop, contains, depth+1)
			verdict, vmsg = &st, "through helper "+h.Name()+": "+m
		})
		if verdict != nil {
			return *verdict, vmsg
		}
	}
	if len(dropCalls) == 0 {
		return Violated, "the column named by the sub-expression's result never reaches a Drop: a temporary column survives in the result of Eval"
	}
	return checkDropCommits(p, fn, reach, frame, fromConst, contains)
}

// checkDropCommits: where the name is put on the drop list in fn, that happens only under `!frame.Contains(name)`.
func checkDropCommits(p *Prog, fn *ssa.Function, reach map[ssa.Value]bool, frame *ssa.Parameter, fromConst bool, contains *ssa.Function) (Status, string) {
	if fromConst {
		return Discharged, "constant expressions always create a temporary column; it is dropped"
	}
	var commits []ssa.Instruction
	eachInstr(fn, func(i2 ssa.Instruction) {
		t, ok := i2.(*ssa.Store)
		if !ok || !reach[t.Val] {
			return
		}
		ia, ok := t.Addr.(*ssa.IndexAddr)
		if !ok {
			return
		}
		al, ok := ia.X.(*ssa.Alloc)
		if !ok {
			return
		}
		if arr, ok := deref(al.Type()).Underlying().(*types.Array); ok {
			if b, ok := arr.Elem().Underlying().(*types.Basic); ok && b.Kind() == types.String {
				if _, isNamed := arr.Elem().(*types.Named); !isNamed {
					commits = append(commits, t)
				}
			}
		}
	})
	bad := ""
	for _, cm := range commits {
		guarded := false
		for _, g := range dominatingGuards(cm.Block()) {
			gc, ok := g.Cond.(*ssa.Call)
			if !ok || gc.Call.StaticCallee() != contains || g.Val {
				continue
			}
			if rootIsParam(gc.Call.Args[0], frame) && reach[gc.Call.Args[1]] {
				guarded = true
			}
		}
		if !guarded {
			bad = p.instrPos(cm)
		}
	}
	switch {
	case len(commits) == 0:
		return Undecided, "cannot find where the name is put on the drop list"
	case bad != "":
		return Violated, fmt.Sprintf("the name is put on the drop list at %s without the test `!%s.Contains(name)` on the original frame: when the sub-expression is a plain column reference the user's own column is dropped", bad, frame.Name())
	}
	return Discharged, "dropped only if absent from the original frame"
}

// ---- R103: SetFunc files a user function under the arity and operand type of its signature ----

func init() {
	register(&Rule{ID: "R103", Name: "SETFUNC-TABLE", Floor: 20,
		Text: "eval.Context.SetFunc is evaluated (E5, helpers inlined) once per function signature asserted in it, in the world `the dynamic type of fn is that signature`: the function is stored under its name into singleArgs when the signature has one parameter and into doubleArgs when it has two, of the entry of ctx.functions indexed by the function type of the first parameter (int, float64, bool, *string -> FunctionTypeInt/Float/Bool/String); in the world where no signature matches nothing is stored. Eval looks functions up by (operand type, arity, name): a function filed under the wrong pair is `not found`, or is applied to operands of another type",
		Run:  runR103})
}

func runR103(c *Ctx) {
	p := c.P
	fn := p.Func("config/eval", "Context.SetFunc")
	if fn == nil || len(fn.Params) != 3 {
		c.undecided("config/eval.SetFunc", "-", "SetFunc not found")
		return
	}
	tpkg := p.PkgByID[rel("types")]
	constOf := func(pkg *types.Package, name string) (int64, bool) {
		if pkg == nil {
			return 0, false
		}
		cst, ok := pkg.Scope().Lookup(name).(*types.Const)
		if !ok {
			return 0, false
		}
		return constantInt64(cst)
	}
	typConst := map[string]int64{}
	for k, n := range map[string]string{"int": "FunctionTypeInt", "float64": "FunctionTypeFloat", "bool": "FunctionTypeBool", "*string": "FunctionTypeString"} {
		if tpkg == nil {
			break
		}
		if v, ok := constOf(tpkg.Types, n); ok {
			typConst[k] = v
		}
	}
	acOne, ok1 := constOf(fn.Pkg.Pkg, "ArgCountOne")
	acTwo, ok2 := constOf(fn.Pkg.Pkg, "ArgCountTwo")
	if len(typConst) != 4 || !ok1 || !ok2 {
		c.undecided("config/eval.SetFunc|constants", p.pos(fn.Pos()), "the FunctionType / ArgCount constants do not resolve")
		return
	}
	_ = acTwo
	// every signature asserted on the function argument in SetFunc or its helpers
	var sigs []*types.Signature
	seenSig := map[string]bool{}
	var collect func(f *ssa.Function, d int)
	collect = func(f *ssa.Function, d int) {
		if d > 2 {
			return
		}
		eachInstr(f, func(in ssa.Instruction) {
			switch t := in.(type) {
			case *ssa.TypeAssert:
				if sg, ok := t.AssertedType.(*types.Signature); ok && t.CommaOk {
					k := types.TypeString(sg, shortQual)
					if !seenSig[k] {
						seenSig[k] = true
						sigs = append(sigs, sg)
					}
				}
			case *ssa.Call:
				if callee := t.Call.StaticCallee(); callee != nil && callee.Pkg == fn.Pkg && callee != f {
					collect(callee, d+1)
				}
			}
		})
	}
	collect(fn, 0)
	if len(sigs) == 0 {
		c.undecided("config/eval.SetFunc|cases", p.pos(fn.Pos()), "no function signature is accepted")
		return
	}
	// clause (b): SetFunc accepts exactly the function signatures the columns can execute: the ones asserted on
	// the function argument in the column packages' implementations of Column.Apply1 / Apply2
	execSigs := map[string]string{}
	for _, cf := range p.Funcs {
		if cf.Pkg == nil || cf.Signature.Recv() == nil || cf.Name() != "Apply1" && cf.Name() != "Apply2" || !strings.HasPrefix(cf.Pkg.Pkg.Path(), rel("internal/")) {
			continue
		}
		// in the method, or in the helpers of its package it hands the function value to
		var scan func(f *ssa.Function, d int)
		seenF := map[*ssa.Function]bool{}
		scan = func(f *ssa.Function, d int) {
			if f == nil || f.Blocks == nil || d > 2 || seenF[f] {
				return
			}
			seenF[f] = true
			eachInstr(f, func(in ssa.Instruction) {
				switch t := in.(type) {
				case *ssa.TypeAssert:
					if sg, ok := t.AssertedType.(*types.Signature); ok && t.CommaOk {
						execSigs[types.TypeString(sg, shortQual)] = fname(cf)
					}
				case *ssa.Call:
					if g := t.Call.StaticCallee(); g != nil && g.Pkg == cf.Pkg {
						for _, a := range t.Call.Args {
							if _, isIface := a.Type().Underlying().(*types.Interface); isIface {
								scan(g, d+1)
								break
							}
						}
					}
				}
			})
		}
		scan(cf, 0)
	}
	if len(execSigs) == 0 {
		c.undecided("config/eval.SetFunc|executable signatures", p.pos(fn.Pos()), "no Apply1/Apply2 implementation with asserted function signatures found")
	} else {
		var names []string
		for k := range execSigs {
			names = append(names, k)
		}
		sort.Strings(names)
		for _, k := range names {
			key := "config/eval.SetFunc|registers " + k
			if seenSig[k] {
				c.ok(key, p.pos(fn.Pos()), "executable by "+execSigs[k]+" and accepted by SetFunc")
			} else {
				c.bad(key, p.pos(fn.Pos()), fmt.Sprintf("%s executes functions of type %s but SetFunc does not accept that type: such a user function can never be registered in an evaluation context and used in Eval", execSigs[k], k))
			}
		}
		for _, sg := range sigs {
			k := types.TypeString(sg, shortQual)
			if _, ok := execSigs[k]; !ok {
				c.bad("config/eval.SetFunc|executes "+k, p.pos(fn.Pos()), fmt.Sprintf("SetFunc accepts functions of type %s but no column's Apply1/Apply2 executes that type: Eval fails when the function is applied", k))
			}
		}
	}
	eval := func(world *types.Signature) (field string, typ int64, stored bool, why string) {
		pe := &pathExec{fn: fn, maxStep: 2000}
		atom := func(x ssa.Value) (bool, bool) {
			switch t := x.(type) {
			case *ssa.Extract:
				if ta, ok := t.Tuple.(*ssa.TypeAssert); ok && ta.CommaOk && t.Index == 1 {
					return world != nil && types.Identical(ta.AssertedType, world), true
				}
			case *ssa.BinOp:
				if isErrorType(t.X.Type()) {
					if cst, ok := t.Y.(*ssa.Const); ok && cst.IsNil() {
						return t.Op == token.EQL, true // the name is legal
					}
				}
				x1, ok1 := pe.intOf(t.X, 0)
				y1, ok2 := pe.intOf(t.Y, 0)
				if ok1 && ok2 {
					switch t.Op {
					case token.EQL:
						return x1 == y1, true
					case token.NEQ:
						return x1 != y1, true
					}
				}
			}
			return false, false
		}
		pe.oracle = func(pe *pathExec, cond ssa.Value) (bool, bool) { return pe.evalBool(cond, atom) }
		pe.inline = func(callee *ssa.Function) bool { return callee.Pkg == fn.Pkg }
		typ = -1
		pe.onInstr = func(pe *pathExec, in ssa.Instruction) {
			mu, ok := in.(*ssa.MapUpdate)
			if !ok || pe.resolve(mu.Value) != ssa.Value(fn.Params[2]) && pe.resolve(mu.Value) != pe.resolve(fn.Params[2]) {
				return
			}
			stored = true
			m := pe.resolve(mu.Map)
			// the map is field singleArgs / doubleArgs of functions[typ]
			var holder ssa.Value
			switch t := m.(type) {
			case *ssa.Field:
				field = t.X.Type().Underlying().(*types.Struct).Field(t.Field).Name()
				holder = t.X
			case *ssa.UnOp:
				if fa, ok := t.X.(*ssa.FieldAddr); ok {
					field = fieldNameAt(fa)
					holder = fa.X
				}
			}
			for d := 0; d < 6 && holder != nil; d++ {
				holder = pe.resolve(holder)
				switch t := holder.(type) {
				case *ssa.Lookup:
					if k, ok := pe.intOf(t.Index, 0); ok {
						typ = k
					}
					holder = nil
				case *ssa.UnOp:
					holder = t.X
				case *ssa.Alloc:
					holder = singleDef(t)
				default:
					holder = nil
				}
			}
		}
		end, w := pe.run()
		if _, ok := end.(*ssa.Return); !ok {
			why = w
		}
		return
	}
	for _, sg := range sigs {
		key := "config/eval.SetFunc|case " + types.TypeString(sg, shortQual)
		field, typ, stored, why := eval(sg)
		wantField := "doubleArgs"
		if sg.Params().Len() == 1 {
			wantField = "singleArgs"
		}
		wantTyp, okW := typConst[types.TypeString(sg.Params().At(0).Type(), shortQual)]
		switch {
		case why != "":
			c.undecided(key, p.pos(fn.Pos()), "cannot evaluate: "+why)
		case !okW:
			c.bad(key, p.pos(fn.Pos()), "a signature whose first parameter is not int, float64, bool or *string is accepted")
		case !stored:
			c.bad(key, p.pos(fn.Pos()), "a function of this signature is accepted but stored nowhere: Eval will not find it")
		case field != wantField:
			c.bad(key, p.pos(fn.Pos()), fmt.Sprintf("a function of %d parameter(s) is stored into %s, not %s", sg.Params().Len(), field, wantField))
		case typ != wantTyp:
			c.bad(key, p.pos(fn.Pos()), fmt.Sprintf("a function over %s is filed under function type %d, not %d", sg.Params().At(0).Type(), typ, wantTyp))
		default:
			c.ok(key, p.pos(fn.Pos()), "stored into "+field+" of the operand type of its signature")
		}
	}
	// no signature matches: nothing is stored
	{
		key := "config/eval.SetFunc|unsupported signature"
		_, _, stored, why := eval(nil)
		switch {
		case why != "":
			c.undecided(key, p.pos(fn.Pos()), "cannot evaluate: "+why)
		case stored:
			c.bad(key, p.pos(fn.Pos()), "a function of an unsupported signature is stored in the context")
		default:
			c.ok(key, p.pos(fn.Pos()), "rejected, nothing stored")
		}
	}
	_ = acOne
}

func constantInt64(c *types.Const) (int64, bool) {
	v, ok := constantToInt64(c.Val())
	return v, ok
}

// blockReachesOnlyVia: from reaches phiBlock only through pred (a straight chain of jumps from `from` to pred).
func blockReachesOnlyVia(from, pred, phiBlock *ssa.BasicBlock) bool {
	b := from
	for i := 0; i < 8; i++ {
		if b == pred {
			return true
		}
		if len(b.Succs) != 1 {
			return false
		}
		b = b.Succs[0]
	}
	return false
}

// ---- R105: list-form expressions are decoded by their length and the operation is the first element ----

func init() {
	register(&Rule{ID: "R105", Name: "LIST-SHAPE", Floor: 3,
		Text: "in every constructor of the root package that decodes a list-form expression (`l, ok := x.([]interface{})` under a test `len(l) == k`): the constant indexes at which l is read under that test are exactly 0..k-1 (a list of another length is malformed and must not be accepted), and the element handed to opIdentifier (the function name) is l[0]",
		Run:  runR105})
}

func runR105(c *Ctx) {
	p := c.P
	for _, fn := range p.FuncsIn("") {
		if fn.Parent() != nil {
			continue
		}
		var list ssa.Value
		eachInstr(fn, func(in ssa.Instruction) {
			if ta, ok := in.(*ssa.TypeAssert); ok && ta.CommaOk {
				if sl, isSl := ta.AssertedType.Underlying().(*types.Slice); isSl {
					if _, isIf := sl.Elem().Underlying().(*types.Interface); isIf {
						for _, r := range *ta.Referrers() {
							if ex, ok := r.(*ssa.Extract); ok && ex.Index == 0 {
								list = ex
							}
						}
					}
				}
			}
		})
		if list == nil {
			continue
		}
		// the length test
		var k int64 = -1
		eachInstr(fn, func(in ssa.Instruction) {
			b, ok := in.(*ssa.BinOp)
			if !ok || b.Op != token.EQL && b.Op != token.NEQ {
				return
			}
			call, ok := b.X.(*ssa.Call)
			if !ok || builtinName(call) != "len" || call.Call.Args[0] != list {
				return
			}
			if v, isK := constInt(b.Y); isK && v > k {
				k = v // several accepted lengths (2 or 3): the longest governs which elements may be read
			}
		})
		if k < 0 {
			continue
		}
		fnm := fname(fn)
		used := map[int64]bool{}
		opIdx := int64(-1)
		opSeen := false
		eachInstr(fn, func(in ssa.Instruction) {
			ia, ok := in.(*ssa.IndexAddr)
			if !ok || ia.X != list {
				return
			}
			idx, isK := constInt(ia.Index)
			if !isK {
				return
			}
			used[idx] = true
			for _, r := range *ia.Referrers() {
				if ld, ok := r.(*ssa.UnOp); ok {
					for _, r2 := range *ld.Referrers() {
						if call, ok := r2.(*ssa.Call); ok {
							if callee := call.Call.StaticCallee(); callee != nil && callee.Name() == "opIdentifier" {
								opIdx, opSeen = idx, true
							}
						}
					}
				}
			}
		})
		if len(used) == 0 {
			continue
		}
		key := fnm + "|list shape"
		var idxs []int
		for i := range used {
			idxs = append(idxs, int(i))
		}
		sort.Ints(idxs)
		okShape := int64(len(idxs)) == k
		for i, v := range idxs {
			if v != i {
				okShape = false
			}
		}
		switch {
		case !okShape:
			c.bad(key, p.pos(fn.Pos()), fmt.Sprintf("lists of length %d are accepted but the elements read are %v: a list of the wrong length is taken for a well-formed expression, or an element is ignored", k, idxs))
		case opSeen && opIdx != 0:
			c.bad(key, p.pos(fn.Pos()), fmt.Sprintf("the operation name is taken from element %d of the list; it is the first element", opIdx))
		default:
			c.ok(key, p.pos(fn.Pos()), fmt.Sprintf("length %d, elements 0..%d read, operation from element 0", k, k-1))
		}
	}
}
