package main

import (
	"fmt"
	"go/ast"
	"go/token"
	"go/types"
	"os"
	"path/filepath"
	"sort"
	"strings"

	"golang.org/x/tools/go/callgraph"
	"golang.org/x/tools/go/callgraph/cha"
	"golang.org/x/tools/go/callgraph/vta"
	"golang.org/x/tools/go/packages"
	"golang.org/x/tools/go/ssa"
	"golang.org/x/tools/go/ssa/ssautil"
)

const modPath = "github.com/tobgu/qframe"

// outOfScope lists packages of the module no property anchors (generators, plotting).
var outOfScope = []string{
	modPath + "/cmd/qfgenerate",
	modPath + "/contrib/gonum/qplot",
	modPath + "/internal/template",
	modPath + "/internal/qframe/generator",
}

// Prog is the loaded, type-checked program under analysis.
type Prog struct {
	Dir     string
	Fset    *token.FileSet
	Pkgs    []*packages.Package          // module packages in scope
	PkgByID map[string]*packages.Package // by import path (all loaded, deps included)
	SSA     *ssa.Program
	Funcs   []*ssa.Function // all source functions (incl. anonymous) of in-scope module packages, sorted
	cg      *callgraph.Graph
	res     *callResolver
	idx     *idxFacts
	pur     *purityResult
	nInstr  int
}

// loadProg loads dir (a checkout of the module) with optional overlay.
func loadProg(dir string, overlay map[string][]byte) (*Prog, error) {
	fset := token.NewFileSet()
	cfg := &packages.Config{
		Mode:    packages.LoadAllSyntax,
		Dir:     dir,
		Fset:    fset,
		Tests:   false,
		Overlay: overlay,
		Env: append(os.Environ(), "GOFLAGS=-mod=mod", "GOPROXY=off", "GOSUMDB=off",
			"GOTOOLCHAIN=local", "GOWORK=off"),
	}
	pkgs, err := packages.Load(cfg, "./...")
	if err != nil {
		return nil, fmt.Errorf("packages.Load: %v", err)
	}
	if len(pkgs) == 0 {
		return nil, fmt.Errorf("no packages loaded from %s", dir)
	}
	p := &Prog{Dir: dir, Fset: fset, PkgByID: map[string]*packages.Package{}}
	var errs []string
	packages.Visit(pkgs, nil, func(pk *packages.Package) {
		p.PkgByID[pk.PkgPath] = pk
		if strings.HasPrefix(pk.PkgPath, modPath) {
			for _, e := range pk.Errors {
				errs = append(errs, e.Error())
			}
		}
	})
	if len(errs) > 0 {
		return nil, fmt.Errorf("type/load errors in module: %s", strings.Join(errs, "; "))
	}
	for _, pk := range pkgs {
		if !strings.HasPrefix(pk.PkgPath, modPath) {
			continue
		}
		skip := false
		for _, o := range outOfScope {
			if pk.PkgPath == o || strings.HasPrefix(pk.PkgPath, o+"/") {
				skip = true
			}
		}
		if !skip {
			p.Pkgs = append(p.Pkgs, pk)
		}
	}
	if len(p.Pkgs) == 0 {
		return nil, fmt.Errorf("no in-scope packages of %s found in %s", modPath, dir)
	}
	sort.Slice(p.Pkgs, func(i, j int) bool { return p.Pkgs[i].PkgPath < p.Pkgs[j].PkgPath })

	prog, _ := ssautil.AllPackages(pkgs, ssa.InstantiateGenerics)
	prog.Build()
	p.SSA = prog

	inScope := map[*types.Package]bool{}
	for _, pk := range p.Pkgs {
		inScope[pk.Types] = true
	}
	for fn := range ssautil.AllFunctions(prog) {
		if fn.Synthetic != "" || fn.Blocks == nil {
			continue
		}
		if fn.Pkg == nil || !inScope[fn.Pkg.Pkg] {
			continue
		}
		p.Funcs = append(p.Funcs, fn)
		for _, b := range fn.Blocks {
			p.nInstr += len(b.Instrs)
		}
	}
	sort.Slice(p.Funcs, func(i, j int) bool {
		a, b := p.Funcs[i], p.Funcs[j]
		if a.Pkg.Pkg.Path() != b.Pkg.Pkg.Path() {
			return a.Pkg.Pkg.Path() < b.Pkg.Pkg.Path()
		}
		if a.String() != b.String() {
			return a.String() < b.String()
		}
		return a.Pos() < b.Pos()
	})
	return p, nil
}

// CallGraph returns the VTA call graph seeded with CHA (built lazily).
func (p *Prog) CallGraph() *callgraph.Graph {
	if p.cg == nil {
		p.cg = vta.CallGraph(ssautil.AllFunctions(p.SSA), cha.CallGraph(p.SSA))
	}
	return p.cg
}

// rel turns "internal/index" into the full import path; "" is the root package.
func rel(r string) string {
	if r == "" || r == "." {
		return modPath
	}
	return modPath + "/" + r
}

func (p *Prog) SSAPkg(r string) *ssa.Package {
	pk := p.PkgByID[rel(r)]
	if pk == nil {
		return nil
	}
	return p.SSA.Package(pk.Types)
}

// Named returns the named type pkg.name or nil.
func (p *Prog) Named(r, name string) *types.Named {
	pk := p.PkgByID[rel(r)]
	if pk == nil || pk.Types == nil {
		return nil
	}
	o := pk.Types.Scope().Lookup(name)
	if o == nil {
		return nil
	}
	n, _ := o.Type().(*types.Named)
	return n
}

// Func finds a package-level function ("lt") or a method ("Column.Filter", value or pointer receiver).
func (p *Prog) Func(r, name string) *ssa.Function {
	sp := p.SSAPkg(r)
	if sp == nil {
		return nil
	}
	if i := strings.Index(name, "."); i >= 0 {
		tn, mn := name[:i], name[i+1:]
		n := p.Named(r, tn)
		if n == nil {
			return nil
		}
		for _, t := range []types.Type{n, types.NewPointer(n)} {
			sel := p.SSA.MethodSets.MethodSet(t).Lookup(sp.Pkg, mn)
			if sel != nil {
				fn := p.SSA.MethodValue(sel)
				if fn != nil && fn.Synthetic == "" {
					return fn
				}
			}
		}
		return nil
	}
	return sp.Func(name)
}

// FuncsIn returns the source functions (incl. anonymous) of one package.
func (p *Prog) FuncsIn(r string) []*ssa.Function {
	var out []*ssa.Function
	for _, f := range p.Funcs {
		if f.Pkg.Pkg.Path() == rel(r) {
			out = append(out, f)
		}
	}
	return out
}

func (p *Prog) pos(pos token.Pos) string {
	if !pos.IsValid() {
		return "-"
	}
	ps := p.Fset.Position(pos)
	f := ps.Filename
	if r, err := filepath.Rel(p.Dir, f); err == nil && !strings.HasPrefix(r, "..") {
		f = r
	}
	return fmt.Sprintf("%s:%d", f, ps.Line)
}

// instrPos returns the best position for an instruction (falls back to the enclosing function).
func (p *Prog) instrPos(in ssa.Instruction) string {
	if in.Pos().IsValid() {
		return p.pos(in.Pos())
	}
	if v, ok := in.(ssa.Value); ok {
		for _, r := range *v.Referrers() {
			if r.Pos().IsValid() {
				return p.pos(r.Pos())
			}
		}
	}
	return p.pos(in.Parent().Pos())
}

// fname is a stable, line-free name for a function: pkgrel.(Recv).Name or pkgrel.Name$1
func fname(fn *ssa.Function) string {
	if fn == nil {
		return "<nil>"
	}
	s := fn.String()
	s = strings.ReplaceAll(s, modPath+"/", "")
	s = strings.ReplaceAll(s, modPath+".", "qframe.")
	s = strings.ReplaceAll(s, modPath, "qframe")
	return s
}

// fileOf returns the *ast.File containing pos within in-scope packages.
func (p *Prog) fileOf(pos token.Pos) (*packages.Package, *ast.File) {
	for _, pk := range p.Pkgs {
		for _, f := range pk.Syntax {
			if f.Pos() <= pos && pos <= f.End() {
				return pk, f
			}
		}
	}
	return nil, nil
}

func isNamed(t types.Type, path, name string) bool {
	n, ok := t.(*types.Named)
	if !ok {
		return false
	}
	o := n.Obj()
	return o.Name() == name && o.Pkg() != nil && o.Pkg().Path() == path
}

func deref(t types.Type) types.Type {
	if p, ok := t.Underlying().(*types.Pointer); ok {
		return p.Elem()
	}
	return t
}
