package main

import (
	"fmt"
	"go/ast"
	"go/token"
	"go/types"
	"os"
	"path/filepath"
	"sort"
	"strings"

	"golang.org/x/tools/go/callgraph"
	"golang.org/x/tools/go/callgraph/cha"
	"golang.org/x/tools/go/callgraph/vta"
	"golang.org/x/tools/go/packages"
	"golang.org/x/tools/go/ssa"
	"golang.org/x/tools/go/ssa/ssautil"
)

const modPath = "github.com/tobgu/qframe"

// outOfScope lists packages of the module no property anchors (generators, plotting).
var outOfScope = []string{
	modPath + "/cmd/qfgenerate",
	modPath + "/contrib/gonum/qplot",
	modPath + "/internal/template",
	modPath + "/internal/qframe/generator",
}

// Prog is the loaded, type-checked program under analysis.
type Prog struct {
	Dir        string
	Fset       *token.FileSet
	Pkgs       []*packages.Package          // module packages in scope
	PkgByID    map[string]*packages.Package // by import path (all loaded, deps included)
	SSA        *ssa.Program
	Funcs      []*ssa.Function // all live source functions (incl. anonymous) of in-scope module packages, sorted
	Dead       []*ssa.Function // source functions of in-scope packages that nothing reachable mentions
	cg         *callgraph.Graph
	res        *callResolver
	idx        *idxFacts
	pur        *purityResult
	nInstr     int
	sites      map[*ssa.Function][]ssa.CallInstruction
	asValue    map[*ssa.Function]bool
	funcTables map[*ssa.Global]map[int64]*ssa.Function
}

// loadProg loads dir (a checkout of the module) with optional overlay.
func loadProg(dir string, overlay map[string][]byte) (*Prog, error) {
	fset := token.NewFileSet()
	cfg := &packages.Config{
		Mode:    packages.LoadAllSyntax,
		Dir:     dir,
		Fset:    fset,
		Tests:   false,
		Overlay: overlay,
		Env: append(os.Environ(), "GOFLAGS=-mod=mod", "GOPROXY=off", "GOSUMDB=off",
			"GOTOOLCHAIN=local", "GOWORK=off"),
	}
	pkgs, err := packages.Load(cfg, "./...")
	if err != nil {
		return nil, fmt.Errorf("packages.Load: %v", err)
	}
	if len(pkgs) == 0 {
		return nil, fmt.Errorf("no packages loaded from %s", dir)
	}
	p := &Prog{Dir: dir, Fset: fset, PkgByID: map[string]*packages.Package{}}
	var errs []string
	packages.Visit(pkgs, nil, func(pk *packages.Package) {
		p.PkgByID[pk.PkgPath] = pk
		if strings.HasPrefix(pk.PkgPath, modPath) {
			for _, e := range pk.Errors {
				errs = append(errs, e.Error())
			}
		}
	})
	if len(errs) > 0 {
		return nil, fmt.Errorf("type/load errors in module: %s", strings.Join(errs, "; "))
	}
	for _, pk := range pkgs {
		if !strings.HasPrefix(pk.PkgPath, modPath) {
			continue
		}
		skip := false
		for _, o := range outOfScope {
			if pk.PkgPath == o || strings.HasPrefix(pk.PkgPath, o+"/") {
				skip = true
			}
		}
		if !skip {
			p.Pkgs = append(p.Pkgs, pk)
		}
	}
	if len(p.Pkgs) == 0 {
		return nil, fmt.Errorf("no in-scope packages of %s found in %s", modPath, dir)
	}
	sort.Slice(p.Pkgs, func(i, j int) bool { return p.Pkgs[i].PkgPath < p.Pkgs[j].PkgPath })

	prog, _ := ssautil.AllPackages(pkgs, ssa.InstantiateGenerics)
	prog.Build()
	p.SSA = prog

	inScope := map[*types.Package]bool{}
	for _, pk := range p.Pkgs {
		inScope[pk.Types] = true
	}
	for fn := range ssautil.AllFunctions(prog) {
		if fn.Synthetic != "" || fn.Blocks == nil {
			continue
		}
		if fn.Pkg != nil && strings.HasPrefix(fn.Pkg.Pkg.Path(), modPath) {
			canonicalizeComparisons(fn)
		}
		if fn.Pkg == nil || !inScope[fn.Pkg.Pkg] {
			continue
		}
		p.Funcs = append(p.Funcs, fn)
		for _, b := range fn.Blocks {
			p.nInstr += len(b.Instrs)
		}
	}
	p.dropDeadFuncs()
	sort.Slice(p.Funcs, func(i, j int) bool {
		a, b := p.Funcs[i], p.Funcs[j]
		if a.Pkg.Pkg.Path() != b.Pkg.Pkg.Path() {
			return a.Pkg.Pkg.Path() < b.Pkg.Pkg.Path()
		}
		if a.String() != b.String() {
			return a.String() < b.String()
		}
		return a.Pos() < b.Pos()
	})
	return p, nil
}

// canonicalizeComparisons rewrites, in place, every comparison whose left operand is more argument-like than its
// right one (`nil == err`, `0 < n`, `comp > cell`) into the mirrored form (`err == nil`, `n > 0`, `cell < comp`).
// The two spellings mean the same; the rules are written against the second. Operands, and therefore referrer lists,
// stay the same set.
func canonicalizeComparisons(fn *ssa.Function) {
	flip := map[token.Token]token.Token{token.EQL: token.EQL, token.NEQ: token.NEQ, token.LSS: token.GTR, token.GTR: token.LSS, token.LEQ: token.GEQ, token.GEQ: token.LEQ}
	for _, b := range fn.Blocks {
		for _, in := range b.Instrs {
			bo, ok := in.(*ssa.BinOp)
			if !ok {
				continue
			}
			op, isCmp := flip[bo.Op]
			if !isCmp {
				continue
			}
			// rank: a constant is the most argument-like operand, then a parameter (possibly converted), then anything
			// computed or loaded (a cell, a length, a counter); the more argument-like operand goes to the right, so
			// `comp > column[index[i]]` reads `column[index[i]] < comp` and `nil == err` reads `err == nil`
			if cmpRank(bo.X) > cmpRank(bo.Y) {
				bo.X, bo.Y, bo.Op = bo.Y, bo.X, op
			}
		}
	}
	for _, af := range fn.AnonFuncs {
		canonicalizeComparisons(af)
	}
}

func cmpRank(v ssa.Value) int {
	for {
		switch t := v.(type) {
		case *ssa.Convert:
			v = t.X
			continue
		case *ssa.ChangeType:
			v = t.X
			continue
		}
		break
	}
	switch t := v.(type) {
	case *ssa.Const:
		return 4
	case *ssa.Parameter:
		return 3
	case *ssa.Call:
		// a length is a bound: `len(x) > i` reads `i < len(x)`
		if b, ok := t.Call.Value.(*ssa.Builtin); ok && (b.Name() == "len" || b.Name() == "cap") {
			return 2
		}
	case *ssa.UnOp:
		// a package-level value (io.EOF) is constant-like: `io.EOF == err` reads `err == io.EOF`
		if _, ok := t.X.(*ssa.Global); ok && t.Op == token.MUL {
			return 2
		}
	case *ssa.Phi:
		// a loop counter is what is being tested: `n > i` reads `i < n`
		return 0
	case *ssa.BinOp:
		// arithmetic on a bound is a bound (`len(s)+4`), but no more than that
		switch t.Op {
		case token.ADD, token.SUB, token.MUL, token.QUO:
			r := 1
			for _, o := range []ssa.Value{t.X, t.Y} {
				if k := cmpRank(o); k >= 2 && r < 2 {
					if _, isConst := o.(*ssa.Const); !isConst {
						r = 2
					}
				}
			}
			return r
		}
	}
	return 1
}

// dropDeadFuncs removes from p.Funcs the functions no user of the library can reach: roots are every method
// (it may be invoked through an interface or on a value handed to the user), every exported function of a
// non-internal package and the package initialisers; a function is live when a live function mentions it (as a
// callee or as a value). What remains dead - exported helpers of internal packages nobody calls, the entry
// points of the out-of-scope code generators - has no behaviour a property could speak about.
func (p *Prog) dropDeadFuncs() {
	live := map[*ssa.Function]bool{}
	var work []*ssa.Function
	mark := func(f *ssa.Function) {
		if f != nil && !live[f] {
			live[f] = true
			work = append(work, f)
		}
	}
	for _, pk := range p.Pkgs {
		if sp := p.SSA.Package(pk.Types); sp != nil {
			mark(sp.Func("init"))
		}
	}
	for _, fn := range p.Funcs {
		if fn.Parent() != nil {
			continue
		}
		if fn.Signature.Recv() != nil {
			mark(fn)
			continue
		}
		path := fn.Pkg.Pkg.Path()
		internal := strings.Contains(path+"/", "/internal/")
		if !internal && token.IsExported(fn.Name()) || fn.Name() == "init" || strings.HasPrefix(fn.Name(), "init#") || fn.Name() == "main" {
			mark(fn)
		}
	}
	for len(work) > 0 {
		fn := work[len(work)-1]
		work = work[:len(work)-1]
		for _, af := range fn.AnonFuncs {
			mark(af)
		}
		for _, b := range fn.Blocks {
			for _, in := range b.Instrs {
				var ops []*ssa.Value
				for _, op := range in.Operands(ops) {
					if op == nil || *op == nil {
						continue
					}
					switch t := (*op).(type) {
					case *ssa.Function:
						mark(t)
					case *ssa.MakeClosure:
						if f, ok := t.Fn.(*ssa.Function); ok {
							mark(f)
						}
					}
				}
			}
		}
	}
	var keep []*ssa.Function
	for _, fn := range p.Funcs {
		if live[fn] {
			keep = append(keep, fn)
		} else {
			p.Dead = append(p.Dead, fn)
			for _, b := range fn.Blocks {
				p.nInstr -= len(b.Instrs)
			}
		}
	}
	p.Funcs = keep
	p.dropJSONDeadFuncs()
	if os.Getenv("QF_LIST_DEAD") != "" {
		for _, fn := range p.Dead {
			fmt.Fprintln(os.Stderr, "dead:", fn.String(), p.pos(fn.Pos()))
		}
	}
}

// dropJSONDeadFuncs: encoding/json decodes into interface{} only nil, bool, float64, string, []interface{} and
// map[string]interface{} (and json.Number on request). Where a function receives records whose every caller
// filled them by json.Decoder.Decode / json.Unmarshal and nothing else, the branch of a type switch on a record
// value that asserts any other type (the `case int` of jsonRecordsToData) never runs, and a function called only
// from such branches (fillInts) is as dead as one nobody mentions.
func (p *Prog) dropJSONDeadFuncs() {
	isJSONRecords := func(t types.Type) bool {
		sl, ok := t.Underlying().(*types.Slice)
		if !ok {
			return false
		}
		m, ok := sl.Elem().Underlying().(*types.Map)
		if !ok {
			return false
		}
		_, isIface := m.Elem().Underlying().(*types.Interface)
		return isIface
	}
	jsonType := func(t types.Type) bool {
		switch u := t.Underlying().(type) {
		case *types.Basic:
			return u.Kind() == types.Bool || u.Kind() == types.Float64 || u.Kind() == types.String || u.Kind() == types.UntypedNil
		case *types.Slice, *types.Map, *types.Interface:
			return true
		}
		return false
	}
	callersOf := map[*ssa.Function][]*ssa.Call{}
	valueUse := map[*ssa.Function]bool{}
	for _, fn := range p.Funcs {
		eachInstr(fn, func(in ssa.Instruction) {
			var ops []*ssa.Value
			for i, op := range in.Operands(ops) {
				if op == nil || *op == nil {
					continue
				}
				if f, ok := (*op).(*ssa.Function); ok {
					if call, isCall := in.(*ssa.Call); isCall && i == 0 && call.Call.Value == *op {
						callersOf[f] = append(callersOf[f], call)
					} else {
						valueUse[f] = true
					}
				}
			}
		})
	}
	filledByJSONOnly := func(arg ssa.Value) bool {
		ld, ok := arg.(*ssa.UnOp)
		if !ok || ld.Op != token.MUL {
			return false
		}
		al, ok := ld.X.(*ssa.Alloc)
		if !ok {
			return false
		}
		decoded := false
		for _, r := range *al.Referrers() {
			switch t := r.(type) {
			case *ssa.UnOp:
			case *ssa.DebugRef:
			case *ssa.MakeInterface:
				for _, r2 := range *t.Referrers() {
					call, ok := r2.(*ssa.Call)
					if !ok {
						return false
					}
					o := calleeObj(call)
					if o == nil || o.Pkg() == nil || o.Pkg().Path() != "encoding/json" || o.Name() != "Decode" && o.Name() != "Unmarshal" {
						return false
					}
					decoded = true
				}
			case *ssa.Store:
				// only the zero initialisation of the variable
				if t.Addr != ssa.Value(al) {
					return false
				}
				if c, ok := t.Val.(*ssa.Const); !ok || !c.IsNil() {
					return false
				}
			default:
				return false
			}
		}
		return decoded
	}
	deadSite := map[*ssa.Call]bool{}
	for _, fn := range p.Funcs {
		var recs *ssa.Parameter
		for _, prm := range fn.Params {
			if isJSONRecords(prm.Type()) {
				recs = prm
			}
		}
		if recs == nil || valueUse[fn] || len(callersOf[fn]) == 0 {
			continue
		}
		okAll := true
		for _, call := range callersOf[fn] {
			idx := -1
			for i, prm := range fn.Params {
				if prm == recs {
					idx = i
				}
			}
			if idx < 0 || idx >= len(call.Call.Args) || !filledByJSONOnly(call.Call.Args[idx]) {
				okAll = false
			}
		}
		if !okAll {
			continue
		}
		var fromRecs func(v ssa.Value, d int) bool
		fromRecs = func(v ssa.Value, d int) bool {
			if d > 10 || v == nil {
				return false
			}
			switch t := v.(type) {
			case *ssa.Parameter:
				return t == recs
			case *ssa.Extract:
				return fromRecs(t.Tuple, d+1)
			case *ssa.Next:
				return fromRecs(t.Iter, d+1)
			case *ssa.Range:
				return fromRecs(t.X, d+1)
			case *ssa.Lookup:
				return fromRecs(t.X, d+1)
			case *ssa.UnOp:
				return t.Op == token.MUL && fromRecs(t.X, d+1)
			case *ssa.IndexAddr:
				return fromRecs(t.X, d+1)
			case *ssa.Index:
				return fromRecs(t.X, d+1)
			}
			return false
		}
		for _, b := range fn.Blocks {
			iff, ok := b.Instrs[len(b.Instrs)-1].(*ssa.If)
			if !ok {
				continue
			}
			ex, ok := iff.Cond.(*ssa.Extract)
			if !ok || ex.Index != 1 {
				continue
			}
			ta, ok := ex.Tuple.(*ssa.TypeAssert)
			if !ok || jsonType(ta.AssertedType) || !fromRecs(ta.X, 0) {
				continue
			}
			dead := b.Succs[0]
			if len(dead.Preds) != 1 {
				continue
			}
			for _, d := range fn.Blocks {
				if dead.Dominates(d) {
					for _, in := range d.Instrs {
						if call, ok := in.(*ssa.Call); ok {
							deadSite[call] = true
						}
					}
				}
			}
		}
	}
	if len(deadSite) == 0 {
		return
	}
	var keep []*ssa.Function
	for _, fn := range p.Funcs {
		root := fn
		for root.Parent() != nil {
			root = root.Parent()
		}
		dead := len(callersOf[root]) > 0 && !valueUse[root] && root.Signature.Recv() == nil && !token.IsExported(root.Name())
		for _, call := range callersOf[root] {
			if !deadSite[call] {
				dead = false
			}
		}
		if dead {
			p.Dead = append(p.Dead, fn)
			for _, b := range fn.Blocks {
				p.nInstr -= len(b.Instrs)
			}
		} else {
			keep = append(keep, fn)
		}
	}
	p.Funcs = keep
}

// CallGraph returns the VTA call graph seeded with CHA (built lazily).
func (p *Prog) CallGraph() *callgraph.Graph {
	if p.cg == nil {
		p.cg = vta.CallGraph(ssautil.AllFunctions(p.SSA), cha.CallGraph(p.SSA))
	}
	return p.cg
}

// rel turns "internal/index" into the full import path; "" is the root package.
func rel(r string) string {
	if r == "" || r == "." {
		return modPath
	}
	return modPath + "/" + r
}

func (p *Prog) SSAPkg(r string) *ssa.Package {
	pk := p.PkgByID[rel(r)]
	if pk == nil {
		return nil
	}
	return p.SSA.Package(pk.Types)
}

// Named returns the named type pkg.name or nil.
func (p *Prog) Named(r, name string) *types.Named {
	pk := p.PkgByID[rel(r)]
	if pk == nil || pk.Types == nil {
		return nil
	}
	o := pk.Types.Scope().Lookup(name)
	if o == nil {
		return nil
	}
	n, _ := o.Type().(*types.Named)
	return n
}

// Func finds a package-level function ("lt") or a method ("Column.Filter", value or pointer receiver).
func (p *Prog) Func(r, name string) *ssa.Function {
	sp := p.SSAPkg(r)
	if sp == nil {
		return nil
	}
	if i := strings.Index(name, "."); i >= 0 {
		tn, mn := name[:i], name[i+1:]
		n := p.Named(r, tn)
		if n == nil {
			return nil
		}
		for _, t := range []types.Type{n, types.NewPointer(n)} {
			sel := p.SSA.MethodSets.MethodSet(t).Lookup(sp.Pkg, mn)
			if sel != nil {
				fn := p.SSA.MethodValue(sel)
				if fn != nil && fn.Synthetic == "" {
					return fn
				}
			}
		}
		return nil
	}
	return sp.Func(name)
}

// FuncsIn returns the source functions (incl. anonymous) of one package.
func (p *Prog) FuncsIn(r string) []*ssa.Function {
	var out []*ssa.Function
	for _, f := range p.Funcs {
		if f.Pkg.Pkg.Path() == rel(r) {
			out = append(out, f)
		}
	}
	return out
}

func (p *Prog) pos(pos token.Pos) string {
	if !pos.IsValid() {
		return "-"
	}
	ps := p.Fset.Position(pos)
	f := ps.Filename
	if r, err := filepath.Rel(p.Dir, f); err == nil && !strings.HasPrefix(r, "..") {
		f = r
	}
	return fmt.Sprintf("%s:%d", f, ps.Line)
}

// instrPos returns the best position for an instruction (falls back to the enclosing function).
func (p *Prog) instrPos(in ssa.Instruction) string {
	if in.Pos().IsValid() {
		return p.pos(in.Pos())
	}
	if v, ok := in.(ssa.Value); ok {
		for _, r := range *v.Referrers() {
			if r.Pos().IsValid() {
				return p.pos(r.Pos())
			}
		}
	}
	return p.pos(in.Parent().Pos())
}

// fname is a stable, line-free name for a function: pkgrel.(Recv).Name or pkgrel.Name$1
func fname(fn *ssa.Function) string {
	if fn == nil {
		return "<nil>"
	}
	s := fn.String()
	s = strings.ReplaceAll(s, modPath+"/", "")
	s = strings.ReplaceAll(s, modPath+".", "qframe.")
	s = strings.ReplaceAll(s, modPath, "qframe")
	return s
}

// fileOf returns the *ast.File containing pos within in-scope packages.
func (p *Prog) fileOf(pos token.Pos) (*packages.Package, *ast.File) {
	for _, pk := range p.Pkgs {
		for _, f := range pk.Syntax {
			if f.Pos() <= pos && pos <= f.End() {
				return pk, f
			}
		}
	}
	return nil, nil
}

func isNamed(t types.Type, path, name string) bool {
	n, ok := t.(*types.Named)
	if !ok {
		return false
	}
	o := n.Obj()
	return o.Name() == name && o.Pkg() != nil && o.Pkg().Path() == path
}

func deref(t types.Type) types.Type {
	if p, ok := t.Underlying().(*types.Pointer); ok {
		return p.Elem()
	}
	return t
}
