package main

import (
	"fmt"
	"go/types"

	"golang.org/x/tools/go/ssa"
)

// R3 BOOLIDX-MONO: index.Bool is the OR-accumulator shared by consecutive leaf filters.
// Every write into an element of an index.Bool must be monotone.
func init() {
	register(&Rule{
		ID: "R3", Name: "BOOLIDX-MONO", Floor: 40,
		Text: "every store into an element of an index.Bool (the OR-accumulator shared by sibling leaf filters) either stores the constant true or is control-dependent (edge dominance) on the current value of that same element being false; bulk writes (copy/clear) and escapes to non-module code are rejected",
		Run:  runR3,
	})
}

func isBoolIndex(t types.Type) bool {
	return isNamed(t, rel("internal/index"), "Bool")
}

// boolIdxBase reports whether v is (a conversion of) an index.Bool value.
func boolIdxBase(v ssa.Value) bool {
	if isBoolIndex(v.Type()) {
		return true
	}
	switch t := v.(type) {
	case *ssa.ChangeType:
		return boolIdxBase(t.X)
	case *ssa.Convert:
		return boolIdxBase(t.X)
	case *ssa.Slice:
		return boolIdxBase(t.X)
	}
	return false
}

func runR3(c *Ctx) {
	p := c.P
	for _, fn := range p.Funcs {
		eachInstr(fn, func(in ssa.Instruction) {
			switch t := in.(type) {
			case *ssa.Store:
				ia, ok := t.Addr.(*ssa.IndexAddr)
				if !ok || !boolIdxBase(ia.X) {
					return
				}
				key := fname(fn) + "|store"
				pos := p.instrPos(t)
				if isConstBool(t.Val, true) {
					c.ok(key, pos, "stores constant true (monotone)")
					return
				}
				// look for a dominating guard: load of the same element evaluated false
				for _, g := range dominatingGuards(t.Block()) {
					if g.Val {
						continue
					}
					ld, ok := g.Cond.(*ssa.UnOp)
					if !ok {
						continue
					}
					la, ok := ld.X.(*ssa.IndexAddr)
					if ok && sameElem(la, ia) {
						c.ok(key, pos, fmt.Sprintf("guarded by the element's own value being false (branch at %s)", p.instrPos(g.If)))
						return
					}
				}
				c.bad(key, pos, "store into the shared boolean index is neither constant true nor guarded by `if !bIndex[i]` on the same element: an earlier sibling's true bit can be cleared (breaks Or accumulation)")
			case ssa.CallInstruction:
				cc := t.Common()
				if b := builtinName(t); b != "" {
					if (b == "copy" || b == "clear") && len(cc.Args) > 0 && boolIdxBase(cc.Args[0]) {
						c.bad(fname(fn)+"|bulk-"+b, p.instrPos(t), "bulk write into an index.Bool is not monotone")
					}
					return
				}
				// escape of the accumulator to code outside the module
				callee := cc.StaticCallee()
				external := callee != nil && (callee.Pkg == nil || !inModule(callee.Pkg.Pkg))
				if cc.IsInvoke() {
					external = cc.Method.Pkg() == nil || !inModule(cc.Method.Pkg())
				}
				if !external {
					return
				}
				for _, a := range cc.Args {
					if boolIdxBase(a) {
						c.undecided(fname(fn)+"|escape", p.instrPos(t), "index.Bool passed to code outside the module; its writes cannot be judged")
					}
				}
			}
		})
	}
}

func inModule(pk *types.Package) bool {
	if pk == nil {
		return false
	}
	pth := pk.Path()
	return pth == modPath || len(pth) > len(modPath) && pth[:len(modPath)+1] == modPath+"/"
}
