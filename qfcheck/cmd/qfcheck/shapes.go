package main

import (
	"fmt"
	"go/token"
	"go/types"
	"sort"
	"strings"

	"golang.org/x/tools/go/ssa"
)

// Engines E4 (loop shapes) and parts of E6 (guards).

func init() {
	register(&Rule{ID: "R8", Name: "IDX-SUBSEQ", Floor: 8,
		Text: "every loop that appends to a row index, or fills a fresh compact slice from column storage, is a single range over the parent (an index.Int, an index.Bool paired with its index.Int, or the hash table's entries): the result starts empty, no two appends can run in one iteration, and the appended/stored value is the parent's element at the range key (its firstPos field for table entries) - so the result is an in-order subsequence of the parent, nothing foreign, nothing twice",
		Run:  runR8})
	register(&Rule{ID: "R9", Name: "SORT-PERM", Floor: 1,
		Text: "within internal/sort the only stores into elements of Sorter.index are in Swap, and Swap exchanges two elements of the same slice (two loads, then two cross-wise stores, nothing else): sorting can only permute the index it was given",
		Run:  runR9})
	register(&Rule{ID: "R11", Name: "GRP-EQ", Floor: 1,
		Text: "in the hash table's insert loop an occupied entry is selected as destination only on the true edge of the key-equality call (a call that reaches Comparable.Compare): every path from the loop body to the selection avoids neither `entry not occupied` nor `equals(...) == true`; hash equality alone never decides membership",
		Run:  runR11})
	register(&Rule{ID: "R37", Name: "AGG-CALL", Floor: 5,
		Text: "in every Column.Aggregate each value placed in the result is the result of calling the aggregation function value (user function or table entry) on the group's compact values, which are produced from the loop's own group index; no path emits a value without calling the function. Grouper.Aggregate's count special case stores len(ix) of the group at the group's own slot",
		Run:  runR37})
	register(&Rule{ID: "R38", Name: "PROBE-MASK", Floor: 2,
		Text: "every element access on a hash-table entries slice S in internal/grouper uses a position that is the key of a range over S or is masked (`& m`) on every path with m = len(S)-1 for that same S (or n-1 where S = make([]T, n)): probing and relocation stay inside the table they index and wrap at its own size",
		Run:  runR38})
	register(&Rule{ID: "R39", Name: "VALIDATE-FIRST", Floor: 3,
		Text: "in every exported QFrame method that validates column names (a comma-ok lookup in the frame's column map whose miss edge returns an error frame, directly, in a loop, or through a validator call such as checkColumns), no success return is reachable before the validation completed - except returns guarded by the receiver's Err or by emptiness of the very slice being validated",
		Run:  runR39})
	register(&Rule{ID: "R51", Name: "SELECT-IDENTITY", Floor: 1,
		Text: "QFrame.Select returns its receiver unchanged only when the receiver is errored or under a guard whose condition depends on the elements of the requested column list (its length alone cannot establish that the requested order is the current one); every other success return is the freshly built projection or the empty frame",
		Run:  runR51})
	register(&Rule{ID: "R43", Name: "APPLY-RESTORE", Floor: 1,
		Text: "QFrame.FilteredApply returns a frame whose index field was last assigned the receiver's own index (the filtered index is used only while applying)",
		Run:  runR43})
	register(&Rule{ID: "R44", Name: "EQUALS-SHAPE", Floor: 5,
		Text: "each of the five Column.Equals(index, other, otherIndex): a failed type assertion on other returns false; the receiver's storage is read only at positions loaded from `index` and the other column's only at positions loaded from `otherIndex`, both at the loop's own logical row; float cells are compared as floats (no bit-pattern comparison), with the NaN==NaN exception guarded by IsNaN on both",
		Run:  runR44})
	register(&Rule{ID: "R45", Name: "INFER-ORDER", Floor: 7,
		Text: "in columnToData, with the column type unspecified, every path to the float conversion passes through the int conversion, every path to the bool conversion through the float conversion, and every path to the string construction through the bool conversion (branch conditions on the data type are resolved for `None`); and with the type declared as Int, Float, Bool or String the conversion of that type is reachable (conditions resolved for that constant)",
		Run:  runR45})
	register(&Rule{ID: "R46", Name: "STRICT-FILTER", Floor: 1,
		Text: "in ecolumn's built-in filter, after the search for the constant among the declared values fails, a branch on the column's strict flag follows whose true edge returns a non-nil error before any bit is written or nil returned",
		Run:  runR46})
	register(&Rule{ID: "R18", Name: "BOUNDS", Floor: 1,
		Text: "every re-slice of a row index whose bounds are int parameters of a public QFrame method is evaluated on a grid of (low, high) pairs around the boundaries of a frame of fixed length (branch conditions are decided from those concrete numbers): the re-slice instruction is reached exactly when 0 <= low <= high <= length - never for an out-of-range request, and no valid request is rejected",
		Run:  runR18})
	register(&Rule{ID: "R21", Name: "MAPCALL-GUARD", Floor: 15,
		Text: "every dynamic call whose callee value comes from a map lookup uses the comma-ok form and is dominated by the ok edge (a missing key yields a nil function; calling it panics)",
		Run:  runR21})
	register(&Rule{ID: "R22", Name: "TYPEASSERT", Floor: 1,
		Text: "the set of non-comma-ok type assertions in scope equals the frozen list (each on a value the function itself produced)",
		Run:  runR22})
	register(&Rule{ID: "R23", Name: "PANIC-SITES", Floor: 6,
		Text: "the set of functions containing an explicit panic equals the frozen, documented list",
		Run:  runR23})
	register(&Rule{ID: "R34", Name: "CARD-GUARD", Floor: 2,
		Text: "every call of the function that mints a new enum rank (appends to the values table) is dominated by `!strict` and by a guard implying exactly len(values) < maxCardinality (255): the 255th value is accepted and the 256th rejected; NewFactory rejects declared lists exactly from 256 values on",
		Run:  runR34})
	register(&Rule{ID: "R36", Name: "EXHAUSTIVE", Floor: 1,
		Text: "the type switch over column.Column implementers in sql.NewArgBuilder handles all five data column types, and its fall-through returns an error",
		Run:  runR36})
	register(&Rule{ID: "R25", Name: "CONFIG-USED", Floor: 20,
		Text: "every field of the option structs (csv.Config/io.CSVConfig, csv.ToConfig/io.ToCsvConfig, newqf.Config, groupby.Config, sql.Config/io/sql.SQLConfig, eval.Config) is read by module code outside the option setters: an option that nobody reads is silently ignored; struct conversions between the public and internal config types keep the field lists identical (enforced by the compiler)",
		Run:  runR25})
}

// ---------- R8 ----------

func runR8(c *Ctx) {
	p := c.P
	f := p.idxFacts()
	res := p.resolver()
	for _, fn := range p.Funcs {
		fnm := fname(fn)
		if _, ex := r7Exempt[fnm]; ex {
			continue
		}
		loops := loopsOf(fn)
		if len(loops) == 0 {
			continue
		}
		// appends onto an index.Int inside loops
		type app struct {
			call *ssa.Call
			val  ssa.Value
		}
		var apps []app
		eachInstr(fn, func(in ssa.Instruction) {
			call, ok := in.(*ssa.Call)
			if !ok || builtinName(call) != "append" || !isIntIndexType(call.Call.Args[0].Type()) {
				return
			}
			// variadic backing array: find the stored element(s)
			src := stripSliceOps(call.Call.Args[1])
			if al, ok := src.(*ssa.Alloc); ok {
				for _, r := range *al.Referrers() {
					if ia, ok := r.(*ssa.IndexAddr); ok {
						for _, r2 := range *ia.Referrers() {
							if st, ok := r2.(*ssa.Store); ok {
								apps = append(apps, app{call, st.Val})
							}
						}
					}
				}
			}
		})
		for _, a := range apps {
			var encl []loopInfo
			for _, li := range loops {
				if inLoop(li, a.call.Block()) {
					encl = append(encl, li)
				}
			}
			if len(encl) == 0 {
				continue // not in a loop: provenance judged by R7 (group index growth in insertEntry)
			}
			key := fnm + "|append to index in loop"
			pos := p.instrPos(a.call)
			if len(encl) != 1 || encl[0].base == nil {
				c.bad(key, pos, "the append runs inside nested loops / a loop that is not a range over the parent: the result need not be an in-order subsequence")
				continue
			}
			li := encl[0]
			bt := li.base.Type()
			okParent := isIntIndexType(bt) || isBoolIndex(bt) || isEntriesSlice(bt)
			if !okParent {
				c.bad(key, pos, fmt.Sprintf("the append runs in a range over %s (%s), not over the parent index", accessPath(li.base), bt))
				continue
			}
			// value must be parent element at the range key
			if !elementAtKey(f, a.val, li) {
				c.bad(key, pos, fmt.Sprintf("the appended value %s is not the parent's element at the loop's own key: rows may be taken from elsewhere or out of order", describe(a.val)))
				continue
			}
			// result starts empty
			if !startsEmpty(a.call.Call.Args[0], li.header) {
				c.bad(key, pos, "the index appended to is not empty when the loop starts")
				continue
			}
			// at most one append per iteration
			dup := false
			for _, b := range apps {
				if b.call == a.call || !inLoop(li, b.call.Block()) || rootAppendVar(b.call) != rootAppendVar(a.call) {
					continue
				}
				for _, rb := range reachableAvoiding(a.call.Block(), func(x *ssa.BasicBlock) bool { return x == li.header }) {
					if rb == b.call.Block() && (rb != a.call.Block() || precedes(a.call, b.call)) {
						dup = true
					}
				}
			}
			if dup {
				c.bad(key, pos, "two appends to the same index can run in one iteration: a row can appear twice")
				continue
			}
			c.ok(key, pos, "single range over the parent, result starts empty, one append per iteration of the parent's own element")
		}
		// compact copies: stores at the range key / appends of storage cells read at the range value
		for _, li := range loops {
			if li.base == nil || !isIntIndexType(li.base.Type()) {
				continue
			}
			eachInstr(fn, func(in ssa.Instruction) {
				if !inLoop(li, in.Block()) {
					return
				}
				var val ssa.Value
				var what string
				switch t := in.(type) {
				case *ssa.Store:
					ia, ok := t.Addr.(*ssa.IndexAddr)
					if !ok {
						return
					}
					if al, isAl := ia.X.(*ssa.Alloc); isAl {
						// variadic element of an append to a compact slice
						if isCompactAppend(al) {
							val, what = t.Val, "append to compact slice"
						}
					} else if stripConv(ia.Index) == li.key && !f.isStorage(ia.X) && !isIntIndexType(stripSliceOps(ia.X).Type()) && !isBoolIndex(stripSliceOps(ia.X).Type()) {
						val, what = t.Val, "store at range key"
					}
				}
				if val == nil {
					return
				}
				reads := f.posReads(val, res)
				if len(reads) == 0 {
					return
				}
				key := fnm + "|" + what
				for _, r := range reads {
					k := rowOfPos(r)
					if k == nil || stripConv(k) != li.key || accessPath(indexBaseOfPos(r)) != accessPath(li.base) {
						c.bad(key, p.instrPos(in), fmt.Sprintf("compact copy reads a cell at %s, not at the ranged index's element for this iteration: group values would not be the group's rows in frame order", describe(r)))
						return
					}
				}
				c.ok(key, p.instrPos(in), "cell read at the ranged index's own element: compact copy in frame order")
			})
		}
	}
}

func isEntriesSlice(t types.Type) bool {
	s, ok := t.Underlying().(*types.Slice)
	if !ok || curProg == nil {
		return false
	}
	es := entryStruct(curProg)
	return es != nil && types.Identical(s.Elem(), es)
}

func indexBaseOfPos(v ssa.Value) ssa.Value {
	if u, ok := v.(*ssa.UnOp); ok {
		if ia, ok := u.X.(*ssa.IndexAddr); ok {
			return ia.X
		}
	}
	return v
}

func isCompactAppend(al *ssa.Alloc) bool {
	for _, r := range *al.Referrers() {
		if sl, ok := r.(*ssa.Slice); ok {
			for _, r2 := range *sl.Referrers() {
				if call, ok := r2.(*ssa.Call); ok && builtinName(call) == "append" && !isIntIndexType(call.Call.Args[0].Type()) {
					return true
				}
			}
		}
	}
	return false
}

func rootAppendVar(call *ssa.Call) string {
	v := call.Call.Args[0]
	if phi, ok := v.(*ssa.Phi); ok {
		return phi.Comment
	}
	return v.Name()
}

// elementAtKey: v is base[key] (for index.Int parents), ix[key] for a range over an index.Bool,
// or base[key].firstPos for table entries.
func elementAtKey(f *idxFacts, v ssa.Value, li loopInfo) bool {
	bt := li.base.Type()
	if fld, x := fieldOf(v); fld != nil && fld == f.firstPos {
		// entries[key].firstPos ; x is the element (value or address), possibly copied into the range variable
		x = singleDef(x)
		var ia *ssa.IndexAddr
		switch t := x.(type) {
		case *ssa.UnOp:
			ia, _ = t.X.(*ssa.IndexAddr)
		case *ssa.IndexAddr:
			ia = t
		}
		return ia != nil && stripConv(ia.Index) == li.key && accessPath(ia.X) == accessPath(li.base)
	}
	k := rowOfPos(v)
	if k == nil || stripConv(k) != li.key {
		return false
	}
	if isIntIndexType(bt) {
		return accessPath(indexBaseOfPos(v)) == accessPath(li.base)
	}
	return isBoolIndex(bt) // ix[i] while ranging over the boolean index built for ix
}

func startsEmpty(v ssa.Value, header *ssa.BasicBlock) bool {
	phi, ok := v.(*ssa.Phi)
	if !ok || phi.Block() != header {
		return false
	}
	for i, e := range phi.Edges {
		if header.Dominates(phi.Block().Preds[i]) {
			continue // back edge
		}
		mk, ok := e.(*ssa.MakeSlice)
		if !ok {
			return false
		}
		if n, ok := constInt(mk.Len); !ok || n != 0 {
			return false
		}
	}
	return true
}

// ---------- R9 ----------

func runR9(c *Ctx) {
	p := c.P
	sorter := p.Named("internal/sort", "Sorter")
	if sorter == nil {
		c.undecided("anchor|Sorter", "-", "internal/sort.Sorter not found")
		return
	}
	var stores []*ssa.Store
	for _, fn := range p.FuncsIn("internal/sort") {
		eachInstr(fn, func(in ssa.Instruction) {
			st, ok := in.(*ssa.Store)
			if !ok {
				return
			}
			ia, ok := st.Addr.(*ssa.IndexAddr)
			if !ok || !isIntIndexType(stripSliceOps(ia.X).Type()) {
				return
			}
			stores = append(stores, st)
		})
	}
	byFn := map[*ssa.Function][]*ssa.Store{}
	for _, st := range stores {
		byFn[st.Parent()] = append(byFn[st.Parent()], st)
	}
	for fn, sts := range byFn {
		key := fname(fn) + "|index stores"
		if len(sts) != 2 {
			c.bad(key, p.pos(fn.Pos()), fmt.Sprintf("%d stores into the sorter's index in one function; only an exchange (2 stores) can keep it a permutation", len(sts)))
			continue
		}
		a, b := sts[0], sts[1]
		ia, ib := a.Addr.(*ssa.IndexAddr), b.Addr.(*ssa.IndexAddr)
		la, okA := loadOfElem(a.Val)
		lb, okB := loadOfElem(b.Val)
		switch {
		case !okA || !okB:
			c.bad(key, p.instrPos(a), "a value that is not an element of the same index is stored into it")
		case accessPath(ia.X) != accessPath(ib.X) || accessPath(la.X) != accessPath(ia.X) || accessPath(lb.X) != accessPath(ia.X):
			c.bad(key, p.instrPos(a), "the exchange mixes different slices")
		case !(stripConv(la.Index) == stripConv(ib.Index) && stripConv(lb.Index) == stripConv(ia.Index)):
			c.bad(key, p.instrPos(a), "not a cross-wise exchange: index[i] must receive the old index[j] and index[j] the old index[i] (otherwise an element is duplicated and another lost)")
		case stripConv(ia.Index) == stripConv(ib.Index):
			c.bad(key, p.instrPos(a), "both stores target the same element")
		case !precedes(a.Val.(ssa.Instruction), a) || !precedes(b.Val.(ssa.Instruction), a) || !precedes(b.Val.(ssa.Instruction), b):
			c.bad(key, p.instrPos(a), "an element is overwritten before it has been read")
		default:
			c.ok(key, p.instrPos(a), "two loads followed by two cross-wise stores into the same slice: an exchange")
		}
	}
	if len(byFn) == 0 {
		c.bad("internal/sort|index stores", "-", "no exchange of index elements found: the sorter cannot reorder anything")
	}
}

func loadOfElem(v ssa.Value) (*ssa.IndexAddr, bool) {
	u, ok := v.(*ssa.UnOp)
	if !ok || u.Op != token.MUL {
		return nil, false
	}
	ia, ok := u.X.(*ssa.IndexAddr)
	return ia, ok
}

// ---------- R11 ----------

// reachesCompare: fn (transitively, module-internal) invokes column.Comparable.Compare.
func reachesCompare(p *Prog, fn *ssa.Function, seen map[*ssa.Function]bool) bool {
	if fn == nil || seen[fn] || fn.Blocks == nil {
		return false
	}
	seen[fn] = true
	found := false
	eachInstr(fn, func(in ssa.Instruction) {
		ci, ok := in.(ssa.CallInstruction)
		if !ok || found {
			return
		}
		cc := ci.Common()
		if cc.IsInvoke() && cc.Method.Name() == "Compare" && cc.Method.Pkg() != nil && cc.Method.Pkg().Path() == rel("internal/column") {
			found = true
			return
		}
		if callee := cc.StaticCallee(); callee != nil && callee.Pkg != nil && inModule(callee.Pkg.Pkg) {
			if reachesCompare(p, callee, seen) {
				found = true
			}
		}
	})
	return found
}

func runR11(c *Ctx) {
	p := c.P
	n := 0
	for _, fn := range p.FuncsIn("internal/grouper") {
		// equality call: static module call returning bool that reaches Compare, used as a branch condition
		var eqIf *ssa.If
		var eqCall *ssa.Call
		eachInstr(fn, func(in ssa.Instruction) {
			call, ok := in.(*ssa.Call)
			if !ok {
				return
			}
			callee := call.Call.StaticCallee()
			if callee == nil || callee == fn || !reachesCompare(p, callee, map[*ssa.Function]bool{}) {
				return
			}
			if b, ok := call.Type().Underlying().(*types.Basic); !ok || b.Kind() != types.Bool {
				return
			}
			for _, r := range *call.Referrers() {
				if iff, ok := r.(*ssa.If); ok {
					eqIf, eqCall = iff, call
				}
			}
		})
		if eqIf == nil {
			continue
		}
		loops := loopsOf(fn)
		var li *loopInfo
		for i := range loops {
			if inLoop(loops[i], eqIf.Block()) {
				li = &loops[i]
			}
		}
		if li == nil {
			continue
		}
		n++
		key := fname(fn) + "|entry selection"
		// occupied test: If on a load of a bool field of tableEntry inside the loop
		var occIf *ssa.If
		eachInstr(fn, func(in ssa.Instruction) {
			iff, ok := in.(*ssa.If)
			if !ok || !inLoop(*li, iff.Block()) {
				return
			}
			cond, _ := unNot(iff.Cond, true)
			if fld, x := fieldOf(cond); fld != nil {
				if nt, ok := deref(x.Type()).(*types.Named); ok && entryStruct(p) != nil && types.Identical(nt, entryStruct(p)) {
					if b, ok := fld.Type().Underlying().(*types.Basic); ok && b.Kind() == types.Bool {
						occIf = iff
					}
				}
			}
		})
		if occIf == nil {
			c.undecided(key, p.pos(fn.Pos()), "no branch on the entry's occupied flag found in the probe loop")
			continue
		}
		// selection: the loop exits (or a pointer to the entry is merged into the destination) ...
		// blocks from which the loop header is left with a selected entry = predecessors feeding the
		// destination phi in the header with a non-nil value.
		var selBlocks []*ssa.BasicBlock
		for _, in := range li.header.Instrs {
			phi, ok := in.(*ssa.Phi)
			if !ok {
				continue
			}
			if _, isPtr := phi.Type().Underlying().(*types.Pointer); !isPtr {
				continue
			}
			for i, e := range phi.Edges {
				if cst, isC := e.(*ssa.Const); isC && cst.IsNil() {
					continue
				}
				if _, isPhi := e.(*ssa.Phi); isPhi {
					// merged value from the loop body: find the blocks that supply the entry pointer
					for j, e2 := range e.(*ssa.Phi).Edges {
						if cst, isC := e2.(*ssa.Const); isC && cst.IsNil() {
							continue
						}
						if e2 == ssa.Value(phi) {
							continue // the unchanged (still nil) destination carried round the loop
						}
						selBlocks = append(selBlocks, e.(*ssa.Phi).Block().Preds[j])
					}
					continue
				}
				selBlocks = append(selBlocks, li.header.Preds[i])
			}
		}
		// break form: the probe loop is left directly once an entry has been chosen
		for _, b := range fn.Blocks {
			if !inLoop(*li, b) || b == li.header {
				continue
			}
			for _, s := range b.Succs {
				if !inLoop(*li, s) {
					selBlocks = append(selBlocks, s)
				}
			}
		}
		if len(selBlocks) == 0 {
			c.undecided(key, p.pos(fn.Pos()), "cannot find where the destination entry is selected")
			continue
		}
		// allowed edges: occupied == false, equals == true
		occCond, occVal := unNot(occIf.Cond, true)
		_ = occCond
		// successor index on which `occupied` is false
		occFalse := 1
		if !occVal { // cond is !occupied: succ 0 taken when !occupied is true
			occFalse = 0
		}
		allowed := map[[2]*ssa.BasicBlock]bool{
			{occIf.Block(), occIf.Block().Succs[occFalse]}: true,
			{eqIf.Block(), eqIf.Block().Succs[0]}:          true,
		}
		// search: from the loop body's first block, can a selection block be reached without an allowed edge?
		start := occIf.Block()
		seen := map[*ssa.BasicBlock]bool{}
		bad := false
		var dfs func(b *ssa.BasicBlock)
		dfs = func(b *ssa.BasicBlock) {
			if seen[b] || bad {
				return
			}
			seen[b] = true
			for _, sb := range selBlocks {
				if sb == b && b != start {
					bad = true
					return
				}
			}
			for _, s := range b.Succs {
				if allowed[[2]*ssa.BasicBlock{b, s}] || s == li.header {
					continue
				}
				dfs(s)
			}
		}
		dfs(start)
		if bad {
			c.bad(key, p.instrPos(eqCall), "an occupied entry can be selected as the row's group without the key-equality call having returned true (e.g. on hash equality alone): rows with different keys can be merged")
		} else {
			c.ok(key, p.instrPos(eqCall), "selection is reachable only through `entry not occupied` or `equals(...) == true`")
		}
	}
	if n == 0 {
		c.undecided("internal/grouper|probe loop", "-", "no probe loop with a key-equality call found")
	}
}

// ---------- R37 ----------

func runR37(c *Ctx) {
	p := c.P
	for _, cp := range columnPkgs {
		fn := p.Func(cp, "Column.Aggregate")
		if fn == nil {
			c.undecided(cp+"|Aggregate", "-", "method not found")
			continue
		}
		fnm := fname(fn)
		loops := loopsOf(fn)
		n := 0
		eachInstr(fn, func(in ssa.Instruction) {
			st, ok := in.(*ssa.Store)
			if !ok {
				return
			}
			ia, ok := st.Addr.(*ssa.IndexAddr)
			if !ok {
				return
			}
			if al, ok := ia.X.(*ssa.Alloc); !ok || !isCompactAppend(al) {
				// or a store into a preallocated result at the group's own number
				if _, isMk := singleDef(rootSlice(ia.X)).(*ssa.MakeSlice); !isMk {
					return
				}
				if _, isAdd := stripConv(ia.Index).(*ssa.BinOp); !isAdd {
					return
				}
			}
			// only the result slice (element type = aggregation result), inside the loop over indices
			var li *loopInfo
			for i := range loops {
				if inLoop(loops[i], st.Block()) && loops[i].base != nil && isRowIndexType(loops[i].base.Type()) {
					li = &loops[i]
				}
			}
			if li == nil {
				return
			}
			n++
			key := fnm + "|result element"
			call, ok := st.Val.(*ssa.Call)
			if !ok || call.Call.IsInvoke() || call.Call.StaticCallee() != nil || builtinName(call) != "" {
				c.bad(key, p.instrPos(st), fmt.Sprintf("a group's result %s is not the result of calling the aggregation function: some groups bypass the function (wrong for user functions f with f([x]) != x)", describe(st.Val)))
				return
			}
			// argument derives from the group's own index (range value)
			okArg := false
			for _, a := range call.Call.Args {
				if derivesFromRangeValue(a, *li, 0) {
					okArg = true
				}
			}
			if !okArg {
				c.bad(key, p.instrPos(st), "the aggregation function is not applied to values built from this group's own index")
				return
			}
			c.ok(key, p.instrPos(st), "result = fn(values of this group's index)")
		})
		if n == 0 {
			c.okTrivial(fnm+"|no aggregation", p.pos(fn.Pos()), "no result loop (aggregation not supported for this type)")
		}
	}
	// count special case
	if fn := p.Func("", "Grouper.Aggregate"); fn != nil {
		found := false
		eachInstr(fn, func(in ssa.Instruction) {
			st, ok := in.(*ssa.Store)
			if !ok {
				return
			}
			ia, ok := st.Addr.(*ssa.IndexAddr)
			if !ok {
				return
			}
			call, ok := st.Val.(*ssa.Call)
			if !ok || builtinName(call) != "len" || !isIntIndexType(call.Call.Args[0].Type()) {
				return
			}
			found = true
			k := rowOfGroup(call.Call.Args[0])
			if k != nil && stripConv(k) == stripConv(ia.Index) {
				c.ok(fname(fn)+"|count", p.instrPos(st), "counts[i] = len(indices[i])")
			} else {
				c.bad(fname(fn)+"|count", p.instrPos(st), "count of a group is stored at another group's slot")
			}
		})
		if !found {
			c.okTrivial(fname(fn)+"|count", p.pos(fn.Pos()), "no count special case")
		}
	}
}

func rowOfGroup(v ssa.Value) ssa.Value {
	if u, ok := v.(*ssa.UnOp); ok && u.Op == token.MUL {
		if ia, ok := u.X.(*ssa.IndexAddr); ok {
			return ia.Index
		}
	}
	return nil
}

func derivesFromRangeValue(v ssa.Value, li loopInfo, d int) bool {
	if d > 8 || v == nil {
		return false
	}
	if u, ok := v.(*ssa.UnOp); ok && u.Op == token.MUL {
		if ia, ok := u.X.(*ssa.IndexAddr); ok && stripConv(ia.Index) == li.key && accessPath(ia.X) == accessPath(li.base) {
			return true
		}
		if al, ok := u.X.(*ssa.Alloc); ok {
			for _, r := range *al.Referrers() {
				if st, ok := r.(*ssa.Store); ok && st.Addr == al && derivesFromRangeValue(st.Val, li, d+1) {
					return true
				}
			}
		}
		return derivesFromRangeValue(u.X, li, d+1)
	}
	switch t := v.(type) {
	case *ssa.Alloc:
		for _, r := range *t.Referrers() {
			if st, ok := r.(*ssa.Store); ok && st.Addr == ssa.Value(t) && derivesFromRangeValue(st.Val, li, d+1) {
				return true
			}
		}
	case *ssa.Call:
		for _, a := range t.Call.Args {
			if derivesFromRangeValue(a, li, d+1) {
				return true
			}
		}
	case *ssa.Field:
		return derivesFromRangeValue(t.X, li, d+1)
	case *ssa.FieldAddr:
		return derivesFromRangeValue(t.X, li, d+1)
	case *ssa.Extract:
		return derivesFromRangeValue(t.Tuple, li, d+1)
	case *ssa.Slice:
		return derivesFromRangeValue(t.X, li, d+1)
	}
	return false
}

// ---------- R38 ----------

func runR38(c *Ctx) {
	p := c.P
	for _, fn := range p.FuncsIn("internal/grouper") {
		fnm := fname(fn)
		eachInstr(fn, func(in ssa.Instruction) {
			ia, ok := in.(*ssa.IndexAddr)
			if !ok || !isEntriesSlice(ia.X.Type()) {
				return
			}
			key := fnm + "|entries access " + accessPath(ia.X)
			pos := p.instrPos(ia)
			if rangeKeyOf(ia.Index, ia.X) {
				c.ok(key, pos, "key of a range over the same slice")
				return
			}
			if ok, why := maskedBy(ia.Index, ia.X, map[ssa.Value]bool{}); ok {
				if w := staleMask(p, ia); w != "" {
					c.bad(key, pos, w)
					return
				}
				c.ok(key, pos, "position masked by len(table)-1 of the same table on every path, no table replacement between mask and access")
			} else {
				c.bad(key, pos, "probe/relocation position is not masked by the length of the table it indexes ("+why+"): entries are relocated or looked up with another table's mask, so a key stored before a growth step is not found again")
			}
		})
	}
}

// maskedBy: idx is, on every path, x & m with m == len(S)-1.
func maskedBy(idx ssa.Value, S ssa.Value, seen map[ssa.Value]bool) (bool, string) {
	if seen[idx] {
		return true, ""
	}
	seen[idx] = true
	switch t := idx.(type) {
	case *ssa.Convert:
		return maskedBy(t.X, S, seen)
	case *ssa.Phi:
		for _, e := range t.Edges {
			if ok, why := maskedBy(e, S, seen); !ok {
				return false, why
			}
		}
		return true, ""
	case *ssa.BinOp:
		if t.Op == token.AND {
			if isLenMinusOne(t.Y, S) || isLenMinusOne(t.X, S) {
				return true, ""
			}
			return false, "mask " + describe(t.Y) + " is not len(" + accessPath(S) + ")-1"
		}
	}
	return false, describe(idx) + " is not masked"
}

func isLenMinusOne(m ssa.Value, S ssa.Value) bool {
	return isLenMinusOneD(m, S, 0)
}

func isLenMinusOneD(m ssa.Value, S ssa.Value, depth int) bool {
	m = stripConvAll(m)
	if depth < 2 {
		// (a) mask and table are both parameters of a helper: the relation holds at every call of the helper
		if pm, ok := m.(*ssa.Parameter); ok {
			if ps, ok := rootValue(S).(*ssa.Parameter); ok && ps.Parent() == pm.Parent() && accessPath(S) == accessPath(ps) {
				fn := pm.Parent()
				im, is := -1, -1
				for i, q := range fn.Params {
					if q == pm {
						im = i
					}
					if q == ps {
						is = i
					}
				}
				sites := callSitesInPackage(fn)
				if len(sites) == 0 || im < 0 || is < 0 {
					return false
				}
				for _, call := range sites {
					args := call.Common().Args
					if im >= len(args) || is >= len(args) || !isLenMinusOneD(args[im], args[is], depth+1) {
						return false
					}
				}
				return true
			}
		}
		// (b) the mask is kept in a field beside the table: every function of the package that stores either field
		// stores both, the mask being len-1 of the table stored with it
		if fm, xm := fieldOf(m); fm != nil {
			if fs, xs := fieldOf(S); fs != nil && accessPath(xm) == accessPath(xs) && accessPath(xm) != "" {
				fn := instrParent(m)
				if fn != nil && fn.Pkg != nil && maskFieldInvariant(fn.Pkg, fm, fs, depth) {
					return true
				}
			}
		}
	}
	sub, ok := m.(*ssa.BinOp)
	if !ok || sub.Op != token.SUB {
		return false
	}
	if k, ok := constInt(sub.Y); !ok || k != 1 {
		return false
	}
	n := stripConvAll(sub.X)
	// len(S') with the same access path
	if call, ok := n.(*ssa.Call); ok && builtinName(call) == "len" {
		return accessPath(call.Call.Args[0]) == accessPath(S)
	}
	// S = make([]T, n')
	if mk, ok := singleDef(rootSlice(S)).(*ssa.MakeSlice); ok {
		return stripConvAll(mk.Len) == n
	}
	if mk, ok := S.(*ssa.MakeSlice); ok {
		return stripConvAll(mk.Len) == n
	}
	return false
}

func instrParent(v ssa.Value) *ssa.Function {
	if in, ok := v.(ssa.Instruction); ok {
		return in.Parent()
	}
	return nil
}

// callSitesInPackage: the static calls of fn in the functions of its own package.
func callSitesInPackage(fn *ssa.Function) []ssa.CallInstruction {
	var out []ssa.CallInstruction
	if fn.Pkg == nil {
		return nil
	}
	for _, m := range fn.Pkg.Members {
		scan := func(f *ssa.Function) {
			var visit func(f *ssa.Function)
			visit = func(f *ssa.Function) {
				eachInstr(f, func(in ssa.Instruction) {
					if ci, ok := in.(ssa.CallInstruction); ok && ci.Common().StaticCallee() == fn {
						out = append(out, ci)
					}
				})
				for _, af := range f.AnonFuncs {
					visit(af)
				}
			}
			visit(f)
		}
		switch t := m.(type) {
		case *ssa.Function:
			scan(t)
		case *ssa.Type:
			for _, recv := range []types.Type{t.Type(), types.NewPointer(t.Type())} {
				ms := fn.Prog.MethodSets.MethodSet(recv)
				for i := 0; i < ms.Len(); i++ {
					if mf := fn.Prog.MethodValue(ms.At(i)); mf != nil && mf.Pkg == fn.Pkg && mf.Synthetic == "" {
						scan(mf)
					}
				}
			}
		}
	}
	// the same call is found once per receiver form: de-duplicate
	seen := map[ssa.CallInstruction]bool{}
	var uniq []ssa.CallInstruction
	for _, ci := range out {
		if !seen[ci] {
			seen[ci] = true
			uniq = append(uniq, ci)
		}
	}
	return uniq
}

// maskFieldInvariant: wherever a function of pkg stores the table field it also stores the mask field of the same
// struct with len(table stored)-1, and the mask field is stored nowhere else.
func maskFieldInvariant(pkg *ssa.Package, maskFld, tableFld *types.Var, depth int) bool {
	type pair struct{ mask, table *ssa.Store }
	ok := true
	n := 0
	check := func(f *ssa.Function) {
		var masks, tables []*ssa.Store
		var visit func(f *ssa.Function)
		visit = func(f *ssa.Function) {
			eachInstr(f, func(in ssa.Instruction) {
				st, isSt := in.(*ssa.Store)
				if !isSt {
					return
				}
				fa, isFA := st.Addr.(*ssa.FieldAddr)
				if !isFA {
					return
				}
				stt, isStruct := deref(fa.X.Type()).Underlying().(*types.Struct)
				if !isStruct {
					return
				}
				switch stt.Field(fa.Field) {
				case maskFld:
					masks = append(masks, st)
				case tableFld:
					tables = append(tables, st)
				}
			})
		}
		visit(f)
		if len(masks) == 0 && len(tables) == 0 {
			return
		}
		if len(masks) != len(tables) {
			ok = false
			return
		}
		for _, ms := range masks {
			matched := false
			for _, ts := range tables {
				if accessPath(ms.Addr.(*ssa.FieldAddr).X) == accessPath(ts.Addr.(*ssa.FieldAddr).X) && isLenMinusOneD(ms.Val, ts.Val, depth+1) {
					matched = true
				}
			}
			if !matched {
				ok = false
			}
			n++
		}
	}
	for _, m := range pkg.Members {
		switch t := m.(type) {
		case *ssa.Function:
			check(t)
		case *ssa.Type:
			for _, recv := range []types.Type{t.Type(), types.NewPointer(t.Type())} {
				ms := pkg.Prog.MethodSets.MethodSet(recv)
				for i := 0; i < ms.Len(); i++ {
					if mf := pkg.Prog.MethodValue(ms.At(i)); mf != nil && mf.Pkg == pkg && mf.Synthetic == "" {
						check(mf)
					}
				}
			}
		}
	}
	return ok && n > 0
}

func stripConvAll(v ssa.Value) ssa.Value {
	for {
		switch t := v.(type) {
		case *ssa.Convert:
			v = t.X
		case *ssa.ChangeType:
			v = t.X
		default:
			return v
		}
	}
}

// ---------- R39 ----------

// isValidator: fn has an error result and contains a comma-ok lookup in a column map (or calls such a
// function): checkColumns, lookupColumn-style helpers.
func isValidator(p *Prog, fn *ssa.Function) bool { return isValidatorD(p, fn, 0) }

func isValidatorD(p *Prog, fn *ssa.Function, d int) bool {
	if fn == nil || fn.Blocks == nil || d > 3 || errResultIndex(fn.Signature) < 0 {
		return false
	}
	if fn.Pkg == nil || fn.Pkg.Pkg.Path() != modPath {
		return false
	}
	// a validator is a small helper: it takes names, not filters/expressions, and returns no frame
	for i := 0; i < fn.Signature.Results().Len(); i++ {
		if isFrameType(fn.Signature.Results().At(i).Type()) {
			return false
		}
	}
	found := false
	eachInstr(fn, func(in ssa.Instruction) {
		switch t := in.(type) {
		case *ssa.Lookup:
			if t.CommaOk && isNamedColumnContainer(p, t.X.Type()) {
				found = true
			}
		case *ssa.Call:
			if callee := t.Call.StaticCallee(); callee != nil && callee != fn && isValidatorD(p, callee, d+1) {
				found = true
			}
		}
	})
	return found
}

func runR39(c *Ctx) {
	p := c.P
	for _, fn := range p.FuncsIn("") {
		obj, ok := fn.Object().(*types.Func)
		if !ok || !obj.Exported() || fn.Signature.Recv() == nil {
			continue
		}
		if n, ok := deref(fn.Signature.Recv().Type()).(*types.Named); !ok || n.Obj().Name() != "QFrame" {
			continue
		}
		fnm := fname(fn)
		loops := loopsOf(fn)
		// validation units: (block whose completion means "validated", slice being validated or nil)
		type unit struct {
			done *ssa.BasicBlock // block reached only after validation completed
			edge [2]*ssa.BasicBlock
			base ssa.Value
			pos  string
		}
		var units []unit
		eachInstr(fn, func(in ssa.Instruction) {
			switch t := in.(type) {
			case *ssa.Lookup:
				if !t.CommaOk || !isNamedColumnContainer(p, t.X.Type()) {
					return
				}
				// miss edge must return
				for _, r := range *t.Referrers() {
					ex, ok := r.(*ssa.Extract)
					if !ok || ex.Index != 1 {
						continue
					}
					for _, r2 := range *ex.Referrers() {
						iff, ok := r2.(*ssa.If)
						if !ok {
							continue
						}
						miss := iff.Block().Succs[1]
						if _, isRet := miss.Instrs[len(miss.Instrs)-1].(*ssa.Return); !isRet {
							continue
						}
						u := unit{pos: p.instrPos(t)}
						inL := false
						for _, li := range loops {
							if inLoop(li, t.Block()) && li.base != nil {
								// loop exit = successor of header not in loop
								for _, s := range li.header.Succs {
									if !inLoop(li, s) {
										u.done, u.base, inL = s, li.base, true
										u.edge = [2]*ssa.BasicBlock{li.header, s}
									}
								}
							}
						}
						if !inL {
							u.done = iff.Block().Succs[0]
							u.edge = [2]*ssa.BasicBlock{iff.Block(), u.done}
						}
						if u.done != nil {
							units = append(units, u)
						}
					}
				}
			case *ssa.Call:
				callee := t.Call.StaticCallee()
				if callee == nil || !isValidator(p, callee) {
					return
				}
				var errVals []ssa.Value
				if callee.Signature.Results().Len() == 1 {
					errVals = []ssa.Value{t}
				} else {
					ei := errResultIndex(callee.Signature)
					for _, r := range *t.Referrers() {
						if ex, ok := r.(*ssa.Extract); ok && ex.Index == ei {
							errVals = append(errVals, ex)
						}
					}
				}
				var cmps []*ssa.BinOp
				for _, ev := range errVals {
					for _, r := range *ev.Referrers() {
						if b, ok := r.(*ssa.BinOp); ok {
							cmps = append(cmps, b)
						}
					}
				}
				for _, b := range cmps {
					for _, r2 := range *b.Referrers() {
						if iff, ok := r2.(*ssa.If); ok {
							okIdx := 1 // err != nil -> succ0 ; ok path = succ1
							if b.Op == token.EQL {
								okIdx = 0
							}
							// the validated list: the []string argument, else the only slice argument (the []Order of Sort)
							var base ssa.Value
							var slices []ssa.Value
							for _, a := range t.Call.Args {
								if s, ok := a.Type().Underlying().(*types.Slice); ok {
									slices = append(slices, a)
									if bb, ok := s.Elem().Underlying().(*types.Basic); ok && bb.Kind() == types.String {
										base = a
									}
								}
							}
							if base == nil && len(slices) == 1 {
								base = slices[0]
							}
							units = append(units, unit{done: iff.Block().Succs[okIdx], edge: [2]*ssa.BasicBlock{iff.Block(), iff.Block().Succs[okIdx]}, base: base, pos: p.instrPos(t)})
						}
					}
				}
			}
		})
		// clause (b): a list of names handed in by the caller that is matched against the frame's column names as a
		// set (membership of namedColumn.name in a set built from the parameter) selects columns silently: a name
		// that matches nothing must be reported like in every sibling operation, so the same parameter must reach a
		// validation (a unit whose validated slice is the parameter)
		for _, prm := range fn.Params {
			sl, ok := prm.Type().Underlying().(*types.Slice)
			if !ok {
				continue
			}
			if b, ok := sl.Elem().Underlying().(*types.Basic); !ok || b.Kind() != types.String {
				continue
			}
			matched := ""
			for _, r := range *prm.Referrers() {
				call, ok := r.(*ssa.Call)
				if !ok {
					continue
				}
				if _, isMap := call.Type().Underlying().(*types.Map); !isMap {
					continue
				}
				// the set's uses: a call (Contains) or a comma-ok lookup whose key is a column's name field
				for _, u := range *call.Referrers() {
					var keyV ssa.Value
					switch t := u.(type) {
					case *ssa.Call:
						for _, a := range t.Call.Args {
							if a != ssa.Value(call) {
								keyV = a
							}
						}
					case *ssa.Lookup:
						keyV = t.Index
					}
					if keyV == nil {
						continue
					}
					if fld, _ := fieldOf(keyV); fld != nil && fld.Type().Underlying() == types.Typ[types.String] {
						if n, ok := fieldOwner(keyV); ok && n == "namedColumn" {
							matched = p.instrPos(u)
						}
					}
				}
			}
			if matched == "" {
				continue
			}
			key := fnm + "|name list " + prm.Name()
			validated := false
			for _, u := range units {
				if u.base == ssa.Value(prm) {
					validated = true
				}
			}
			if validated {
				c.ok(key, p.pos(fn.Pos()), "the names matched against the columns are validated against the column map")
			} else {
				c.bad(key, matched, fmt.Sprintf("the names in %s select columns by set membership (at %s) but are never validated against the column map: a name that matches no column is silently ignored instead of being reported through Err", prm.Name(), matched))
			}
		}
		if len(units) == 0 {
			continue
		}
		// the last return in source order is the operation's main success return
		var rets []*ssa.Return
		eachInstr(fn, func(in ssa.Instruction) {
			if r, ok := in.(*ssa.Return); ok {
				rets = append(rets, r)
			}
		})
		sort.Slice(rets, func(i, j int) bool { return rets[i].Pos() < rets[j].Pos() })
		if len(rets) == 0 {
			continue
		}
		main := rets[len(rets)-1]
		for _, u := range units {
			if !u.done.Dominates(main.Block()) {
				continue // a validation that is itself conditional (only for some argument shapes)
			}
			key := fnm + "|validation at " + strings.SplitN(u.pos, ":", 2)[0]
			bad := ""
			for _, r := range rets {
				if r == main || u.done.Dominates(r.Block()) {
					continue
				}
				if !precedesBlock(r.Block(), u.done) {
					continue // a return on the validation's own failure path or after it
				}
				// allowed: guarded by receiver Err, or by emptiness of the validated slice, or an error return
				if returnsErrFrame(r) || guardedByErrField(r.Block()) || (u.base != nil && guardedByEmpty(r.Block(), u.base)) {
					continue
				}
				// `if qf.Err != nil || len(columns) == 0 { return qf }`: every edge into the return block is the
				// true edge of one of the two allowed tests
				if everyEdgeInto(r.Block(), func(cond ssa.Value, val bool) bool {
					cond, val = unNot(cond, val)
					cmp, ok := cond.(*ssa.BinOp)
					if !ok {
						return false
					}
					for _, o := range []ssa.Value{cmp.X, cmp.Y} {
						if fld, _ := fieldOf(o); fld != nil && fld.Name() == "Err" {
							if cmp.Op == token.NEQ && val || cmp.Op == token.EQL && !val {
								return true
							}
						}
					}
					if call, ok := cmp.X.(*ssa.Call); ok && u.base != nil && builtinName(call) == "len" && accessPath(call.Call.Args[0]) == accessPath(u.base) {
						if k, ok := constInt(cmp.Y); ok && k == 0 && (cmp.Op == token.EQL && val || cmp.Op == token.NEQ && !val) {
							return true
						}
					}
					return false
				}) {
					continue
				}
				bad = p.instrPos(r)
			}
			if bad != "" {
				c.bad(key, u.pos, fmt.Sprintf("the success return at %s is reachable before the column names have been validated: with those inputs an unknown column is not reported through Err", bad))
			} else {
				c.ok(key, u.pos, "no success return precedes the validation")
			}
		}
	}
}

// everyEdgeInto: every edge into b is a branch edge whose (condition, outcome) satisfies ok.
func everyEdgeInto(b *ssa.BasicBlock, ok func(cond ssa.Value, val bool) bool) bool {
	if len(b.Preds) == 0 {
		return false
	}
	for _, pd := range b.Preds {
		if len(pd.Instrs) == 0 {
			return false
		}
		iff, isIf := pd.Instrs[len(pd.Instrs)-1].(*ssa.If)
		if !isIf {
			return false
		}
		good := false
		for si, val := range []bool{true, false} {
			if pd.Succs[si] == b && ok(iff.Cond, val) {
				good = true
			}
		}
		if !good {
			return false
		}
	}
	return true
}

// fieldOwner: the name of the struct type whose field v is a load of.
func fieldOwner(v ssa.Value) (string, bool) {
	switch t := v.(type) {
	case *ssa.UnOp:
		if fa, ok := t.X.(*ssa.FieldAddr); ok {
			if n, ok := deref(fa.X.Type()).(*types.Named); ok {
				return n.Obj().Name(), true
			}
		}
	case *ssa.Field:
		if n, ok := t.X.Type().(*types.Named); ok {
			return n.Obj().Name(), true
		}
	}
	return "", false
}

// precedesBlock: a can reach b (a is on some path before b).
func precedesBlock(a, b *ssa.BasicBlock) bool {
	for _, r := range reachableAvoiding(a, nil) {
		if r == b {
			return true
		}
	}
	// a return block has no successors: compare by dominance of its predecessors' region
	for _, pd := range a.Preds {
		for _, r := range reachableAvoiding(pd, nil) {
			if r == b {
				return true
			}
		}
	}
	return false
}

func returnsErrFrame(r *ssa.Return) bool {
	// a result built by withErr(...) or a literal with Err set, or a non-nil error result
	for _, v := range r.Results {
		v = unspillResult(r, v)
		if isErrorType(v.Type()) {
			if cst, ok := v.(*ssa.Const); !ok || !cst.IsNil() {
				return true
			}
		}
		if call, ok := v.(*ssa.Call); ok {
			if o := calleeObj(call); o != nil && curProg != nil && curProg.isErrSetter(o) {
				return true
			}
		}
		// struct literal with a non-nil Err field (QFrame{Err: ...}, Grouper{Err: ...})
		if ld, ok := v.(*ssa.UnOp); ok && ld.Op == token.MUL {
			if al, ok := ld.X.(*ssa.Alloc); ok {
				for _, rr := range *al.Referrers() {
					fa, ok := rr.(*ssa.FieldAddr)
					if !ok {
						continue
					}
					if st, ok := deref(fa.X.Type()).Underlying().(*types.Struct); !ok || st.Field(fa.Field).Name() != "Err" {
						continue
					}
					for _, r2 := range *fa.Referrers() {
						if s, ok := r2.(*ssa.Store); ok && s.Addr == ssa.Value(fa) {
							if cst, isC := s.Val.(*ssa.Const); !isC || !cst.IsNil() {
								return true
							}
						}
					}
				}
			}
		}
	}
	return false
}

func guardedByErrField(b *ssa.BasicBlock) bool {
	for _, g := range dominatingGuards(b) {
		cmp, ok := g.Cond.(*ssa.BinOp)
		if !ok {
			continue
		}
		for _, o := range []ssa.Value{cmp.X, cmp.Y} {
			if fld, _ := fieldOf(o); fld != nil && fld.Name() == "Err" {
				if cmp.Op == token.NEQ && g.Val || cmp.Op == token.EQL && !g.Val {
					return true
				}
			}
		}
	}
	return false
}

func guardedByEmpty(b *ssa.BasicBlock, base ssa.Value) bool {
	want := accessPath(base)
	for _, g := range dominatingGuards(b) {
		cmp, ok := g.Cond.(*ssa.BinOp)
		if !ok {
			continue
		}
		call, ok := cmp.X.(*ssa.Call)
		if !ok || builtinName(call) != "len" || accessPath(call.Call.Args[0]) != want {
			continue
		}
		if k, ok := constInt(cmp.Y); ok && k == 0 && (cmp.Op == token.EQL && g.Val || cmp.Op == token.NEQ && !g.Val) {
			return true
		}
	}
	return false
}

// ---------- R43 ----------

func runR43(c *Ctx) {
	p := c.P
	fn := p.Func("", "QFrame.FilteredApply")
	if fn == nil {
		c.undecided("anchor|FilteredApply", "-", "QFrame.FilteredApply not found")
		return
	}
	recv := fn.Params[0]
	var rets []*ssa.Return
	eachInstr(fn, func(in ssa.Instruction) {
		if r, ok := in.(*ssa.Return); ok {
			rets = append(rets, r)
		}
	})
	sort.Slice(rets, func(i, j int) bool { return rets[i].Pos() < rets[j].Pos() })
	main := rets[len(rets)-1]
	key := fname(fn) + "|returned index"
	// the other spelling: `return applied.withIndex(qf.index)` - a helper whose result carries the index it is handed
	if call, isCall := main.Results[0].(*ssa.Call); isCall {
		callee := call.Call.StaticCallee()
		k := indexSetterParam(callee)
		switch {
		case callee == nil || k < 0 || k >= len(call.Call.Args):
			c.undecided(key, p.instrPos(main), "the result is produced by a call that is not known to set the index from an argument")
		default:
			if fld, x := fieldOf(call.Call.Args[k]); fld != nil && fld.Name() == "index" && rootIsParam(x, recv) {
				c.ok(key, p.instrPos(call), "index restored from the receiver by "+callee.Name())
			} else {
				c.bad(key, p.instrPos(call), fmt.Sprintf("the index handed to %s before returning is %s, not the receiver's own index", callee.Name(), describe(call.Call.Args[k])))
			}
		}
		return
	}
	ld, ok := main.Results[0].(*ssa.UnOp)
	if !ok {
		c.undecided(key, p.instrPos(main), "the result is not a local frame variable")
		return
	}
	al, ok := ld.X.(*ssa.Alloc)
	if !ok {
		c.undecided(key, p.instrPos(main), "the result is not a local frame variable")
		return
	}
	var last *ssa.Store
	for _, r := range *al.Referrers() {
		fa, ok := r.(*ssa.FieldAddr)
		if !ok {
			continue
		}
		st := deref(fa.X.Type()).Underlying().(*types.Struct)
		if st.Field(fa.Field).Name() != "index" {
			continue
		}
		for _, r2 := range *fa.Referrers() {
			if s, ok := r2.(*ssa.Store); ok && s.Addr == fa && precedes(s, ld) {
				if last == nil || precedes(last, s) {
					last = s
				}
			}
		}
	}
	// a whole-struct assignment after the last index store would override it
	if last != nil {
		for _, r := range *al.Referrers() {
			if s, ok := r.(*ssa.Store); ok && s.Addr == al && precedes(last, s) && precedes(s, ld) {
				last = nil
			}
		}
	}
	if last == nil {
		c.bad(key, p.instrPos(main), "the returned frame keeps the filtered index: rows that did not match the clause disappear from the result")
		return
	}
	if fld, x := fieldOf(last.Val); fld != nil && fld.Name() == "index" && rootIsParam(x, recv) {
		c.ok(key, p.instrPos(last), "index restored from the receiver before returning")
	} else {
		c.bad(key, p.instrPos(last), fmt.Sprintf("the index assigned before returning is %s, not the receiver's own index", describe(last.Val)))
	}
}

// indexSetterParam: fn returns a frame whose index field is, on every path, the value of one of its parameters
// (withIndex): the position of that parameter, or -1.
func indexSetterParam(fn *ssa.Function) int {
	if fn == nil || fn.Blocks == nil || fn.Signature.Results().Len() != 1 || !isFrameType(fn.Signature.Results().At(0).Type()) {
		return -1
	}
	found := -1
	ok := true
	eachInstr(fn, func(in ssa.Instruction) {
		ret, isRet := in.(*ssa.Return)
		if !isRet {
			return
		}
		ld, isLd := ret.Results[0].(*ssa.UnOp)
		if !isLd {
			ok = false
			return
		}
		al, isAl := ld.X.(*ssa.Alloc)
		if !isAl {
			ok = false
			return
		}
		set := -1
		for _, r := range *al.Referrers() {
			fa, isFA := r.(*ssa.FieldAddr)
			if !isFA || fieldNameAt(fa) != "index" {
				continue
			}
			for _, r2 := range *fa.Referrers() {
				if st, isSt := r2.(*ssa.Store); isSt && st.Addr == ssa.Value(fa) {
					for i, prm := range fn.Params {
						if st.Val == ssa.Value(prm) {
							set = i
						}
					}
				}
			}
		}
		if set < 0 || found >= 0 && found != set {
			ok = false
		}
		found = set
	})
	if !ok {
		return -1
	}
	return found
}

func rootIsParam(x ssa.Value, prm *ssa.Parameter) bool {
	x = rootValue(x)
	if x == ssa.Value(prm) {
		return true
	}
	if al, ok := x.(*ssa.Alloc); ok {
		return singleDef(al) == ssa.Value(prm)
	}
	return false
}

// ---------- R44 ----------

func runR44(c *Ctx) {
	p := c.P
	f := p.idxFacts()
	res := p.resolver()
	for _, cp := range columnPkgs {
		fn := p.Func(cp, "Column.Equals")
		if fn == nil {
			c.undecided(cp+"|Equals", "-", "method not found")
			continue
		}
		fnm := fname(fn)
		if len(fn.Params) != 4 {
			c.undecided(fnm+"|signature", p.pos(fn.Pos()), "unexpected parameter list")
			continue
		}
		recv, ixP, other, oixP := fn.Params[0], fn.Params[1], fn.Params[2], fn.Params[3]
		// (a) failed assertion returns false
		okA := false
		eachInstr(fn, func(in ssa.Instruction) {
			ta, ok := in.(*ssa.TypeAssert)
			if !ok || !ta.CommaOk || rootValue(ta.X) != ssa.Value(other) {
				return
			}
			for _, r := range *ta.Referrers() {
				if ex, ok := r.(*ssa.Extract); ok && ex.Index == 1 {
					for _, r2 := range *ex.Referrers() {
						if iff, ok := r2.(*ssa.If); ok {
							miss := iff.Block().Succs[1]
							if ret, ok := miss.Instrs[len(miss.Instrs)-1].(*ssa.Return); ok && isConstBool(ret.Results[0], false) {
								okA = true
							}
						}
					}
				}
			}
		})
		if okA {
			c.ok(fnm+"|type mismatch", p.pos(fn.Pos()), "a column of another type is unequal")
		} else {
			c.bad(fnm+"|type mismatch", p.pos(fn.Pos()), "a failed type assertion on the other column does not return false")
		}
		// (b) which index feeds which storage
		nReads, bad := 0, ""
		check := func(storageRoot ssa.Value, posV ssa.Value, at ssa.Instruction) {
			nReads++
			isRecv := rootIsParam(storageRoot, recv)
			base := indexBaseOfPos(stripConvInt(posV))
			var fromIx *ssa.Parameter
			if pr, ok := rootValue(base).(*ssa.Parameter); ok {
				fromIx = pr
			}
			switch {
			case fromIx == nil:
				bad = fmt.Sprintf("cell read at %s which is not an element of either index (%s)", describe(posV), p.instrPos(at))
			case isRecv && fromIx != ixP:
				bad = fmt.Sprintf("the receiver's cells are read at positions from the other frame's index (%s)", p.instrPos(at))
			case !isRecv && fromIx != oixP:
				bad = fmt.Sprintf("the other column's cells are read at positions from the receiver's index (%s): frames with different row order compare wrongly", p.instrPos(at))
			}
		}
		eachInstr(fn, func(in ssa.Instruction) {
			switch t := in.(type) {
			case *ssa.IndexAddr:
				if f.isStorage(t.X) {
					_, x := fieldOf(t.X)
					check(x, t.Index, t)
				}
			case *ssa.Call:
				for _, callee := range res.callees(t) {
					args := argsFor(t, callee)
					for i, a := range args {
						if f.pParam[callee.Params[i]] && len(args) > 0 {
							check(args[0], a, t)
						}
					}
				}
			}
		})
		// same logical row: all loads from the two indexes use one key
		keys := map[ssa.Value]bool{}
		eachInstr(fn, func(in ssa.Instruction) {
			if ia, ok := in.(*ssa.IndexAddr); ok && isIntIndexType(stripSliceOps(ia.X).Type()) {
				keys[stripConv(ia.Index)] = true
			}
		})
		k2 := fnm + "|index pairing"
		switch {
		case bad != "":
			c.bad(k2, p.pos(fn.Pos()), bad)
		case nReads < 2:
			c.bad(k2, p.pos(fn.Pos()), "fewer than two cell reads: the columns' contents are not compared")
		case len(keys) != 1:
			c.bad(k2, p.pos(fn.Pos()), fmt.Sprintf("%d different logical row numbers are used in one comparison step", len(keys)))
		default:
			c.ok(k2, p.pos(fn.Pos()), fmt.Sprintf("%d cell reads: receiver through index, other through otherIndex, same logical row", nReads))
		}
		// (c) floats compared as floats
		eachInstr(fn, func(in ssa.Instruction) {
			call, ok := in.(*ssa.Call)
			if !ok {
				return
			}
			if o := calleeObj(call); isFuncNamed(o, "math", "", "Float64bits") || isFuncNamed(o, "math", "", "Float32bits") {
				c.bad(fnm+"|float equality", p.instrPos(call), "float cells are compared by bit pattern: NaNs with different payloads (and 0.0 vs -0.0) compare unequal although the property's equality says NaN equals NaN")
			}
		})
		hasFloat := false
		eachInstr(fn, func(in ssa.Instruction) {
			if b, ok := in.(*ssa.BinOp); ok && (b.Op == token.NEQ || b.Op == token.EQL) && isFloatType(b.X.Type()) {
				hasFloat = true
				// the unequal exit must be guarded by !(IsNaN && IsNaN)
				nanCalls := 0
				eachInstr(fn, func(i2 ssa.Instruction) {
					if cl, ok := i2.(*ssa.Call); ok && isFuncNamed(calleeObj(cl), "math", "", "IsNaN") {
						nanCalls++
					}
				})
				if nanCalls >= 2 {
					c.ok(fnm+"|float equality", p.instrPos(b), "float comparison with an IsNaN test on both cells for the NaN==NaN case")
				} else {
					c.bad(fnm+"|float equality", p.instrPos(b), "float cells compared with != without the NaN-equals-NaN exception on both cells")
				}
			}
		})
		_ = hasFloat
	}
}

// ---------- R45 ----------

func runR45(c *Ctx) {
	p := c.P
	fn := p.anchorColumnToData()
	if fn == nil {
		c.undecided("anchor|columnToData", "-", "internal/io.columnToData not found")
		return
	}
	loops45 := loopsOf(fn)
	find := func(name string) []*ssa.BasicBlock {
		var out []*ssa.BasicBlock
		eachInstr(fn, func(in ssa.Instruction) {
			if call, ok := in.(*ssa.Call); ok {
				isStage := false
				if o := calleeObj(call); o != nil && o.Name() == name && o.Pkg() != nil && (o.Pkg().Path() == rel("internal/strings") || o.Pkg().Path() == "strconv") {
					isStage = true
				}
				// ... or a helper of the same package that performs the conversion (an extracted parseIntColumn)
				if callee := call.Call.StaticCallee(); !isStage && callee != nil && callee.Pkg == fn.Pkg && callee.Blocks != nil {
					eachInstr(callee, func(i2 ssa.Instruction) {
						if c2, ok := i2.(*ssa.Call); ok {
							if o := calleeObj(c2); o != nil && o.Name() == name && o.Pkg() != nil && (o.Pkg().Path() == rel("internal/strings") || o.Pkg().Path() == "strconv") {
								isStage = true
							}
						}
					})
				}
				if isStage {
					// the stage is "attempted" when its conversion loop is entered (it may run zero times)
					blk := in.Block()
					for _, li := range loops45 {
						if inLoop(li, blk) {
							blk = li.header
						}
					}
					out = append(out, blk)
				}
			}
		})
		return out
	}
	stages := []struct {
		name string
		blks []*ssa.BasicBlock
	}{{"ParseInt", find("ParseInt")}, {"ParseFloat", find("ParseFloat")}, {"ParseBool", find("ParseBool")}, {"NewPointer", find("NewPointer")}}
	// feasibility under dataType == None: `dataType == K` is true iff K is the empty/None constant
	none := ""
	if nt := p.PkgByID[rel("types")]; nt != nil {
		if o, ok := nt.Types.Scope().Lookup("None").(*types.Const); ok {
			none = strings.Trim(o.Val().ExactString(), `"`)
		}
	}
	world := none
	feasible := func(from *ssa.BasicBlock, si int) bool {
		iff, ok := from.Instrs[len(from.Instrs)-1].(*ssa.If)
		if !ok {
			return true
		}
		cond, val := unNot(iff.Cond, true)
		b, ok := cond.(*ssa.BinOp)
		if !ok || b.Op != token.EQL && b.Op != token.NEQ {
			return true
		}
		k, isStr := constString(b.Y)
		if !isStr {
			k, isStr = constString(b.X)
		}
		if !isStr {
			return true
		}
		truth := (k == world) == (b.Op == token.EQL)
		// succ 0 taken when cond == val
		taken0 := truth == val
		return (si == 0) == taken0
	}
	reach := func(avoid map[*ssa.BasicBlock]bool) map[*ssa.BasicBlock]bool {
		seen := map[*ssa.BasicBlock]bool{}
		var dfs func(b *ssa.BasicBlock)
		dfs = func(b *ssa.BasicBlock) {
			if seen[b] || avoid[b] {
				return
			}
			seen[b] = true
			for i, s := range b.Succs {
				if feasible(b, i) {
					dfs(s)
				}
			}
		}
		dfs(fn.Blocks[0])
		return seen
	}
	all := reach(nil)
	for i := 1; i < len(stages); i++ {
		prev, cur := stages[i-1], stages[i]
		key := fname(fn) + "|" + cur.name + " after " + prev.name
		if len(prev.blks) == 0 || len(cur.blks) == 0 {
			c.undecided(key, p.pos(fn.Pos()), "conversion stage not found")
			continue
		}
		anyReach := false
		for _, b := range cur.blks {
			if all[b] {
				anyReach = true
			}
		}
		if !anyReach {
			c.bad(key, p.pos(fn.Pos()), cur.name+" is never tried for an untyped column")
			continue
		}
		avoid := map[*ssa.BasicBlock]bool{}
		for _, b := range prev.blks {
			avoid[b] = true
		}
		without := reach(avoid)
		bad := false
		for _, b := range cur.blks {
			if without[b] {
				bad = true
			}
		}
		if bad {
			c.bad(key, p.pos(fn.Pos()), fmt.Sprintf("for an untyped column %s can be reached without having tried %s: the inference order int, float, bool, string is broken", cur.name, prev.name))
		} else {
			c.ok(key, p.pos(fn.Pos()), "must pass through the previous conversion")
		}
	}
	// explicit types: with the column declared as K, K's own conversion is reachable (branch conditions on the
	// data type resolved for K)
	if nt := p.PkgByID[rel("types")]; nt != nil {
		for i, tn := range []string{"Int", "Float", "Bool", "String"} {
			o, ok := nt.Types.Scope().Lookup(tn).(*types.Const)
			if !ok {
				continue
			}
			world = strings.Trim(o.Val().ExactString(), `"`)
			key := fname(fn) + "|declared " + tn + " reaches " + stages[i].name
			if len(stages[i].blks) == 0 {
				continue // reported above
			}
			r := reach(nil)
			hit := false
			for _, b := range stages[i].blks {
				if r[b] {
					hit = true
				}
			}
			if hit {
				c.ok(key, p.pos(fn.Pos()), "the conversion for the declared type is reachable")
			} else {
				c.bad(key, p.pos(fn.Pos()), fmt.Sprintf("a column declared %s never reaches %s: the explicit type is not honoured", tn, stages[i].name))
			}
		}
		world = none
	}
}

// ---------- R46 ----------

func runR46(c *Ctx) {
	p := c.P
	// every function of the package that receives the boolean index and reads the strict flag takes part: the
	// built-in filter itself and helpers the decision was moved into (filterAbsentValue, firstUndeclared's caller)
	var cands []*ssa.Function
	for _, f := range p.FuncsIn("internal/ecolumn") {
		hasBool, readsStrict := false, false
		for _, prm := range f.Params {
			if isBoolIndex(prm.Type()) {
				hasBool = true
			}
		}
		eachInstr(f, func(in ssa.Instruction) {
			if v, ok := in.(ssa.Value); ok {
				if fld, _ := fieldOf(v); fld != nil && fld.Name() == "strict" {
					readsStrict = true
				}
			}
		})
		if hasBool && readsStrict {
			cands = append(cands, f)
		}
	}
	if len(cands) == 0 {
		if fn := p.anchorEnumBuiltInFilter(); fn != nil {
			cands = append(cands, fn)
		}
	}
	if len(cands) == 0 {
		c.undecided("anchor|enum built-in filter", "-", "the ecolumn method that resolves a filter constant against the declared values was not found")
		return
	}
	sortFuncs(cands)
	anyConst := false
	for _, fn := range cands {
		if r46One(c, fn, len(cands) > 1) {
			anyConst = true
		}
	}
	if !anyConst {
		c.bad(fname(cands[0])+"|constant not among declared values", p.pos(cands[0].Pos()), "no branch on the column's strict flag returns an error: filtering a strict (declared) enum against an undeclared value is silently accepted")
	}
}

// r46One checks one function; it reports whether the function holds a strict branch whose strict side returns an
// error directly (the single-constant decision). With several candidate functions a function without such a
// branch is not reported on its own (the decision may live in its sibling).
func r46One(c *Ctx, fn *ssa.Function, lenient bool) bool {
	p := c.P
	key := fname(fn) + "|constant not among declared values"
	// (1) a branch on the strict flag whose true edge returns a non-nil error
	type strictBranch struct {
		iff *ssa.If
		ti  int
	}
	var allStrict, strictIfs []strictBranch
	eachInstr(fn, func(in ssa.Instruction) {
		iff, ok := in.(*ssa.If)
		if !ok {
			return
		}
		cond, val := unNot(iff.Cond, true)
		if fld, _ := fieldOf(cond); fld == nil || fld.Name() != "strict" {
			return
		}
		ti := 0
		if !val {
			ti = 1
		}
		allStrict = append(allStrict, strictBranch{iff, ti})
		tb := iff.Block().Succs[ti]
		if ret, ok := tb.Instrs[len(tb.Instrs)-1].(*ssa.Return); ok && !returnsNilError(ret) {
			strictIfs = append(strictIfs, strictBranch{iff, ti})
		}
	})
	// a branch on the boolean result of a helper of the package that itself branches on the strict flag
	// (`if s, undeclared := c.firstUndeclared(list); undeclared { return err }`) consults the flag as well
	branchesOnStrict := func(g *ssa.Function) bool {
		found := false
		eachInstr(g, func(in ssa.Instruction) {
			if iff, ok := in.(*ssa.If); ok {
				cond, _ := unNot(iff.Cond, true)
				if fld, _ := fieldOf(cond); fld != nil && fld.Name() == "strict" {
					found = true
				}
			}
		})
		return found
	}
	eachInstr(fn, func(in ssa.Instruction) {
		iff, ok := in.(*ssa.If)
		if !ok {
			return
		}
		cond, val := unNot(iff.Cond, true)
		var call *ssa.Call
		switch t := cond.(type) {
		case *ssa.Extract:
			call, _ = t.Tuple.(*ssa.Call)
		case *ssa.Call:
			call = t
		}
		if call == nil {
			return
		}
		g := call.Call.StaticCallee()
		if g == nil || g.Blocks == nil || g.Pkg != fn.Pkg || !branchesOnStrict(g) {
			return
		}
		ti := 0
		if !val {
			ti = 1
		}
		allStrict = append(allStrict, strictBranch{iff, ti})
	})
	if len(strictIfs) == 0 && !lenient {
		c.bad(key, p.pos(fn.Pos()), "no branch on the column's strict flag returns an error: filtering a strict (declared) enum against an undeclared value is silently accepted")
		return false
	}
	hasConst := len(strictIfs) > 0
	if hasConst {
		// (2) every write into the boolean index made by this function itself (the `!=` shortcut that marks
		// all rows) happens only after the strict test failed
		bad := ""
		eachInstr(fn, func(in ssa.Instruction) {
			st, ok := in.(*ssa.Store)
			if !ok {
				return
			}
			ia, ok := st.Addr.(*ssa.IndexAddr)
			if !ok || !boolIdxBase(ia.X) {
				return
			}
			okSt := false
			for _, sb := range strictIfs {
				if edgeDominates(sb.iff.Block(), 1-sb.ti, st.Block()) {
					okSt = true
				}
			}
			if !okSt {
				bad = p.instrPos(st)
			}
		})
		if bad != "" {
			c.bad(key, p.instrPos(strictIfs[0].iff), fmt.Sprintf("the boolean index is written at %s on a path that has not passed the strict test: for a strict enum an undeclared filter value selects rows instead of being an error", bad))
		} else {
			c.ok(key, p.instrPos(strictIfs[0].iff), "strict columns return an error when the filter constant is not a declared value, before any row is marked")
		}
	}
	// (3) value lists (`in`): the case that receives a []string of constants consults the strict flag too - on
	// every path of that case that can report success a branch on strict lies behind, and its strict side can
	// end in an error. A list naming an undeclared value is an undeclared constant like any other.
	eachInstr(fn, func(in ssa.Instruction) {
		ta, ok := in.(*ssa.TypeAssert)
		if !ok {
			return
		}
		sl, ok := ta.AssertedType.Underlying().(*types.Slice)
		if !ok {
			return
		}
		if bt, ok := sl.Elem().Underlying().(*types.Basic); !ok || bt.Kind() != types.String {
			return
		}
		// the ok edge
		var okIf *ssa.If
		for _, r := range *ta.Referrers() {
			if ex, ok := r.(*ssa.Extract); ok && ex.Index == 1 {
				for _, r2 := range *ex.Referrers() {
					if iff, ok := r2.(*ssa.If); ok {
						okIf = iff
					}
				}
			}
		}
		if okIf == nil {
			return
		}
		lkey := fname(fn) + "|value list against declared values"
		region := func(b *ssa.BasicBlock) bool { return edgeDominates(okIf.Block(), 0, b) }
		problem := ""
		for _, blk := range fn.Blocks {
			if !region(blk) || len(blk.Instrs) == 0 {
				continue
			}
			ret, ok := blk.Instrs[len(blk.Instrs)-1].(*ssa.Return)
			if !ok || !returnsNilError(ret) {
				continue
			}
			consulted := false
			for _, sb := range allStrict {
				sbBlk := sb.iff.Block()
				if !region(sbBlk) || !sbBlk.Dominates(blk) {
					continue
				}
				// the strict side reaches a non-nil error return
				for _, rb := range reachableAvoiding(sbBlk.Succs[sb.ti], func(x *ssa.BasicBlock) bool { return !region(x) }) {
					if len(rb.Instrs) == 0 {
						continue
					}
					if r2, ok := rb.Instrs[len(rb.Instrs)-1].(*ssa.Return); ok && !returnsNilError(r2) {
						consulted = true
					}
				}
			}
			// or the check lives in a helper that is handed the list: `if err := c.checkDeclared(list); err != nil { return err }`
			// dominates the success return, and that helper branches on the strict flag and can fail
			if !consulted {
				for _, g := range dominatingGuards(blk) {
					cond, val := unNot(g.Cond, g.Val)
					cmp, ok := cond.(*ssa.BinOp)
					if !ok || !(cmp.Op == token.EQL && val || cmp.Op == token.NEQ && !val) || !region(g.If.Block()) {
						continue
					}
					for _, side := range [][2]ssa.Value{{cmp.X, cmp.Y}, {cmp.Y, cmp.X}} {
						cst, isC := side[1].(*ssa.Const)
						hc, isCall := side[0].(*ssa.Call)
						if !isC || !cst.IsNil() || !isCall || !isErrorType(hc.Type()) {
							continue
						}
						h := hc.Call.StaticCallee()
						if h == nil || h.Pkg != fn.Pkg || h.Blocks == nil {
							continue
						}
						getsList := false
						for _, a := range hc.Call.Args {
							if ex, ok := a.(*ssa.Extract); ok && ex.Tuple == ssa.Value(ta) && ex.Index == 0 {
								getsList = true
							}
						}
						readsStrict, canFail := false, false
						eachInstr(h, func(i2 ssa.Instruction) {
							switch t := i2.(type) {
							case *ssa.If:
								cc, _ := unNot(t.Cond, true)
								if fld, _ := fieldOf(cc); fld != nil && fld.Name() == "strict" {
									readsStrict = true
								}
							case *ssa.Return:
								if !returnsNilError(t) {
									canFail = true
								}
							}
						})
						if getsList && readsStrict && canFail {
							consulted = true
						}
					}
				}
			}
			// or a helper that answers otherwise (the position of the first undeclared value, a bool): the success return
			// is dominated by a test of the result of a helper that is handed the list and branches on the strict flag,
			// and the other outcome of that test returns an error
			if !consulted {
				for _, g := range dominatingGuards(blk) {
					if !region(g.If.Block()) {
						continue
					}
					var hc *ssa.Call
					var scan func(v ssa.Value, d int)
					scan = func(v ssa.Value, d int) {
						if d > 2 || hc != nil {
							return
						}
						switch t := v.(type) {
						case *ssa.Call:
							if h := t.Call.StaticCallee(); h != nil && h.Pkg == fn.Pkg && h.Blocks != nil {
								hc = t
							}
						case *ssa.BinOp:
							scan(t.X, d+1)
							scan(t.Y, d+1)
						case *ssa.UnOp:
							scan(t.X, d+1)
						}
					}
					scan(g.If.Cond, 0)
					if hc == nil {
						continue
					}
					h := hc.Call.StaticCallee()
					getsList := false
					for _, a := range hc.Call.Args {
						if ex, ok := a.(*ssa.Extract); ok && ex.Tuple == ssa.Value(ta) && ex.Index == 0 {
							getsList = true
						}
					}
					readsStrict := false
					eachInstr(h, func(i2 ssa.Instruction) {
						if iff, ok := i2.(*ssa.If); ok {
							cc, _ := unNot(iff.Cond, true)
							if fld, _ := fieldOf(cc); fld != nil && fld.Name() == "strict" {
								readsStrict = true
							}
						}
					})
					// the edge of the test not taken towards blk ends in an error return
					otherFails := false
					for si, sb := range g.If.Block().Succs {
						if edgeDominates(g.If.Block(), si, blk) {
							continue
						}
						if r2, ok := sb.Instrs[len(sb.Instrs)-1].(*ssa.Return); ok && !returnsNilError(r2) {
							otherFails = true
						}
					}
					if getsList && readsStrict && otherFails {
						consulted = true
					}
				}
			}
			if !consulted {
				problem = p.instrPos(ret)
			}
		}
		if problem != "" {
			c.bad(lkey, p.instrPos(ta), fmt.Sprintf("the case that filters against a list of string constants reports success at %s without ever consulting the strict flag: for an enum with declared values a list naming an undeclared value (in [\"medium\"]) selects no row instead of being an error", problem))
		} else {
			c.ok(lkey, p.instrPos(ta), "the value-list case consults the strict flag and can end in an error before reporting success")
		}
	})
	return hasConst
}

// ---------- R18 ----------

func runR18(c *Ctx) {
	p := c.P
	const frameLen = 10
	grid := []int64{-2, -1, 0, 1, 5, 9, 10, 11}
	for _, fn := range p.FuncsIn("") {
		obj, ok := fn.Object().(*types.Func)
		if !ok || !obj.Exported() {
			continue
		}
		var sl *ssa.Slice
		eachInstr(fn, func(in ssa.Instruction) {
			if s, ok := in.(*ssa.Slice); ok && isIntIndexType(stripSliceOps(s.X).Type()) {
				_, lo := s.Low.(*ssa.Parameter)
				_, hi := s.High.(*ssa.Parameter)
				if lo || hi {
					sl = s
				}
			}
		})
		if sl == nil {
			continue
		}
		lo, _ := sl.Low.(*ssa.Parameter)
		hi, _ := sl.High.(*ssa.Parameter)
		key := fname(fn) + "|index re-slice"
		var bad []string
		undec := ""
		nRuns := 0
		for _, a := range grid {
			for _, b := range grid {
				if lo == nil && a != 0 || hi == nil && b != frameLen {
					continue
				}
				nRuns++
				executed := false
				pe := &pathExec{fn: fn}
				pe.onInstr = func(pe *pathExec, in ssa.Instruction) {
					if in == ssa.Instruction(sl) {
						executed = true
					}
				}
				pe.lenOf = func(*ssa.Call) (int64, bool) { return frameLen, true }
				pe.intHook = func(v ssa.Value) (int64, bool) {
					switch t := v.(type) {
					case *ssa.Parameter:
						if t == lo {
							return a, true
						}
						if t == hi {
							return b, true
						}
					case *ssa.Call:
						if o := calleeObj(t); o != nil && o.Name() == "Len" && o.Type().(*types.Signature).Params().Len() == 0 {
							return frameLen, true
						}
					}
					return 0, false
				}
				pe.oracle = func(pe *pathExec, cond ssa.Value) (bool, bool) {
					return pe.evalBool(cond, func(x ssa.Value) (bool, bool) {
						bo, ok := x.(*ssa.BinOp)
						if !ok {
							return false, false
						}
						// receiver not errored
						for _, o := range []ssa.Value{bo.X, bo.Y} {
							if fieldNameOfLoad(o) == "Err" {
								return bo.Op == token.NEQ == false, true
							}
						}
						if l, ok1 := pe.intOf(bo.X, 0); ok1 {
							if r, ok2 := pe.intOf(bo.Y, 0); ok2 {
								switch bo.Op {
								case token.LSS:
									return l < r, true
								case token.LEQ:
									return l <= r, true
								case token.GTR:
									return l > r, true
								case token.GEQ:
									return l >= r, true
								case token.EQL:
									return l == r, true
								case token.NEQ:
									return l != r, true
								}
							}
						}
						// comparison of (resolved) constant strings, e.g. an error reason chosen by a switch
						if ls, ok1 := constString(pe.resolve(bo.X)); ok1 {
							if rs, ok2 := constString(pe.resolve(bo.Y)); ok2 {
								return (ls == rs) == (bo.Op == token.EQL), true
							}
						}
						// nil tests of locally chosen values (an error variable set in a switch)
						if cst, ok := bo.Y.(*ssa.Const); ok && cst.IsNil() {
							r := pe.resolve(bo.X)
							if rc, ok := r.(*ssa.Const); ok {
								return rc.IsNil() == (bo.Op == token.EQL), true
							}
							if _, isCall := r.(*ssa.Call); isCall {
								return bo.Op == token.NEQ, true // a constructed error value
							}
							if _, isMI := r.(*ssa.MakeInterface); isMI {
								return bo.Op == token.NEQ, true
							}
						}
						return false, false
					})
				}
				end, why := pe.run()
				if end == nil {
					undec = fmt.Sprintf("low=%d high=%d: %s", a, b, why)
					continue
				}
				valid := 0 <= a && a <= b && b <= frameLen
				if executed && !valid {
					bad = append(bad, fmt.Sprintf("low=%d high=%d (frame of %d rows) reaches the re-slice", a, b, frameLen))
				}
				if !executed && valid {
					bad = append(bad, fmt.Sprintf("the valid request low=%d high=%d (frame of %d rows) is rejected", a, b, frameLen))
				}
			}
		}
		switch {
		case len(bad) > 0:
			if len(bad) > 3 {
				bad = append(bad[:3], fmt.Sprintf("... and %d more", len(bad)-3))
			}
			c.bad(key, p.instrPos(sl), "re-slice of the row index with caller-supplied bounds is not guarded exactly by 0 <= low <= high <= length: "+strings.Join(bad, "; "))
		case undec != "":
			c.undecided(key, p.instrPos(sl), "cannot evaluate the bounds checks: "+undec)
		default:
			c.ok(key, p.instrPos(sl), fmt.Sprintf("%d (low, high) pairs around the boundaries evaluated on a frame of %d rows: the re-slice is reached exactly for 0 <= low <= high <= length", nRuns, frameLen))
		}
	}
}

func sameVal(a, b ssa.Value) bool { return a == b }

// ---------- R21 ----------

func runR21(c *Ctx) {
	p := c.P
	for _, fn := range p.Funcs {
		eachInstr(fn, func(in ssa.Instruction) {
			ci, ok := in.(ssa.CallInstruction)
			if !ok {
				return
			}
			cc := ci.Common()
			if cc.IsInvoke() || cc.StaticCallee() != nil || builtinName(ci) != "" {
				return
			}
			ok2, lk, why := lookupGuarded(cc.Value, in.Block(), 0)
			if lk == nil {
				return
			}
			key := fname(fn) + "|call of table entry"
			if ok2 {
				c.ok(key, p.instrPos(in), "comma-ok lookup; the call is dominated by the ok edge")
			} else {
				c.bad(key, p.instrPos(in), "a function value taken from a map is called "+why+": an unknown key yields a nil function and the call panics instead of reporting an error")
			}
		})
	}
}

// lookupGuarded: v comes from a map lookup; is the use in block `at` dominated by ok?
func lookupGuarded(v ssa.Value, at *ssa.BasicBlock, d int) (bool, *ssa.Lookup, string) {
	if d > 5 {
		return true, nil, ""
	}
	switch t := v.(type) {
	case *ssa.Lookup:
		if _, isMap := t.X.Type().Underlying().(*types.Map); isMap && !t.CommaOk {
			return false, t, "without the comma-ok form"
		}
	case *ssa.Extract:
		lk, ok := t.Tuple.(*ssa.Lookup)
		if !ok || t.Index != 0 {
			return true, nil, ""
		}
		for _, r := range *lk.Referrers() {
			if ex, ok := r.(*ssa.Extract); ok && ex.Index == 1 {
				for _, g := range dominatingGuards(at) {
					if g.Cond == ssa.Value(ex) && g.Val {
						return true, lk, ""
					}
				}
			}
		}
		return false, lk, "on a path where the ok result has not been tested"
	case *ssa.Phi:
		var found *ssa.Lookup
		for i, e := range t.Edges {
			ok, lk, why := lookupGuarded(e, t.Block().Preds[i], d+1)
			if lk != nil {
				found = lk
				if !ok {
					// the phi edge itself may be the ok edge of the lookup's test
					pred := t.Block().Preds[i]
					if iff, isIf := pred.Instrs[len(pred.Instrs)-1].(*ssa.If); isIf && pred.Succs[0] == t.Block() && pred.Succs[1] != t.Block() {
						if ex, isEx := iff.Cond.(*ssa.Extract); isEx && ex.Tuple == ssa.Value(lk) && ex.Index == 1 {
							continue
						}
					}
					// the guard may dominate the use instead of the phi edge
					ok2, _, _ := lookupGuarded(e, at, d+1)
					if !ok2 {
						return false, lk, why
					}
				}
			}
		}
		return true, found, ""
	}
	return true, nil, ""
}

// ---------- R22 / R23 ----------

// Frozen sets are keyed by package and kind, not by function name: renaming or moving the function
// that holds a documented panic does not matter; adding a new panic site does.
var r22Allowed = map[string]int{
	"internal/io/sql": 1, // ReadSQL asserts the scan targets it allocated itself a few lines above
}

func runR22(c *Ctx) {
	p := c.P
	count := map[string][]string{}
	for _, fn := range p.Funcs {
		eachInstr(fn, func(in ssa.Instruction) {
			ta, ok := in.(*ssa.TypeAssert)
			if !ok || ta.CommaOk {
				return
			}
			if types.Identical(ta.AssertedType, ta.X.Type()) {
				return // the nil check go/ssa emits for a method value of an interface (`m.Matches`): no type can differ
			}
			pk := strings.TrimPrefix(strings.TrimPrefix(fn.Pkg.Pkg.Path(), modPath), "/")
			count[pk] = append(count[pk], p.instrPos(ta)+" in "+fname(fn)+" ("+types.TypeString(ta.AssertedType, shortQual)+")")
		})
	}
	seen := false
	for pk, sites := range count {
		seen = true
		key := pk + "|single-result type assertions"
		if len(sites) <= r22Allowed[pk] {
			c.ok(key, strings.Fields(sites[0])[0], fmt.Sprintf("%d site(s), within the frozen allowance for this package: %s", len(sites), strings.Join(sites, "; ")))
		} else {
			c.bad(key, strings.Fields(sites[0])[0], fmt.Sprintf("%d single-result type assertions where %d are accepted: a single-result assertion on a dynamically typed value panics when the type differs; invalid use must be reported through Err (%s)", len(sites), r22Allowed[pk], strings.Join(sites, "; ")))
		}
	}
	if !seen {
		c.okTrivial("module|no single-result assertion", "-", "none in scope")
	}
}

// documented / accepted explicit panics per package: root package: the five exported Must*View
// accessors (documented) plus one helper (10,000 colliding temporary names, unreachable in practice);
// internal/ryu: one internal assertion helper.
var r23Allowed = map[string]int{"": 1, "internal/ryu": 1}

func runR23(c *Ctx) {
	p := c.P
	other := map[string][]string{}
	for _, fn := range p.Funcs {
		var at ssa.Instruction
		eachInstr(fn, func(in ssa.Instruction) {
			if pn, ok := in.(*ssa.Panic); ok {
				at = pn
			}
		})
		if at == nil {
			continue
		}
		id := fname(fn)
		if strings.Contains(id, "Generate") || strings.HasSuffix(fn.Pkg.Pkg.Path(), "/generator") {
			continue // development tools
		}
		pk := strings.TrimPrefix(strings.TrimPrefix(fn.Pkg.Pkg.Path(), modPath), "/")
		if obj, ok := fn.Object().(*types.Func); ok && obj.Exported() && strings.HasPrefix(obj.Name(), "Must") && pk == "" {
			c.ok(id+"|explicit panic", p.instrPos(at), "documented: Must* accessors panic on error")
			continue
		}
		other[pk] = append(other[pk], p.instrPos(at)+" in "+id)
	}
	for pk, sites := range other {
		key := pk + "|explicit panics outside Must*"
		if len(sites) <= r23Allowed[pk] {
			c.ok(key, strings.Fields(sites[0])[0], fmt.Sprintf("%d site(s), within the frozen allowance: %s", len(sites), strings.Join(sites, "; ")))
		} else {
			c.bad(key, strings.Fields(sites[0])[0], fmt.Sprintf("%d explicit panic sites where %d are accepted (%s): invalid use must yield Err, never a panic", len(sites), r23Allowed[pk], strings.Join(sites, "; ")))
		}
	}
}

// ---------- R34 ----------

func runR34(c *Ctx) {
	p := c.P
	declaredCardinality(c)
	// minting sites: append to the `values` field. The two guards (!strict, len(values) <= 254) must dominate the
	// site itself or, for what is still missing, every call of the function that contains it (up to two levels).
	type site struct {
		fn  *ssa.Function
		blk *ssa.BasicBlock
		at  ssa.Instruction
	}
	var sites []site
	for _, fn := range p.FuncsIn("internal/ecolumn") {
		eachInstr(fn, func(in ssa.Instruction) {
			call, ok := in.(*ssa.Call)
			if !ok || builtinName(call) != "append" {
				return
			}
			if fld, _ := fieldOf(call.Call.Args[0]); fld != nil && fld.Name() == "values" {
				sites = append(sites, site{fn, call.Block(), call})
			}
		})
	}
	if len(sites) == 0 {
		c.undecided("internal/ecolumn|minting function", "-", "no function appends to the values table")
		return
	}
	var guardsAt func(fn *ssa.Function, blk *ssa.BasicBlock) (strictOK, cardOK bool, hi int64)
	depthGuards := 0
	guardsAt = func(fn *ssa.Function, blk *ssa.BasicBlock) (strictOK, cardOK bool, hi int64) {
		hi = -1
		for _, g := range dominatingGuards(blk) {
			if fld, _ := fieldOf(g.Cond); fld != nil && fld.Name() == "strict" && !g.Val {
				strictOK = true
			}
			// `if err := f.admits(..); err != nil { return err }`: past it, whatever dominates the helper's own
			// `return nil` holds (the helper is a method of the same factory and returns nothing but the error)
			cond, val := unNot(g.Cond, g.Val)
			cmp, ok := cond.(*ssa.BinOp)
			if !ok || !(cmp.Op == token.EQL && val || cmp.Op == token.NEQ && !val) || depthGuards > 1 {
				continue
			}
			var call *ssa.Call
			for _, side := range [][2]ssa.Value{{cmp.X, cmp.Y}, {cmp.Y, cmp.X}} {
				if cst, isC := side[1].(*ssa.Const); isC && cst.IsNil() {
					call, _ = side[0].(*ssa.Call)
				}
			}
			if call == nil {
				continue
			}
			h := call.Call.StaticCallee()
			if h == nil || h.Pkg != fn.Pkg || h.Blocks == nil || h.Signature.Results().Len() != 1 || !isErrorType(h.Signature.Results().At(0).Type()) {
				continue
			}
			allS, allC, n := true, true, 0
			var hh int64 = -1
			eachInstr(h, func(i2 ssa.Instruction) {
				ret, isRet := i2.(*ssa.Return)
				if !isRet || !returnsNilError(ret) {
					return
				}
				n++
				depthGuards++
				s3, c3, h3 := guardsAt(h, ret.Block())
				depthGuards--
				allS = allS && s3
				allC = allC && c3
				hh = h3
			})
			if n > 0 && allS {
				strictOK = true
			}
			if n > 0 && allC {
				cardOK, hi = true, hh
			}
		}
		eachInstr(fn, func(i2 ssa.Instruction) {
			lc, ok := i2.(*ssa.Call)
			if !ok || builtinName(lc) != "len" {
				return
			}
			if fld, _ := fieldOf(lc.Call.Args[0]); fld == nil || fld.Name() != "values" {
				return
			}
			_, h, _, hasHi := bounds(lc, blk)
			if hasHi && h <= 254 {
				cardOK, hi = true, h
			}
		})
		return
	}
	var check func(st site, strictOK, cardOK bool, hi int64, depth int)
	check = func(st site, strictOK, cardOK bool, hi int64, depth int) {
		s2, c2, h2 := guardsAt(st.fn, st.blk)
		strictOK = strictOK || s2
		if c2 {
			cardOK, hi = true, h2
		}
		key := fname(st.fn) + "|mint new enum value"
		if !(strictOK && cardOK) && depth < 3 {
			// what is missing must hold at every call of this function
			callers, asValue := p.staticCallSites(st.fn)
			if len(callers) > 0 && !asValue {
				for _, ci := range callers {
					in := ci.(ssa.Instruction)
					if call, ok := in.(*ssa.Call); ok && isDeclaredRegistration(call) {
						// the constructor registers the declared values in a factory it has just allocated (not
						// strict yet); how many there may be is the declared-cardinality obligation
						c.okTrivial(fname(in.Parent())+"|declared values registered", p.instrPos(in), "declared values are entered one by one into the factory under construction; their number is bounded by the declared-cardinality check")
						continue
					}
					check(site{in.Parent(), in.Block(), in}, strictOK, cardOK, hi, depth+1)
				}
				return
			}
		}
		switch {
		case strictOK && cardOK && hi != 254:
			c.bad(key, p.instrPos(st.at), fmt.Sprintf("the cardinality guard only lets a new value in while len(values) <= %d: derived enums must accept up to 255 distinct values (the 255th is minted when 254 exist)", hi))
		case strictOK && cardOK:
			c.ok(key, p.instrPos(st.at), "dominated by !strict and len(values) <= 254 (exactly: the 255th value is accepted, the 256th rejected)")
		case !strictOK:
			c.bad(key, p.instrPos(st.at), "a new enum value can be minted for a strict (declared) enum: undeclared values are accepted")
		default:
			c.bad(key, p.instrPos(st.at), "a new enum value can be minted when 255 values exist already: the 256th rank collides with the null marker / wraps around")
		}
	}
	for _, st := range sites {
		check(st, false, false, -1, 0)
	}
}

// declaredCardinality: NewFactory accepts exactly the declared lists of up to 255 values.
func declaredCardinality(c *Ctx) {
	p := c.P
	fn := p.Func("internal/ecolumn", "NewFactory")
	if fn == nil {
		c.undecided("internal/ecolumn.NewFactory", "-", "not found")
		return
	}
	key := fname(fn) + "|declared cardinality"
	done := false
	eachInstr(fn, func(in ssa.Instruction) {
		iff, ok := in.(*ssa.If)
		if !ok || done {
			return
		}
		cmp, ok := iff.Cond.(*ssa.BinOp)
		if !ok {
			return
		}
		lc, ok := cmp.X.(*ssa.Call)
		if !ok || builtinName(lc) != "len" {
			return
		}
		k, isK := constInt(cmp.Y)
		if !isK {
			return
		}
		tb := iff.Block().Succs[0]
		ret, isRet := tb.Instrs[len(tb.Instrs)-1].(*ssa.Return)
		if !isRet || returnsNilError(ret) {
			return
		}
		done = true
		minRejected := int64(-1)
		switch cmp.Op {
		case token.GTR:
			minRejected = k + 1
		case token.GEQ:
			minRejected = k
		}
		if minRejected == 256 {
			c.ok(key, p.instrPos(iff), "lists of up to 255 declared values are accepted, 256 and more rejected")
		} else {
			c.bad(key, p.instrPos(iff), fmt.Sprintf("declared value lists are rejected from length %d on; the limit is 255 values (256 must be the first rejected length)", minRejected))
		}
	})
	if !done {
		c.bad(key, p.pos(fn.Pos()), "no guard rejects over-long declared value lists")
	}
}

// ---------- R36 ----------

func runR36(c *Ctx) {
	p := c.P
	fn := p.Func("internal/io/sql", "NewArgBuilder")
	if fn == nil {
		c.undecided("anchor|NewArgBuilder", "-", "sql.NewArgBuilder not found")
		return
	}
	have := map[string]bool{}
	eachInstr(fn, func(in ssa.Instruction) {
		if ta, ok := in.(*ssa.TypeAssert); ok && ta.CommaOk && isColumnStruct(ta.AssertedType) {
			have[ta.AssertedType.(*types.Named).Obj().Pkg().Path()] = true
		}
	})
	var missing []string
	for _, cp := range columnPkgs {
		if !have[rel(cp)] {
			missing = append(missing, cp)
		}
	}
	key := fname(fn) + "|column types handled"
	if len(missing) > 0 {
		c.bad(key, p.pos(fn.Pos()), "no argument builder for "+strings.Join(missing, ", ")+": frames with such columns cannot be written")
	} else {
		c.ok(key, p.pos(fn.Pos()), "all five data column types have a builder")
	}
	// fall-through returns an error: on every path on which each type assertion to a column type fails, the
	// return that is reached carries a non-nil error (wherever the switch puts that return: after it, or in a
	// default clause)
	seen := map[*ssa.BasicBlock]bool{}
	nRet, badRet := 0, ""
	var walk func(b *ssa.BasicBlock)
	walk = func(b *ssa.BasicBlock) {
		if seen[b] {
			return
		}
		seen[b] = true
		last := b.Instrs[len(b.Instrs)-1]
		switch t := last.(type) {
		case *ssa.Return:
			nRet++
			if returnsNilError(t) {
				badRet = p.instrPos(t)
			}
			return
		case *ssa.If:
			if ex, ok := t.Cond.(*ssa.Extract); ok && ex.Index == 1 {
				if ta, ok := ex.Tuple.(*ssa.TypeAssert); ok && ta.CommaOk {
					walk(b.Succs[1]) // the assertion fails
					return
				}
			}
		}
		for _, sc := range b.Succs {
			walk(sc)
		}
	}
	walk(fn.Blocks[0])
	switch {
	case nRet == 0:
		c.undecided(fname(fn)+"|fall-through", p.pos(fn.Pos()), "no return is reachable when every type assertion fails")
	case badRet != "":
		c.bad(fname(fn)+"|fall-through", p.pos(fn.Pos()), "the fall-through of the type switch does not return an error: with a column of none of the handled types the return at "+badRet+" reports success")
	default:
		c.ok(fname(fn)+"|fall-through", p.pos(fn.Pos()), "unknown column types yield an error")
	}
}

// ---------- R25 ----------

func runR25(c *Ctx) {
	p := c.P
	type cfg struct{ pkg, name string }
	cfgs := []cfg{{"config/csv", "Config"}, {"config/csv", "ToConfig"}, {"internal/io", "CSVConfig"}, {"internal/io", "ToCsvConfig"},
		{"config/newqf", "Config"}, {"config/groupby", "Config"}, {"config/sql", "Config"}, {"internal/io/sql", "SQLConfig"},
		{"config/eval", "Config"}}
	// field reads anywhere in scope, keyed by (struct type identity modulo conversion: field name + owning struct's field list)
	reads := map[string]int{}
	sig := func(st *types.Struct) string {
		var fs []string
		for i := 0; i < st.NumFields(); i++ {
			fs = append(fs, st.Field(i).Name()+" "+st.Field(i).Type().String())
		}
		return strings.Join(fs, ";")
	}
	for _, fn := range p.Funcs {
		eachInstr(fn, func(in ssa.Instruction) {
			var st *types.Struct
			var idx int
			switch t := in.(type) {
			case *ssa.Field:
				st, _ = t.X.Type().Underlying().(*types.Struct)
				idx = t.Field
			case *ssa.FieldAddr:
				// a read: the address is loaded (not only stored to)
				isRead := false
				for _, r := range *t.Referrers() {
					if _, isStore := r.(*ssa.Store); !isStore {
						isRead = true
					} else if r.(*ssa.Store).Addr != ssa.Value(t) {
						isRead = true
					}
				}
				if !isRead {
					return
				}
				st, _ = deref(t.X.Type()).Underlying().(*types.Struct)
				idx = t.Field
			default:
				return
			}
			if st == nil {
				return
			}
			reads[sig(st)+"#"+st.Field(idx).Name()]++
		})
	}
	for _, cf := range cfgs {
		n := p.Named(cf.pkg, cf.name)
		if n == nil {
			c.undecided(cf.pkg+"."+cf.name, "-", "config type not found")
			continue
		}
		st, ok := n.Underlying().(*types.Struct)
		if !ok {
			continue
		}
		for i := 0; i < st.NumFields(); i++ {
			f := st.Field(i)
			key := cf.pkg + "." + cf.name + "." + f.Name()
			if reads[sig(st)+"#"+f.Name()] > 0 {
				c.ok(key, p.pos(f.Pos()), fmt.Sprintf("read at %d site(s)", reads[sig(st)+"#"+f.Name()]))
			} else {
				c.bad(key, p.pos(f.Pos()), "no code reads this option: it is accepted and silently ignored")
			}
		}
	}
}

// staleMask: the table field read for the access may have been replaced (by a call to a function
// that stores to that field, e.g. grow) after the length used for the mask was read.
func staleMask(p *Prog, ia *ssa.IndexAddr) string {
	fld, _ := fieldOf(ia.X)
	if fld == nil {
		return ""
	}
	fn := ia.Parent()
	// writers of the field
	writers := map[*ssa.Function]bool{}
	for _, g := range p.FuncsIn("internal/grouper") {
		eachInstr(g, func(in ssa.Instruction) {
			if st, ok := in.(*ssa.Store); ok {
				if fa, ok := st.Addr.(*ssa.FieldAddr); ok {
					if s, ok := deref(fa.X.Type()).Underlying().(*types.Struct); ok && s.Field(fa.Field) == fld {
						writers[g] = true
					}
				}
			}
		})
	}
	// length reads of the same field in this function
	var lens []ssa.Instruction
	eachInstr(fn, func(in ssa.Instruction) {
		if call, ok := in.(*ssa.Call); ok && builtinName(call) == "len" {
			if f2, _ := fieldOf(call.Call.Args[0]); f2 == fld {
				lens = append(lens, call)
			}
		}
	})
	var calls []ssa.Instruction
	eachInstr(fn, func(in ssa.Instruction) {
		if ci, ok := in.(ssa.CallInstruction); ok {
			if callee := ci.Common().StaticCallee(); callee != nil && writers[callee] {
				calls = append(calls, in)
			}
		}
	})
	for _, l := range lens {
		for _, w := range calls {
			if instrReaches(l, w) && instrReaches(w, ia) {
				return fmt.Sprintf("the table may be replaced by %s (at %s) after its length was read for the mask (at %s) and before this access: the probe uses the old table's mask on the new table", fname(w.(ssa.CallInstruction).Common().StaticCallee()), p.instrPos(w), p.instrPos(l))
			}
		}
	}
	return ""
}

// instrReaches: b can execute after a on some path.
func instrReaches(a, b ssa.Instruction) bool {
	if a.Block() == b.Block() {
		if precedes(a, b) && a != b {
			return true
		}
	}
	for _, s := range a.Block().Succs {
		for _, r := range reachableAvoiding(s, nil) {
			if r == b.Block() {
				return true
			}
		}
	}
	return false
}

// ---------- R51 ----------

func runR51(c *Ctx) {
	p := c.P
	fn := p.Func("", "QFrame.Select")
	if fn == nil {
		c.undecided("anchor|Select", "-", "QFrame.Select not found")
		return
	}
	recv, cols := fn.Params[0], fn.Params[1]
	dependsOnElems := func(v ssa.Value) bool {
		seen := map[ssa.Value]bool{}
		found := false
		var walk func(v ssa.Value, d int)
		walk = func(v ssa.Value, d int) {
			if v == nil || seen[v] || d > 12 || found {
				return
			}
			seen[v] = true
			if ia, ok := v.(*ssa.IndexAddr); ok && rootValue(ia.X) == ssa.Value(cols) {
				found = true
				return
			}
			if call, ok := v.(*ssa.Call); ok {
				// a helper that is handed the list itself may inspect its elements
				for _, a := range call.Call.Args {
					if rootValue(a) == ssa.Value(cols) && builtinName(call) == "" {
						found = true
						return
					}
				}
			}
			if in, ok := v.(ssa.Instruction); ok {
				var ops []*ssa.Value
				for _, o := range in.Operands(ops) {
					if o != nil && *o != nil {
						walk(*o, d+1)
					}
				}
			}
		}
		walk(v, 0)
		return found
	}
	n := 0
	eachInstr(fn, func(in ssa.Instruction) {
		ret, ok := in.(*ssa.Return)
		if !ok {
			return
		}
		ld, ok := ret.Results[0].(*ssa.UnOp)
		if !ok || !rootIsParam(ld.X, recv) {
			return
		}
		n++
		key := fname(fn) + "|return of the receiver"
		// the branch that directly decides to return the receiver
		okG := false
		blk := ret.Block()
		if len(blk.Preds) == 1 {
			if iff, ok := blk.Preds[0].Instrs[len(blk.Preds[0].Instrs)-1].(*ssa.If); ok {
				cond, _ := unNot(iff.Cond, true)
				if dependsOnElems(cond) {
					okG = true
				}
				if cmp, ok := cond.(*ssa.BinOp); ok {
					for _, o := range []ssa.Value{cmp.X, cmp.Y} {
						if fld, _ := fieldOf(o); fld != nil && fld.Name() == "Err" {
							okG = true
						}
					}
				}
			}
		}
		if okG {
			c.ok(key, p.instrPos(ret), "only for an errored frame / under a test of the requested names")
		} else {
			c.bad(key, p.instrPos(ret), "the receiver is returned as the projection without any test of the requested column names: Select(all columns in another order) keeps the old order")
		}
	})
	if n == 0 {
		c.undecided(fname(fn)+"|return of the receiver", p.pos(fn.Pos()), "no return of the receiver found (not even for an errored frame)")
	}
}
