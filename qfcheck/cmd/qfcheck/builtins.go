package main

import (
	"fmt"
	"go/token"
	"go/types"
	"strings"

	"golang.org/x/tools/go/ssa"
)

// R114: the functions of the default evaluation context compute what the name they are registered under
// denotes. Boolean functions are decided by their complete truth table (E5), arithmetic ones by the operator
// and operand order of the returned expression, abs/bool/int conversions by sign worlds.

func init() {
	register(&Rule{ID: "R114", Name: "BUILTIN-TABLE", Floor: 40,
		Text: "every function value stored under a constant name in the maps built by eval.NewDefaultCtx is checked against the meaning of that name for its signature: boolean functions (`!`, `&`, `|`, `!=`, `nand`, and `int` on bool) are evaluated (E5, helpers inlined) for every assignment of their arguments and must produce the truth table of not, and, or, xor, not-and, and 1/0; `+ - * /` on int and float must return that operator applied to (first, second) argument - either order for + and *; `abs` on int is evaluated in the sign worlds (negative, zero, positive) and must return -x, x or -x, x; `abs` on float must be math.Abs; `bool` on int must be x != 0; `float` on int and `int` on float must be the plain conversion of the argument. The entry must also be filed where lookup expects it: under singleArgs iff it takes one argument, and in the map of the types.FunctionType matching its argument type. The result type is the one the name promises for every argument type (str -> *string, int/len -> int, float -> float64, bool and the logical operators -> bool, abs and arithmetic -> the argument type), and upper / lower are built from strings.ToUpper / strings.ToLower respectively. What str and the string functions compute beyond that is not covered (library calls)",
		Run:  runR114})
}

type builtinEntry struct {
	name   string
	fn     *ssa.Function
	at     ssa.Instruction
	arity  string      // "singleArgs" | "doubleArgs" | ""
	ftype  string      // name of the types.FunctionType constant, "" if not traced
	global *ssa.Global // set when the value is a package-level variable instead of a function
}

// defaultCtxEntries collects the (name -> function) MapUpdates of NewDefaultCtx and the helpers it calls in its package.
func defaultCtxEntries(p *Prog) []builtinEntry {
	root := p.Func("config/eval", "NewDefaultCtx")
	if root == nil {
		return nil
	}
	// constant names of types.FunctionType values
	ftNames := map[string]string{}
	if tp := p.PkgByID[rel("types")]; tp != nil {
		sc := tp.Types.Scope()
		for _, n := range sc.Names() {
			if k, ok := sc.Lookup(n).(*types.Const); ok {
				if nt, ok := k.Type().(*types.Named); ok && nt.Obj().Name() == "FunctionType" {
					ftNames[k.Val().ExactString()] = n
				}
			}
		}
	}
	var out []builtinEntry
	seen := map[*ssa.Function]bool{}
	var visit func(fn *ssa.Function)
	visit = func(fn *ssa.Function) {
		if fn == nil || seen[fn] || fn.Blocks == nil {
			return
		}
		seen[fn] = true
		// inner map -> (arity field, function type constant)
		arityOf := map[ssa.Value]string{}
		ftypeOf := map[ssa.Value]string{}
		eachInstr(fn, func(in ssa.Instruction) {
			st, ok := in.(*ssa.Store)
			if !ok {
				return
			}
			fa, ok := st.Addr.(*ssa.FieldAddr)
			if !ok {
				return
			}
			if _, isMap := st.Val.Type().Underlying().(*types.Map); !isMap {
				return
			}
			arityOf[st.Val] = fieldNameAt(fa)
			// the struct is then stored into the outer map under a FunctionType constant
			if al, ok := fa.X.(*ssa.Alloc); ok {
				for _, r := range *al.Referrers() {
					ld, ok := r.(*ssa.UnOp)
					if !ok || ld.Op != token.MUL {
						continue
					}
					for _, r2 := range *ld.Referrers() {
						if mu, ok := r2.(*ssa.MapUpdate); ok && mu.Value == ssa.Value(ld) {
							if k, ok := mu.Key.(*ssa.Const); ok && k.Value != nil {
								ftypeOf[st.Val] = ftNames[k.Value.ExactString()]
							}
						}
					}
				}
			}
		})
		eachInstr(fn, func(in ssa.Instruction) {
			if call, ok := in.(*ssa.Call); ok {
				if callee := call.Call.StaticCallee(); callee != nil && callee.Pkg == fn.Pkg {
					visit(callee)
				}
			}
			mu, ok := in.(*ssa.MapUpdate)
			if !ok {
				return
			}
			name, isStr := constString(mu.Key)
			if !isStr {
				return
			}
			v := mu.Value
			if mi, ok := v.(*ssa.MakeInterface); ok {
				v = mi.X
			}
			if ct, ok := v.(*ssa.ChangeType); ok {
				v = ct.X
			}
			e := builtinEntry{name: name, at: in, arity: arityOf[mu.Map], ftype: ftypeOf[mu.Map]}
			switch t := v.(type) {
			case *ssa.Function:
				e.fn = t
			case *ssa.UnOp:
				if g, ok := t.X.(*ssa.Global); ok {
					e.global = g
				}
			}
			if _, isSig := v.Type().Underlying().(*types.Signature); isSig {
				out = append(out, e)
			}
		})
	}
	visit(root)
	return out
}

// valueSig: the signature of the entry's value (a function, or a package-level variable of function type).
func (e builtinEntry) valueSig() (*types.Signature, bool) {
	if e.fn != nil {
		return e.fn.Signature, true
	}
	if e.global != nil {
		sig, ok := deref(e.global.Type()).Underlying().(*types.Signature)
		return sig, ok
	}
	return nil, false
}

// stdStringsFuncs: the functions of the standard strings package the entry's value is built from: called in the
// function (or the closures of its body), or handed to the helper that builds the package-level variable.
func (e builtinEntry) stdStringsFuncs() map[string]bool {
	out := map[string]bool{}
	note := func(v ssa.Value) {
		if f, ok := v.(*ssa.Function); ok && f.Pkg != nil && f.Pkg.Pkg.Path() == "strings" {
			out[f.Name()] = true
		}
	}
	var scan func(f *ssa.Function, d int)
	scan = func(f *ssa.Function, d int) {
		if f == nil || d > 2 {
			return
		}
		eachInstr(f, func(in ssa.Instruction) {
			var ops []*ssa.Value
			for _, op := range in.Operands(ops) {
				if op != nil && *op != nil {
					note(*op)
				}
			}
		})
		for _, af := range f.AnonFuncs {
			scan(af, d+1)
		}
	}
	if e.fn != nil {
		scan(e.fn, 0)
	}
	if e.global != nil && e.global.Pkg != nil {
		if init := e.global.Pkg.Func("init"); init != nil {
			eachInstr(init, func(in ssa.Instruction) {
				st, ok := in.(*ssa.Store)
				if !ok || st.Addr != ssa.Value(e.global) {
					return
				}
				switch v := st.Val.(type) {
				case *ssa.Function:
					scan(v, 0)
				case *ssa.MakeClosure:
					scan(v.Fn.(*ssa.Function), 0)
					for _, b := range v.Bindings {
						note(b)
					}
				case *ssa.Call:
					for _, a := range v.Call.Args {
						note(a)
						if mc, ok := a.(*ssa.MakeClosure); ok {
							scan(mc.Fn.(*ssa.Function), 0)
						}
					}
				}
			})
		}
	}
	return out
}

func basicKind(t types.Type) types.BasicKind {
	if b, ok := t.Underlying().(*types.Basic); ok {
		return b.Kind()
	}
	return types.Invalid
}

// evalBoolFn evaluates fn for the given boolean arguments; returns the resolved result value and the executor.
func evalBoolFn(fn *ssa.Function, env map[*ssa.Parameter]bool) (ssa.Value, *pathExec, func(v ssa.Value) (bool, bool), string) {
	pe := &pathExec{fn: fn}
	var ev func(v ssa.Value, d int) (bool, bool)
	ev = func(v ssa.Value, d int) (bool, bool) {
		if d > 30 {
			return false, false
		}
		v = pe.resolve(v)
		if isConstBool(v, true) {
			return true, true
		}
		if isConstBool(v, false) {
			return false, true
		}
		switch t := v.(type) {
		case *ssa.Parameter:
			b, ok := env[t]
			return b, ok
		case *ssa.UnOp:
			if t.Op == token.NOT {
				x, ok := ev(t.X, d+1)
				return !x, ok
			}
		case *ssa.BinOp:
			if basicKind(t.X.Type()) == types.Bool || basicKind(t.X.Type()) == types.UntypedBool {
				x, ok1 := ev(t.X, d+1)
				y, ok2 := ev(t.Y, d+1)
				if ok1 && ok2 {
					switch t.Op {
					case token.EQL:
						return x == y, true
					case token.NEQ, token.XOR:
						return x != y, true
					case token.AND:
						return x && y, true
					case token.OR:
						return x || y, true
					}
				}
			}
		}
		return false, false
	}
	evb := func(v ssa.Value) (bool, bool) { return ev(v, 0) }
	pe.oracle = func(pe *pathExec, cond ssa.Value) (bool, bool) { return evb(cond) }
	pe.inline = func(callee *ssa.Function) bool { return callee.Pkg == fn.Pkg }
	end, why := pe.run()
	ret, ok := end.(*ssa.Return)
	if !ok || len(ret.Results) != 1 {
		if why == "" {
			why = "does not return one value"
		}
		return nil, pe, evb, why
	}
	return ret.Results[0], pe, evb, ""
}

func runR114(c *Ctx) {
	p := c.P
	ents := defaultCtxEntries(p)
	if len(ents) == 0 {
		c.undecided("config/eval.NewDefaultCtx|table", "-", "no (name -> function) entries found")
		return
	}
	boolSpec := map[string]func(x, y bool) bool{
		"!":    func(x, _ bool) bool { return !x },
		"&":    func(x, y bool) bool { return x && y },
		"|":    func(x, y bool) bool { return x || y },
		"!=":   func(x, y bool) bool { return x != y },
		"nand": func(x, y bool) bool { return !(x && y) },
	}
	arith := map[string]token.Token{"+": token.ADD, "-": token.SUB, "*": token.MUL, "/": token.QUO}
	ftypeOfKind := map[types.BasicKind]string{types.Int: "FunctionTypeInt", types.Float64: "FunctionTypeFloat", types.Bool: "FunctionTypeBool"}
	for _, e := range ents {
		pos := p.instrPos(e.at)
		// (e) the result type the name promises, whatever the argument type: str -> *string, int -> int,
		// float -> float64, bool and the logical operators -> bool, len -> int, upper/lower -> *string; abs and the
		// arithmetic operators return the type of their argument
		if vsig, ok := e.valueSig(); ok && vsig.Results().Len() == 1 && vsig.Params().Len() >= 1 {
			rt := vsig.Results().At(0).Type()
			kindName := func(t types.Type) string {
				if pt, ok := t.Underlying().(*types.Pointer); ok && basicKind(pt.Elem()) == types.String {
					return "*string"
				}
				return t.String()
			}
			want := map[string]string{"str": "*string", "upper": "*string", "lower": "*string", "int": "int", "len": "int", "float": "float64",
				"bool": "bool", "!": "bool", "&": "bool", "|": "bool", "!=": "bool", "nand": "bool"}[e.name]
			switch e.name {
			case "abs", "+", "-", "*", "/":
				want = kindName(vsig.Params().At(0).Type())
			}
			rkey := fmt.Sprintf("config/eval.NewDefaultCtx|%q on %s|result type", e.name, kindName(vsig.Params().At(0).Type()))
			if want != "" {
				if got := kindName(rt); got != want {
					c.bad(rkey, pos, fmt.Sprintf("the function registered as %q returns %s: the name denotes a function whose value is a %s (a neighbour's function was filed under this name)", e.name, got, want))
				} else {
					c.okTrivial(rkey, pos, "returns "+want)
				}
			}
		}
		// (f) upper / lower: built from strings.ToUpper / strings.ToLower respectively
		if e.name == "upper" || e.name == "lower" {
			ukey := fmt.Sprintf("config/eval.NewDefaultCtx|%q|library function", e.name)
			want := map[string]string{"upper": "ToUpper", "lower": "ToLower"}[e.name]
			other := map[string]string{"upper": "ToLower", "lower": "ToUpper"}[e.name]
			uses := e.stdStringsFuncs()
			switch {
			case uses[want] && !uses[other]:
				c.ok(ukey, pos, "built from strings."+want)
			case uses[other]:
				c.bad(ukey, pos, fmt.Sprintf("the function registered as %q is built from strings.%s", e.name, other))
			default:
				c.bad(ukey, pos, fmt.Sprintf("the function registered as %q does not use strings.%s", e.name, want))
			}
		}
		if e.fn == nil {
			continue // a package-level function variable (the string functions): evaluated no further
		}
		fn := e.fn
		sig := fn.Signature
		np := sig.Params().Len()
		key := fmt.Sprintf("config/eval.NewDefaultCtx|%q %s", e.name, types.TypeString(sig, func(*types.Package) string { return "" }))
		// filing
		if e.arity != "" {
			want := map[int]string{1: "singleArgs", 2: "doubleArgs"}[np]
			if want != "" && !strings.EqualFold(e.arity, want) {
				c.bad(key+"|filed", pos, fmt.Sprintf("a function of %d argument(s) is filed under %s: lookup by argument count finds the wrong kind of function", np, e.arity))
			} else if want != "" {
				c.okTrivial(key+"|filed", pos, "filed under "+e.arity)
			}
		}
		if e.ftype != "" && np > 0 {
			k := basicKind(sig.Params().At(0).Type())
			if ptr, ok := sig.Params().At(0).Type().Underlying().(*types.Pointer); ok && basicKind(ptr.Elem()) == types.String {
				if e.ftype != "FunctionTypeString" {
					c.bad(key+"|type", pos, "a string function is filed under "+e.ftype)
				}
			} else if want, ok := ftypeOfKind[k]; ok {
				if want != e.ftype {
					c.bad(key+"|type", pos, fmt.Sprintf("a function on %s is filed under %s", sig.Params().At(0).Type(), e.ftype))
				} else {
					c.okTrivial(key+"|type", pos, "filed under "+e.ftype)
				}
			}
		}
		if np == 0 || np > 2 || sig.Results().Len() != 1 {
			continue
		}
		pk := basicKind(sig.Params().At(0).Type())
		rk := basicKind(sig.Results().At(0).Type())
		if np == 2 && basicKind(sig.Params().At(1).Type()) != pk {
			continue
		}
		switch {
		case pk == types.Bool && rk == types.Bool && boolSpec[e.name] != nil && fn.Blocks != nil:
			spec := boolSpec[e.name]
			bad, und := "", ""
			for w := 0; w < 1<<uint(np); w++ {
				env := map[*ssa.Parameter]bool{}
				x := w&1 != 0
				y := w&2 != 0
				env[fn.Params[0]] = x
				if np == 2 {
					env[fn.Params[1]] = y
				}
				res, _, evb, why := evalBoolFn(fn, env)
				if res == nil {
					und = why
					break
				}
				got, ok := evb(res)
				if !ok {
					und = "the result is not a boolean expression of the arguments"
					break
				}
				if got != spec(x, y) {
					if np == 1 {
						bad = fmt.Sprintf("%s(%v) = %v", fn.Name(), x, got)
					} else {
						bad = fmt.Sprintf("%s(%v, %v) = %v", fn.Name(), x, y, got)
					}
					break
				}
			}
			switch {
			case und != "":
				c.undecided(key, p.pos(fn.Pos()), "cannot evaluate "+fname(fn)+": "+und)
			case bad != "":
				c.bad(key, p.pos(fn.Pos()), fmt.Sprintf("%s, which is not what %q denotes on booleans", bad, e.name))
			default:
				c.ok(key, p.pos(fn.Pos()), fmt.Sprintf("%s has the truth table of %q", fname(fn), e.name))
			}
		case pk == types.Bool && rk == types.Int && e.name == "int" && fn.Blocks != nil:
			bad, und := "", ""
			for _, x := range []bool{false, true} {
				res, pe, _, why := evalBoolFn(fn, map[*ssa.Parameter]bool{fn.Params[0]: x})
				if res == nil {
					und = why
					break
				}
				k, ok := pe.intOf(res, 0)
				if !ok {
					und = "the result is not a constant in this world"
					break
				}
				if want := map[bool]int64{false: 0, true: 1}[x]; k != want {
					bad = fmt.Sprintf("%s(%v) = %d", fn.Name(), x, k)
					break
				}
			}
			switch {
			case und != "":
				c.undecided(key, p.pos(fn.Pos()), "cannot evaluate "+fname(fn)+": "+und)
			case bad != "":
				c.bad(key, p.pos(fn.Pos()), bad+": true is 1 and false is 0")
			default:
				c.ok(key, p.pos(fn.Pos()), "true -> 1, false -> 0")
			}
		case (pk == types.Int || pk == types.Float64) && rk == pk && np == 2 && arith[e.name] != token.ILLEGAL && fn.Blocks != nil:
			op := arith[e.name]
			pe := &pathExec{fn: fn}
			pe.oracle = func(pe *pathExec, cond ssa.Value) (bool, bool) { return false, false }
			pe.inline = func(callee *ssa.Function) bool { return callee.Pkg == fn.Pkg }
			end, _ := pe.run()
			ret, ok := end.(*ssa.Return)
			if !ok {
				c.undecided(key, p.pos(fn.Pos()), fname(fn)+" is not a straight-line function")
				continue
			}
			b, ok := pe.resolve(ret.Results[0]).(*ssa.BinOp)
			if !ok {
				c.undecided(key, p.pos(fn.Pos()), fname(fn)+" does not return an arithmetic expression")
				continue
			}
			x, y := pe.resolve(b.X), pe.resolve(b.Y)
			p0, p1 := ssa.Value(fn.Params[0]), ssa.Value(fn.Params[1])
			inOrder := x == p0 && y == p1
			swapped := x == p1 && y == p0
			commut := op == token.ADD || op == token.MUL
			switch {
			case b.Op != op && (inOrder || swapped):
				c.bad(key, p.instrPos(ret), fmt.Sprintf("%s returns x %s y under the name %q", fname(fn), b.Op, e.name))
			case inOrder || swapped && commut:
				c.ok(key, p.instrPos(ret), fmt.Sprintf("returns x %s y", b.Op))
			case swapped:
				c.bad(key, p.instrPos(ret), fmt.Sprintf("%s returns y %s x: the operands are applied in the wrong order", fname(fn), b.Op))
			default:
				c.undecided(key, p.instrPos(ret), "the returned expression is not an operator applied to the two arguments")
			}
		case pk == types.Int && rk == types.Int && np == 1 && e.name == "abs" && fn.Blocks != nil:
			bad, und := "", ""
			for _, sign := range []int{-1, 0, 1} {
				pe := &pathExec{fn: fn}
				prm := fn.Params[0]
				pe.oracle = func(pe *pathExec, cond ssa.Value) (bool, bool) {
					return pe.evalBool(cond, func(v ssa.Value) (bool, bool) {
						b, ok := v.(*ssa.BinOp)
						if !ok {
							return false, false
						}
						var s int
						switch {
						case b.X == ssa.Value(prm):
							if k, isK := constInt(b.Y); !isK || k != 0 {
								return false, false
							}
							s = sign
						case b.Y == ssa.Value(prm):
							if k, isK := constInt(b.X); !isK || k != 0 {
								return false, false
							}
							s = -sign // 0 OP x  <=>  -sign(x) OP 0
						default:
							return false, false
						}
						switch b.Op {
						case token.LSS:
							return s < 0, true
						case token.LEQ:
							return s <= 0, true
						case token.GTR:
							return s > 0, true
						case token.GEQ:
							return s >= 0, true
						case token.EQL:
							return s == 0, true
						case token.NEQ:
							return s != 0, true
						}
						return false, false
					})
				}
				end, why := pe.run()
				ret, ok := end.(*ssa.Return)
				if !ok {
					und = why
					break
				}
				r := pe.resolve(ret.Results[0])
				isX := r == ssa.Value(prm)
				isNeg := false
				if u, ok := r.(*ssa.UnOp); ok && u.Op == token.SUB && pe.resolve(u.X) == ssa.Value(prm) {
					isNeg = true
				}
				if b, ok := r.(*ssa.BinOp); ok && b.Op == token.SUB && pe.resolve(b.Y) == ssa.Value(prm) {
					if k, isK := constInt(b.X); isK && k == 0 {
						isNeg = true
					}
				}
				if k, isK := constInt(r); isK && k == 0 && sign == 0 {
					isX = true
				}
				if !isX && !isNeg {
					und = "the result is neither the argument nor its negation"
					break
				}
				if sign < 0 && !isNeg || sign > 0 && !isX {
					bad = fmt.Sprintf("for a %s argument %s returns %s", map[int]string{-1: "negative", 1: "positive"}[sign], fname(fn), map[bool]string{true: "-x", false: "x"}[isNeg])
					break
				}
			}
			switch {
			case und != "":
				c.undecided(key, p.pos(fn.Pos()), "cannot evaluate "+fname(fn)+": "+und)
			case bad != "":
				c.bad(key, p.pos(fn.Pos()), bad)
			default:
				c.ok(key, p.pos(fn.Pos()), "negative -> -x, positive -> x")
			}
		case pk == types.Float64 && rk == types.Float64 && np == 1 && e.name == "abs":
			if fn.Pkg != nil && fn.Pkg.Pkg.Path() == "math" && fn.Name() == "Abs" {
				c.ok(key, pos, "math.Abs")
			} else if fn.Blocks == nil {
				c.bad(key, pos, fmt.Sprintf("%s is registered as abs on floats", fn.String()))
			} else {
				c.undecided(key, pos, "a hand-written float abs is not evaluated")
			}
		case pk == types.Int && rk == types.Bool && np == 1 && e.name == "bool" && fn.Blocks != nil:
			bad, und := "", ""
			for _, zero := range []bool{true, false} {
				pe := &pathExec{fn: fn}
				prm := fn.Params[0]
				atom := func(v ssa.Value) (bool, bool) {
					b, ok := v.(*ssa.BinOp)
					if !ok || b.Op != token.EQL && b.Op != token.NEQ {
						return false, false
					}
					var other ssa.Value
					switch {
					case b.X == ssa.Value(prm):
						other = b.Y
					case b.Y == ssa.Value(prm):
						other = b.X
					default:
						return false, false
					}
					if k, isK := constInt(other); !isK || k != 0 {
						return false, false
					}
					return zero == (b.Op == token.EQL), true
				}
				pe.oracle = func(pe *pathExec, cond ssa.Value) (bool, bool) { return pe.evalBool(cond, atom) }
				end, why := pe.run()
				ret, ok := end.(*ssa.Return)
				if !ok {
					und = why
					break
				}
				got, known := pe.evalBool(ret.Results[0], atom)
				if !known {
					und = "the result is not a test of the argument against 0"
					break
				}
				if got != !zero {
					bad = fmt.Sprintf("%s(%s) = %v", fname(fn), map[bool]string{true: "0", false: "non-zero"}[zero], got)
					break
				}
			}
			switch {
			case und != "":
				c.undecided(key, p.pos(fn.Pos()), "cannot evaluate "+fname(fn)+": "+und)
			case bad != "":
				c.bad(key, p.pos(fn.Pos()), bad+": 0 is false, everything else true")
			default:
				c.ok(key, p.pos(fn.Pos()), "x != 0")
			}
		case (pk == types.Int && rk == types.Float64 && e.name == "float" || pk == types.Float64 && rk == types.Int && e.name == "int") && np == 1 && fn.Blocks != nil:
			pe := &pathExec{fn: fn}
			pe.oracle = func(pe *pathExec, cond ssa.Value) (bool, bool) { return false, false }
			end, _ := pe.run()
			ret, ok := end.(*ssa.Return)
			if !ok {
				c.undecided(key, p.pos(fn.Pos()), fname(fn)+" is not a straight-line function")
				continue
			}
			if cv, ok := pe.resolve(ret.Results[0]).(*ssa.Convert); ok && pe.resolve(cv.X) == ssa.Value(fn.Params[0]) {
				c.ok(key, p.instrPos(ret), "the conversion of the argument")
			} else {
				c.bad(key, p.instrPos(ret), fname(fn)+" does not return the plain conversion of its argument")
			}
		}
	}
}
