package main

func init() {
	prop("C02", []string{"R3"}, "R3", "todo")
}
