package main

// Property -> rules. Each property lists the clauses its rules decide and, plainly, what they do not.
func init() {
	prop("C01", []string{"R1", "R66"},
		"the whole statement in the form `no public operation writes memory that existed before it started` (R1 over every public root: receiver, arguments and every frame, grouper or view that shares storage with them stay bit-for-bit unchanged for every sharing history; append on a prestate slice counts as a write).",
		"nothing is excluded; the verdict rests on the points-to abstraction (allocation-site objects, folded recursive paths, by-value nesting bounded at 5) and on the library summary table.",
		"New keeps the caller's slices by reference: a caller who later writes them alters the frame (caller's write, outside the property)")
	prop("C02", []string{"R3", "R4", "R5", "R6", "R7", "R8", "R42", "R40", "R31", "R35", "R59", "R57", "R67", "R74", "R79", "R80", "R98", "R94", "R102", "R106", "R72", "R109", "R113"},
		"(i) OR accumulation is sound for every nesting: every store into the shared boolean index is monotone (R3); (ii) every built-in comparison kernel compares with the operator its table key names, cell on the left, column arguments read on the same row, all five types agreeing (R4); (iii) the negation shortcut is the logical complement including nulls, per column type (R5); (iv) kernels read the cell of row i at physical position index[i] and write bit i (R6, R42); (v) kept rows are a subsequence of the frame's rows in order, once each, foreign positions excluded (R7, R8); errors of column kernels reach Err (R31).",
		"that orFrames' merge selects exactly the union and NotClause exactly the difference (value reasoning; they are in-order subsequences by R8); semantics of in/any_bits/all_bits; int<->float promotion; user predicates.")
	prop("C03", []string{"R9", "R10", "R7", "R1s", "R6", "R78"},
		"(i) the result is a permutation of the frame's rows, each whole: the sorter only exchanges elements of a private copy of the index (R9, R1s, R7); (ii) per type the order table encodes Reverse/NullLast exactly as stated and Compare returns the table entry matching the actual relation and nullness of the two cells (R10); comparisons receive physical positions (R6); Less is the lexicographic composition with null-vs-null ties falling through (R10c).",
		"that quickSort/doPivot/heapSort/insertionSort arrange the index in non-decreasing order of Less: algorithm correctness over all n and tie structures; a mis-sorting change inside those four functions is NOT detected (it is still a permutation).")
	prop("C04", []string{"R11", "R12", "R10", "R13", "R17", "R6", "R7", "R8", "R40", "R37", "R38", "R54", "R55", "R1g", "R25", "R72", "R93", "R98", "R99", "R108"},
		"group indexes contain only rows of the frame (R7) and are private to the call (R1g); an occupied table entry is selected only after equals said so (R11); hash and equality agree incl. signed zeros and NaNs (R12, R10); probe positions are masked by the length of the very table they index (R38); every aggregate value is the aggregation function applied to the group's compact values in frame order, one call per group (R37, R40, R8); result columns are placed consistently and named legally (R13, R17); Columns/Null options are consulted (R25).",
		"the open-addressing table as an algorithm (that every row is inserted exactly once and found again across growth steps beyond the mask/equality conditions); that sum/min/max/avg/majority compute what their names say.")
	prop("C05", []string{"R11", "R12", "R10", "R6", "R7", "R8", "R38", "R54", "R55", "R1g", "R25", "R39", "R74", "R76", "R93", "R98", "R99", "R108"},
		"returned rows are input rows, unmodified (R7: first positions come from the index; withIndex shares columns; R1g); each occupied table entry contributes exactly once (R8 on the collection loop); entries are distinct keys (R11) and equal keys share a hash (R12, R10); probing is masked by the table's own length (R38); options are consulted (R25); column names are validated before any success return (R39).",
		"the open-addressing table as an algorithm (same as C04).")
	prop("C06", []string{"R6", "R42", "R40", "R53", "R13", "R8", "R1a", "R43", "R68", "R82", "R98", "R95", "R107", "R72"},
		"source and destination use the same physical row, result slices are sized by the column's physical length (R42), user functions run once per row of the frame in frame order (R40), every access goes through the index (R6); the destination replaces an existing column in its position or is appended last for frames however derived (R13); nothing else changes (R1a); FilteredApply restores the original index on the result (R43).",
		"which built-in a name resolves to; result typing by function signature; zero/null fill of unmatched rows (follows from make's zero values plus R42's sizing; argued, not checked).")
	prop("C07", []string{"R14", "R15", "R21", "R31", "R53", "R1a", "R1x", "R47", "R13", "R40", "R42", "R6", "R93", "R103", "R105", "R107"},
		"no temporary survives and no original column is dropped (R14); operands are applied in the order written in the binary forms, across the constructor/execute pairs (R15); function lookups are comma-ok and failures surface through Err (R21, R31); evaluation does not write the original frame or the evaluation context (R1a).",
		"the left fold of n-ary Expr (recursive slice surgery); decoding priority in newExpr; that the function found is the right one.")
	prop("C08", []string{"R16", "R17", "R18", "R13", "R19", "R25", "R1n", "R39", "R51", "R1r", "R73", "R82", "R93", "R98", "R111"},
		"unequal lengths are rejected for every column order (R16); illegal names never enter a frame (R17); Slice validates 0<=start<=end<=len before slicing (R18); positions stay consistent through New/Select/Drop/Copy (R13); the string cell packing is one consistent bit layout (R19); ColumnOrder/Enums are consulted (R25); projections do not disturb the source (R1n); column names are validated before any success return (R39).",
		"that cell values are reproduced (value level); alphabetical default order (a sort.Strings call exists; listed, not proved); byte-blob offsets in scolumn.New*.")
	prop("C09", []string{"R6", "R42", "R44", "R63", "R70", "R13", "R84", "R85", "R98", "R104"},
		"every accessor translates logical row i to position index[i]: views, ToCSV, ToJSON, String, ToSQL builders, Equals (R6); Equals reads the receiver through its own index and the other column through the other index at the same logical row, for all five types, and a type mismatch is unequal (R44); column order observed through names and through positions agree (R13).",
		"reflexivity/symmetry/transitivity as such; NaN/null equality is checked only as far as R44's shape; String's truncation; `rebuilt with New is Equal`.")
	prop("C10", []string{"R20", "R21", "R22", "R23", "R17", "R18", "R31", "R41", "R39", "R46", "R52", "R16", "R81", "R84", "R104", "R107", "R109", "R111"},
		"stickiness without callbacks, Len() = -1 on error, writers refuse errored frames (R20); dynamic union types are decoded without a panicking construct: table lookups are comma-ok before the call (R21), non-comma-ok type assertions and explicit panics equal the frozen documented lists (R22, R23); illegal names and bad slice bounds are rejected (R17, R18); errors from column kernels reach Err (R31); results of failing calls are not used before the error test (R41); names are validated before any early success return (R39).",
		"absence of implicit panics in general (index out of range, nil dereference) beyond the specific ones above; nil FilterClause/Expression arguments and zero-value clause structs.")
	prop("C11", []string{"R1", "R2", "R47", "R65"},
		"race freedom for every schedule by a frame-rule argument: locations reachable by two operations are prestate of both or global; no public operation writes prestate (R1) or package-level state, the library starts no goroutine, uses no sync primitive and holds no private random generator (R2); every other write targets objects allocated inside the operation.",
		"nothing is excluded, but the argument is only as good as its assumptions; no happens-before detector is used (different technique).",
		"math/rand top-level functions and *regexp.Regexp are goroutine safe (documented)")
	prop("C12", []string{"R24", "R61", "R29", "R25", "R31", "R45", "R49", "R50", "R56", "R62", "R1r", "R86", "R87", "R93", "R98", "R107", "R110"},
		"necessary conditions only: short reads are handled wherever the stream is read (R24); a failing reader is never taken for end of input (R29); all nine options are consulted (R25); reader errors propagate (R31); type inference tries int, float, bool, string in that order (R45); two necessary conditions of fragmentation independence: no scanner decision is taken on the buffer fill level without refilling (R50), and per-column byte buffers never share a backing array (R49).",
		"THE CORE OF THE PROPERTY: that the scanner's output is independent of where read boundaries fall, quote compaction, CRLF handling, buffer growth (a hand-written state machine over all documents and read schedules).")
	prop("C13", []string{"R26", "R6", "R25", "R30", "R34", "R1w", "R1r", "R69", "R93", "R98"},
		"necessary conditions only: writer and reader use inverse conversions with lossless arguments for every type, NaN/null <-> empty cell (R26); rows and cells are emitted through the index (R6); Header/Columns are consulted (R25); write failures surface (R30).",
		"agreement of encoding/csv's quoting with the custom scanner's unquoting for arbitrary bytes; round-trip equality is value level.")
	prop("C14", []string{"R27", "R28", "R58", "R6", "R85", "R100", "R107"},
		"every string that reaches the output - cell values and column names - goes through the escaper (R27); the escaper leaves unescaped only bytes JSON allows unescaped and emits well-formed escapes for all 256 byte values (R28); numbers are written by AppendInt/AppendBool/AppendFloat64f, NaN and null as the constant null (R27); rows in index order (R6).",
		"the punctuation skeleton as a grammar; ReadJSON inversion.")
	prop("C15", []string{"R29", "R30", "R31", "R24", "R61", "R41", "R56", "R110"},
		"the whole statement as error-flow obligations: iterator loops consult Err() before any success return (R29), buffered writers' deferred errors are returned (R30), every error produced in scope reaches a sink (R31), read counts are honoured (R24), results are not used before their error test (R41) - on every path, hence for every fault position.",
		"`never panics` beyond R41/C10's rules.",
		"io.Writer / database/sql honour their contracts (a short write returns an error)")
	prop("C16", []string{"R32", "R27", "R58"},
		"necessary conditions only: the 128-bit multiplier tables and layout constants are the ones the algorithm's correctness argument requires, all 618 entries recomputed in math/big (R32); every non-NaN float reaches JSON through AppendFloat64f (R27).",
		"THE CORE OF THE PROPERTY: digit generation, the three positional layouts, buffer reuse; equality with strconv.FormatFloat over 2^64 inputs is value level.")
	prop("C17", []string{"R33", "R34", "R19", "R4", "R10", "R5", "R46", "R1r", "R74", "R94", "R95"},
		"the 8-bit encoding cannot overflow into null or wrap (R33, R34, R19); undeclared values are rejected on every construction path (R34: minting is dominated by !strict and the cardinality guard); ordering comparisons and Sort use rank = declared position (R4, R10); filtering a strict column against an undeclared constant is an error (R46); null stays distinct (R5 polarity, R10).",
		"in/like bitset contents beyond R19's layout and R35.")
	prop("C18", []string{"R35", "R59", "R57", "R33", "R3", "R42", "R74", "R101", "R102"},
		"matcher selection and anchoring for all 16 pattern classes, both column types agreeing (R35); the custom upper-casing never stores a non-ASCII rune as a single byte (R33); nulls never reach the matcher (R35 dominance; enum matching ranges over values).",
		"agreement of the rest of the ToUpper copy with strings.ToUpper (buffer growth, length-changing code points); regular-expression assembly.")
	prop("C19", []string{"R6", "R36", "R25", "R29", "R31", "R41", "R48", "R2c", "R1w", "R1r", "R71", "R83", "R90", "R91", "R93", "R112"},
		"necessary conditions only: rows and arguments are taken through the index in frame order (R6); all five column types have an argument builder (R36); all dialect/config fields are consulted (R25); driver errors surface and a failing result set is not taken for a complete one (R29, R31, R41).",
		"statement text per dialect; typed scanning and NULL back-fill; write/read agreement through a real store.")
}
