package main

import (
	"go/token"
	"go/types"
	"strings"

	"golang.org/x/tools/go/ssa"
)

// callResolver resolves call sites to module functions: static callees directly, interface
// invokes by method-set lookup over all module types (CHA), dynamic function values by signature
// identity over all address-taken module functions. Over-approximating, module-internal.
type callResolver struct {
	p         *Prog
	addrTaken []*ssa.Function
	named     []types.Type // all named (and pointer-to-named) types declared in in-scope packages
	cache     map[ssa.CallInstruction][]*ssa.Function
}

func (p *Prog) resolver() *callResolver {
	if p.res != nil {
		return p.res
	}
	r := &callResolver{p: p, cache: map[ssa.CallInstruction][]*ssa.Function{}}
	taken := map[*ssa.Function]bool{}
	all := append([]*ssa.Function(nil), p.Funcs...)
	// package initialisers hold the comparator/function tables
	for _, pk := range p.Pkgs {
		if sp := p.SSA.Package(pk.Types); sp != nil {
			if init := sp.Func("init"); init != nil {
				all = append(all, init)
			}
		}
	}
	for _, fn := range all {
		eachInstr(fn, func(in ssa.Instruction) {
			var ops []*ssa.Value
			ops = in.Operands(ops)
			for i, op := range ops {
				if op == nil || *op == nil {
					continue
				}
				f, ok := (*op).(*ssa.Function)
				if !ok {
					if mc, ok := (*op).(*ssa.MakeClosure); ok {
						f, _ = mc.Fn.(*ssa.Function)
					}
					if f == nil {
						continue
					}
				}
				if ci, ok := in.(ssa.CallInstruction); ok && i == 0 && ci.Common().Value == *op && !ci.Common().IsInvoke() {
					continue // in call position
				}
				taken[f] = true
			}
			if mc, ok := in.(*ssa.MakeClosure); ok {
				if f, ok := mc.Fn.(*ssa.Function); ok {
					taken[f] = true
				}
			}
		})
	}
	for _, fn := range p.Funcs {
		if taken[fn] {
			r.addrTaken = append(r.addrTaken, fn)
		}
	}
	for _, pk := range p.Pkgs {
		sc := pk.Types.Scope()
		for _, n := range sc.Names() {
			if tn, ok := sc.Lookup(n).(*types.TypeName); ok && !tn.IsAlias() {
				if _, isIface := tn.Type().Underlying().(*types.Interface); isIface {
					continue
				}
				r.named = append(r.named, tn.Type(), types.NewPointer(tn.Type()))
			}
		}
	}
	p.res = r
	return r
}

// callees returns the module functions a call site may invoke (nil for calls that leave the module).
func (r *callResolver) callees(ci ssa.CallInstruction) []*ssa.Function {
	if c, ok := r.cache[ci]; ok {
		return c
	}
	var out []*ssa.Function
	cc := ci.Common()
	switch {
	case cc.IsInvoke():
		iface, _ := cc.Value.Type().Underlying().(*types.Interface)
		for _, t := range r.named {
			if iface == nil || !types.Implements(t, iface) {
				continue
			}
			sel := r.p.SSA.MethodSets.MethodSet(t).Lookup(cc.Method.Pkg(), cc.Method.Name())
			if sel == nil {
				continue
			}
			if fn := r.p.SSA.MethodValue(sel); fn != nil {
				// unwrap synthetic pointer-receiver wrappers to the declared method
				if fn.Synthetic != "" {
					if o, ok := sel.Obj().(*types.Func); ok {
						if d := r.p.SSA.FuncValue(o); d != nil {
							fn = d
						}
					}
				}
				if fn.Synthetic != "" {
					// method promoted from an embedded interface (namedColumn embeds column.Column): the wrapper
					// only re-dispatches on the embedded interface value, whose implementers are already listed.
					continue
				}
				out = appendUnique(out, fn)
			}
		}
	case cc.StaticCallee() != nil:
		f := cc.StaticCallee()
		if f.Pkg != nil && inModule(f.Pkg.Pkg) || f.Parent() != nil {
			out = append(out, f)
		}
	default:
		if _, isBuiltin := cc.Value.(*ssa.Builtin); isBuiltin {
			break
		}
		sig := cc.Signature()
		for _, f := range r.addrTaken {
			if types.Identical(f.Signature, sig) {
				out = append(out, f)
			}
		}
	}
	r.cache[ci] = out
	return out
}

func appendUnique(s []*ssa.Function, f *ssa.Function) []*ssa.Function {
	for _, x := range s {
		if x == f {
			return s
		}
	}
	return append(s, f)
}

// argFor maps callee parameter index -> caller argument for a call site (receiver included for
// static method calls; for invokes, params[0] is the receiver = cc.Value).
func argsFor(ci ssa.CallInstruction, callee *ssa.Function) []ssa.Value {
	cc := ci.Common()
	var args []ssa.Value
	if cc.IsInvoke() {
		args = append(args, cc.Value)
	}
	args = append(args, cc.Args...)
	// closures: free variables are not parameters; Params only
	if len(args) != len(callee.Params) {
		return nil
	}
	return args
}

// staticCallSites: the calls in live module functions whose static callee is fn, and whether fn is also used as
// a value somewhere (then its callers are not all known).
func (p *Prog) staticCallSites(fn *ssa.Function) (sites []ssa.CallInstruction, usedAsValue bool) {
	if p.sites == nil {
		p.sites = map[*ssa.Function][]ssa.CallInstruction{}
		p.asValue = map[*ssa.Function]bool{}
		all := append([]*ssa.Function(nil), p.Funcs...)
		for _, pk := range p.Pkgs {
			if sp := p.SSA.Package(pk.Types); sp != nil {
				if init := sp.Func("init"); init != nil {
					all = append(all, init)
				}
			}
		}
		for _, f := range all {
			eachInstr(f, func(in ssa.Instruction) {
				var ops []*ssa.Value
				for i, op := range in.Operands(ops) {
					if op == nil || *op == nil {
						continue
					}
					g, ok := (*op).(*ssa.Function)
					if !ok {
						continue
					}
					if ci, isCall := in.(ssa.CallInstruction); isCall && i == 0 && ci.Common().Value == *op && !ci.Common().IsInvoke() {
						p.sites[g] = append(p.sites[g], ci)
					} else {
						p.asValue[g] = true
					}
				}
			})
		}
	}
	return p.sites[fn], p.asValue[fn]
}

// moduleSuppliedFuncParam: every caller of prm's function is known and passes a named function (or a bound
// method / closure of the module) for prm: the parameter never holds a function supplied by the library's user.
func (p *Prog) moduleSuppliedFuncParam(prm *ssa.Parameter) bool {
	fn := prm.Parent()
	if fn == nil || fn.Parent() != nil {
		return false
	}
	if fn.Signature.Recv() != nil && token.IsExported(fn.Name()) || token.IsExported(fn.Name()) && !strings.Contains(fn.Pkg.Pkg.Path()+"/", "/internal/") {
		return false // callable by the user (directly or through an interface)
	}
	sites, asValue := p.staticCallSites(fn)
	if asValue || len(sites) == 0 {
		return false
	}
	idx := -1
	for i, q := range fn.Params {
		if q == prm {
			idx = i
		}
	}
	for _, ci := range sites {
		args := ci.Common().Args
		if idx < 0 || idx >= len(args) {
			return false
		}
		switch a := args[idx].(type) {
		case *ssa.Function:
		case *ssa.MakeClosure:
			_ = a
		case *ssa.Extract:
			// the value found in a package-level table of the module (kernels looked up by comparator)
			lk, ok := a.Tuple.(*ssa.Lookup)
			if !ok || a.Index != 0 {
				return false
			}
			ld, ok := lk.X.(*ssa.UnOp)
			if !ok || ld.Op != token.MUL {
				return false
			}
			if g, ok := ld.X.(*ssa.Global); !ok || g.Pkg == nil || !inModule(g.Pkg.Pkg) || token.IsExported(g.Name()) {
				return false
			}
		default:
			return false
		}
	}
	return true
}

// isEmptyNullValue: v is the reader's EmptyNull option - a load of a field of that name, or a bool parameter of
// an unexported function that receives the option at every one of its (all known) call sites.
func (p *Prog) isEmptyNullValue(v ssa.Value, d int) bool {
	if fieldNameOfLoad(v) == "EmptyNull" {
		return true
	}
	prm, ok := v.(*ssa.Parameter)
	if !ok || d > 3 {
		return false
	}
	fn := prm.Parent()
	sites, asValue := p.staticCallSites(fn)
	if asValue || len(sites) == 0 || token.IsExported(fn.Name()) {
		return false
	}
	ix := -1
	for i, q := range fn.Params {
		if q == prm {
			ix = i
		}
	}
	for _, s := range sites {
		args := s.Common().Args
		if ix < 0 || ix >= len(args) || !p.isEmptyNullValue(args[ix], d+1) {
			return false
		}
	}
	return true
}

// underEmptyNull: block b runs only when the EmptyNull option is set.
func (p *Prog) underEmptyNull(b *ssa.BasicBlock) bool {
	for _, g := range dominatingGuards(b) {
		if g.Val && p.isEmptyNullValue(g.Cond, 0) {
			return true
		}
	}
	return false
}

// impliesEmptyNull: the boolean v can be true only when the EmptyNull option is set: the option itself, or the
// phi of a short-circuit conjunction each of whose edges is the constant false, the option, or a value computed
// on a branch taken only when the option is set.
func (p *Prog) impliesEmptyNull(v ssa.Value) bool {
	if p.isEmptyNullValue(v, 0) {
		return true
	}
	phi, ok := v.(*ssa.Phi)
	if !ok {
		return false
	}
	for i, e := range phi.Edges {
		if isConstBool(e, false) || p.isEmptyNullValue(e, 0) {
			continue
		}
		if p.underEmptyNull(phi.Block().Preds[i]) {
			continue
		}
		return false
	}
	return true
}

// valueOrigins: where the value v (used in fn) comes from, following parameters to the arguments at the call sites
// inside the package and fields of by-value parameter objects to what the composite literal stored in them. The
// origins returned are parameters without in-package callers (the entry points' own parameters), constants, or
// whatever else the value is computed from.
func (p *Prog) valueOrigins(v ssa.Value, fn *ssa.Function, depth int) []ssa.Value {
	if depth > 5 {
		return []ssa.Value{v}
	}
	switch t := v.(type) {
	case *ssa.Parameter:
		pi := -1
		for i, q := range fn.Params {
			if q == t {
				pi = i
			}
		}
		sites, asValue := p.staticCallSites(fn)
		var out []ssa.Value
		n := 0
		for _, s := range sites {
			caller := s.Parent()
			if caller.Pkg != fn.Pkg || pi < 0 || pi >= len(s.Common().Args) {
				continue
			}
			n++
			out = append(out, p.valueOrigins(s.Common().Args[pi], caller, depth+1)...)
		}
		if n == 0 || asValue {
			return []ssa.Value{v}
		}
		return out
	case *ssa.UnOp:
		if t.Op != token.MUL {
			return []ssa.Value{v}
		}
		switch a := t.X.(type) {
		case *ssa.FieldAddr:
			return p.fieldOrigins(a.X, a.Field, fn, depth)
		case *ssa.Alloc:
			// a spilled local: what was stored into it
			var out []ssa.Value
			for _, r := range *a.Referrers() {
				if st, ok := r.(*ssa.Store); ok && st.Addr == ssa.Value(a) {
					out = append(out, p.valueOrigins(st.Val, fn, depth+1)...)
				}
			}
			if len(out) > 0 {
				return out
			}
		}
	case *ssa.Field:
		return p.fieldOrigins(t.X, t.Field, fn, depth)
	}
	return []ssa.Value{v}
}

// fieldOrigins: the origins of field number fi of the struct x (a struct value, or the address of one).
func (p *Prog) fieldOrigins(x ssa.Value, fi int, fn *ssa.Function, depth int) []ssa.Value {
	// the struct's cell: an Alloc filled by a composite literal or by a whole-struct store of a parameter
	var cell *ssa.Alloc
	switch t := x.(type) {
	case *ssa.Alloc:
		cell = t
	case *ssa.UnOp:
		if al, ok := t.X.(*ssa.Alloc); ok && t.Op == token.MUL {
			cell = al
		}
	case *ssa.Parameter:
		// a by-value struct parameter: the same field of the argument at every in-package call site
		var out []ssa.Value
		for _, o := range p.valueOrigins(t, fn, depth+1) {
			if o == ssa.Value(t) {
				return []ssa.Value{x}
			}
			owner := instrParent(o)
			if owner == nil {
				if prm, ok := o.(*ssa.Parameter); ok {
					owner = prm.Parent()
				}
			}
			if owner == nil {
				return []ssa.Value{x}
			}
			out = append(out, p.fieldOrigins(o, fi, owner, depth+1)...)
		}
		return out
	}
	if cell == nil {
		return []ssa.Value{x}
	}
	var out []ssa.Value
	for _, r := range *cell.Referrers() {
		switch t := r.(type) {
		case *ssa.FieldAddr:
			if t.Field != fi {
				continue
			}
			for _, r2 := range *t.Referrers() {
				if st, ok := r2.(*ssa.Store); ok && st.Addr == ssa.Value(t) {
					out = append(out, p.valueOrigins(st.Val, fn, depth+1)...)
				}
			}
		case *ssa.Store:
			if t.Addr == ssa.Value(cell) {
				// the whole struct stored: a parameter spilled on entry, or a copied value
				out = append(out, p.fieldOrigins(t.Val, fi, fn, depth+1)...)
			}
		}
	}
	if len(out) == 0 {
		return []ssa.Value{x}
	}
	return out
}
