package main

import (
	"fmt"
	"go/token"
	"go/types"

	"golang.org/x/tools/go/ssa"
)

func init() {
	register(&Rule{ID: "R49", Name: "BUF-DISJOINT", Floor: 3,
		Text: "in the CSV reader every slice stored into an element of a per-column buffer table ([][]byte, [][]bytePointer) is that element's own previous value grown by append, or is rooted in an allocation made inside the same loop iteration: column buffers never share a backing array, so growing one cannot overwrite another",
		Run:  runR49})
	register(&Rule{ID: "R50", Name: "FILL-INDEPENDENT", Floor: 3,
		Text: "in the CSV scanner every branch that compares a cursor with the number of buffered bytes (len of the read buffer) refills on the `no more buffered data` edge: that edge leads straight to a call that reaches io.Reader.Read before anything is decided; a decision taken on the fill level alone makes the parse depend on where read boundaries fall",
		Run:  runR50})
}

func isSliceOfSlices(t types.Type) bool {
	s, ok := t.Underlying().(*types.Slice)
	if !ok {
		return false
	}
	_, ok = s.Elem().Underlying().(*types.Slice)
	return ok
}

func runR49(c *Ctx) {
	p := c.P
	for _, pkg := range []string{"internal/io"} { // fastcsv.fieldsBuffer holds read-only views into the read buffer, never grown
		for _, fn := range p.FuncsIn(pkg) {
			loops := loopsOf(fn)
			eachInstr(fn, func(in ssa.Instruction) {
				st, ok := in.(*ssa.Store)
				if !ok {
					return
				}
				ia, ok := st.Addr.(*ssa.IndexAddr)
				if !ok || !isSliceOfSlices(ia.X.Type()) {
					return
				}
				key := fname(fn) + "|column buffer element"
				pos := p.instrPos(st)
				// innermost loop containing the store
				var li *loopInfo
				for i := range loops {
					if inLoop(loops[i], st.Block()) {
						if li == nil || inLoop(*li, loops[i].header) {
							l := loops[i]
							li = &l
						}
					}
				}
				why := ""
				seen := map[ssa.Value]bool{}
				var walk func(v ssa.Value, d int) bool
				walk = func(v ssa.Value, d int) bool {
					if v == nil || d > 12 {
						why = "origin too deep"
						return false
					}
					if seen[v] {
						return true
					}
					seen[v] = true
					switch t := v.(type) {
					case *ssa.MakeSlice:
						if li != nil && !inLoop(*li, t.Block()) {
							why = fmt.Sprintf("it is carved out of the allocation at %s, made once outside the loop and shared by all columns", p.instrPos(t))
							return false
						}
						return true
					case *ssa.Call:
						if builtinName(t) == "append" {
							return walk(t.Call.Args[0], d+1)
						}
						why = "it is the result of " + describe(t)
						return t.Call.StaticCallee() != nil // results of module helpers are judged where they are built
					case *ssa.Slice:
						return walk(t.X, d+1)
					case *ssa.Phi:
						for _, e := range t.Edges {
							if !walk(e, d+1) {
								return false
							}
						}
						return true
					case *ssa.UnOp:
						if t.Op == token.MUL {
							if src, ok := t.X.(*ssa.IndexAddr); ok {
								if accessPath(src.X) == accessPath(ia.X) && stripConv(src.Index) == stripConv(ia.Index) {
									return true // the element's own previous value
								}
								why = "it is another element's buffer"
								return false
							}
							if al, ok := t.X.(*ssa.Alloc); ok {
								for _, r := range *al.Referrers() {
									if s2, ok := r.(*ssa.Store); ok && s2.Addr == ssa.Value(al) && !walk(s2.Val, d+1) {
										return false
									}
								}
								return true
							}
						}
					case *ssa.Const:
						return true
					case *ssa.Alloc:
						return true // array literal
					}
					why = "its origin (" + describe(v) + ") is not recognised as a private allocation"
					return false
				}
				if walk(st.Val, 0) {
					c.ok(key, pos, "own previous value or an allocation private to this iteration")
				} else {
					c.bad(key, pos, "the slice stored as a column's buffer does not own its backing array: "+why+"; a later append on one column can overwrite another column's cells")
				}
			})
		}
	}
}

// reachesRead: fn (transitively, module-internal) calls io.Reader.Read.
func reachesRead(fn *ssa.Function, seen map[*ssa.Function]bool) bool {
	if fn == nil || seen[fn] || fn.Blocks == nil {
		return false
	}
	seen[fn] = true
	found := false
	eachInstr(fn, func(in ssa.Instruction) {
		ci, ok := in.(ssa.CallInstruction)
		if !ok || found {
			return
		}
		cc := ci.Common()
		if cc.IsInvoke() && cc.Method.Name() == "Read" {
			found = true
			return
		}
		if callee := cc.StaticCallee(); callee != nil && callee.Pkg != nil && inModule(callee.Pkg.Pkg) && reachesRead(callee, seen) {
			found = true
		}
	})
	return found
}

func runR50(c *Ctx) {
	p := c.P
	br := p.Named("internal/fastcsv", "bufferedReader")
	if br == nil {
		c.undecided("internal/fastcsv.bufferedReader", "-", "type not found")
		return
	}
	dataFld := structField(br, "data")
	for _, fn := range p.FuncsIn("internal/fastcsv") {
		eachInstr(fn, func(in ssa.Instruction) {
			iff, ok := in.(*ssa.If)
			if !ok {
				return
			}
			cond, val := unNot(iff.Cond, true)
			cmp, ok := cond.(*ssa.BinOp)
			if !ok {
				return
			}
			// one side is len(<bufferedReader>.data), the other is not cap(...)
			lenSide := -1
			for i, o := range []ssa.Value{cmp.X, cmp.Y} {
				if call, ok := o.(*ssa.Call); ok && builtinName(call) == "len" {
					if fld, _ := fieldOf(call.Call.Args[0]); fld != nil && fld == dataFld {
						lenSide = i
					}
				}
			}
			if lenSide < 0 {
				return
			}
			other := cmp.X
			if lenSide == 0 {
				other = cmp.Y
			}
			if call, ok := other.(*ssa.Call); ok && builtinName(call) == "cap" {
				return // capacity management, not a fill-level decision
			}
			// which edge means "cursor is at or beyond the buffered data"?
			op := cmp.Op
			if lenSide == 0 { // len(data) OP cursor  ->  cursor OP' len(data)
				op = map[token.Token]token.Token{token.LSS: token.GTR, token.LEQ: token.GEQ, token.GTR: token.LSS, token.GEQ: token.LEQ, token.EQL: token.EQL, token.NEQ: token.NEQ}[op]
			}
			var exhaustedWhenTrue bool
			switch op {
			case token.GEQ, token.GTR, token.EQL:
				exhaustedWhenTrue = true
			case token.LSS, token.LEQ, token.NEQ:
				exhaustedWhenTrue = false
			default:
				return
			}
			if !val {
				exhaustedWhenTrue = !exhaustedWhenTrue
			}
			idx := 0
			if !exhaustedWhenTrue {
				idx = 1
			}
			blk := iff.Block().Succs[idx]
			key := fname(fn) + "|fill-level test"
			refills := false
			for _, i2 := range blk.Instrs {
				if call, ok := i2.(*ssa.Call); ok {
					if callee := call.Call.StaticCallee(); callee != nil && reachesRead(callee, map[*ssa.Function]bool{}) {
						refills = true
					}
				}
			}
			// a test that demands more than the current byte (cursor+k >= len, k >= 1: lookahead) is not satisfied by
			// one refill: a read may deliver a single byte, so the refill must be repeated until the test fails
			if add, ok := other.(*ssa.BinOp); ok && add.Op == token.ADD && refills {
				k, isK := constInt(add.Y)
				if !isK {
					k, isK = constInt(add.X)
				}
				if isK && k >= 1 {
					readsData := func(b *ssa.BasicBlock) bool {
						if b == iff.Block() {
							return false
						}
						for _, i2 := range b.Instrs {
							switch a := i2.(type) {
							case *ssa.IndexAddr:
								if fld, _ := fieldOf(a.X); fld != nil && fld == dataFld {
									return true
								}
							case *ssa.Slice:
								if fld, _ := fieldOf(a.X); fld != nil && fld == dataFld {
									return true
								}
							}
						}
						return false
					}
					retested := false
					for _, s2 := range blk.Succs {
						for _, rb := range reachableAvoiding(s2, readsData) {
							if rb == iff.Block() {
								retested = true
							}
						}
					}
					lkey := fname(fn) + "|lookahead refill"
					if retested {
						c.ok(lkey, p.instrPos(iff), fmt.Sprintf("the test demands %d bytes beyond the cursor and is repeated after each refill", k+1))
					} else {
						c.bad(lkey, p.instrPos(iff), fmt.Sprintf("the test demands %d bytes beyond the cursor (lookahead) but refills only once before the buffer is read: a reader that delivers one byte per Read leaves the lookahead byte unread, and the scanner copies a byte that is not there yet (quoted fields with doubled quotes are corrupted under one-byte reads)", k+1))
					}
				}
			}
			if refills {
				c.ok(key, p.instrPos(iff), "the `nothing buffered` edge refills from the reader first")
			} else {
				c.bad(key, p.instrPos(iff), "a decision is taken on how many bytes happen to be buffered without refilling: the parse of the same document differs depending on where the underlying reader's read boundaries fall")
			}
		})
	}
}
