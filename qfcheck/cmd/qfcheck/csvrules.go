package main

import (
	"fmt"
	"go/token"
	"go/types"

	"golang.org/x/tools/go/ssa"
)

func init() {
	register(&Rule{ID: "R49", Name: "BUF-DISJOINT", Floor: 3,
		Text: "in the CSV reader every slice stored into an element of a per-column buffer table ([][]byte, [][]bytePointer) is that element's own previous value grown by append, or is rooted in an allocation made inside the same loop iteration: column buffers never share a backing array, so growing one cannot overwrite another",
		Run:  runR49})
	register(&Rule{ID: "R50", Name: "FILL-INDEPENDENT", Floor: 3,
		Text: "in the CSV scanner every branch that compares a cursor with the number of buffered bytes (len of the read buffer) refills on the `no more buffered data` edge: that edge leads straight to a call that reaches io.Reader.Read before anything is decided; a decision taken on the fill level alone makes the parse depend on where read boundaries fall; (c) after a refill the byte at the cursor is read only if the fill level was tested again or the refill repeats its Read until bytes arrive: a Read may legally return (0, nil)",
		Run:  runR50})
}

func isSliceOfSlices(t types.Type) bool {
	s, ok := t.Underlying().(*types.Slice)
	if !ok {
		return false
	}
	_, ok = s.Elem().Underlying().(*types.Slice)
	return ok
}

func runR49(c *Ctx) {
	p := c.P
	for _, pkg := range []string{"internal/io"} { // fastcsv.fieldsBuffer holds read-only views into the read buffer, never grown
		for _, fn := range p.FuncsIn(pkg) {
			loops := loopsOf(fn)
			eachInstr(fn, func(in ssa.Instruction) {
				st, ok := in.(*ssa.Store)
				if !ok {
					return
				}
				ia, ok := st.Addr.(*ssa.IndexAddr)
				if !ok || !isSliceOfSlices(ia.X.Type()) {
					return
				}
				key := fname(fn) + "|column buffer element"
				pos := p.instrPos(st)
				// innermost loop containing the store
				var li *loopInfo
				for i := range loops {
					if inLoop(loops[i], st.Block()) {
						if li == nil || inLoop(*li, loops[i].header) {
							l := loops[i]
							li = &l
						}
					}
				}
				why := ""
				seen := map[ssa.Value]bool{}
				var walk func(v ssa.Value, d int) bool
				walk = func(v ssa.Value, d int) bool {
					if v == nil || d > 12 {
						why = "origin too deep"
						return false
					}
					if seen[v] {
						return true
					}
					seen[v] = true
					switch t := v.(type) {
					case *ssa.MakeSlice:
						if li != nil && !inLoop(*li, t.Block()) {
							why = fmt.Sprintf("it is carved out of the allocation at %s, made once outside the loop and shared by all columns", p.instrPos(t))
							return false
						}
						return true
					case *ssa.Call:
						if builtinName(t) == "append" {
							return walk(t.Call.Args[0], d+1)
						}
						why = "it is the result of " + describe(t)
						return t.Call.StaticCallee() != nil // results of module helpers are judged where they are built
					case *ssa.Slice:
						return walk(t.X, d+1)
					case *ssa.Phi:
						for _, e := range t.Edges {
							if !walk(e, d+1) {
								return false
							}
						}
						return true
					case *ssa.UnOp:
						if t.Op == token.MUL {
							if src, ok := t.X.(*ssa.IndexAddr); ok {
								if accessPath(src.X) == accessPath(ia.X) && stripConv(src.Index) == stripConv(ia.Index) {
									return true // the element's own previous value
								}
								why = "it is another element's buffer"
								return false
							}
							if al, ok := t.X.(*ssa.Alloc); ok {
								for _, r := range *al.Referrers() {
									if s2, ok := r.(*ssa.Store); ok && s2.Addr == ssa.Value(al) && !walk(s2.Val, d+1) {
										return false
									}
								}
								return true
							}
						}
					case *ssa.Const:
						return true
					case *ssa.Alloc:
						return true // array literal
					}
					why = "its origin (" + describe(v) + ") is not recognised as a private allocation"
					return false
				}
				if walk(st.Val, 0) {
					c.ok(key, pos, "own previous value or an allocation private to this iteration")
				} else {
					c.bad(key, pos, "the slice stored as a column's buffer does not own its backing array: "+why+"; a later append on one column can overwrite another column's cells")
				}
			})
		}
	}
}

// reachesRead: fn (transitively, module-internal) calls io.Reader.Read.
func reachesRead(fn *ssa.Function, seen map[*ssa.Function]bool) bool {
	if fn == nil || seen[fn] || fn.Blocks == nil {
		return false
	}
	seen[fn] = true
	found := false
	eachInstr(fn, func(in ssa.Instruction) {
		ci, ok := in.(ssa.CallInstruction)
		if !ok || found {
			return
		}
		cc := ci.Common()
		if cc.IsInvoke() && cc.Method.Name() == "Read" {
			found = true
			return
		}
		if callee := cc.StaticCallee(); callee != nil && callee.Pkg != nil && inModule(callee.Pkg.Pkg) && reachesRead(callee, seen) {
			found = true
		}
	})
	return found
}

// refillInsistsOnProgress: fn (or a module function it calls) calls Read inside a loop that compares the returned
// count with 0 - it does not come back with (nothing read, no error).
func refillInsistsOnProgress(fn *ssa.Function, d int) bool {
	if fn == nil || fn.Blocks == nil || d > 2 {
		return false
	}
	loops := loopsOf(fn)
	ok := false
	eachInstr(fn, func(in ssa.Instruction) {
		call, isCall := in.(*ssa.Call)
		if !isCall || ok {
			return
		}
		cc := call.Common()
		if cc.IsInvoke() && cc.Method.Name() == "Read" {
			inL := false
			for _, li := range loops {
				if inLoop(li, call.Block()) {
					inL = true
				}
			}
			if !inL {
				return
			}
			for _, r := range *call.Referrers() {
				if ex, isEx := r.(*ssa.Extract); isEx && ex.Index == 0 {
					for _, r2 := range *ex.Referrers() {
						if b, isB := r2.(*ssa.BinOp); isB {
							if k, isK := constInt(b.Y); isK && k == 0 {
								ok = true
							}
						}
						if ph, isPhi := r2.(*ssa.Phi); isPhi {
							for _, r3 := range *ph.Referrers() {
								if b, isB := r3.(*ssa.BinOp); isB {
									if k, isK := constInt(b.Y); isK && k == 0 {
										ok = true
									}
								}
							}
						}
					}
				}
			}
			return
		}
		if callee := cc.StaticCallee(); callee != nil && callee.Pkg != nil && inModule(callee.Pkg.Pkg) && refillInsistsOnProgress(callee, d+1) {
			ok = true
		}
	})
	return ok
}

func runR50(c *Ctx) {
	p := c.P
	br := p.Named("internal/fastcsv", "bufferedReader")
	if br == nil {
		c.undecided("internal/fastcsv.bufferedReader", "-", "type not found")
		return
	}
	dataFld := structField(br, "data")
	for _, fn := range p.FuncsIn("internal/fastcsv") {
		eachInstr(fn, func(in ssa.Instruction) {
			iff, ok := in.(*ssa.If)
			if !ok {
				return
			}
			cond, val := unNot(iff.Cond, true)
			cmp, ok := cond.(*ssa.BinOp)
			if !ok {
				return
			}
			// one side is len(<bufferedReader>.data), the other is not cap(...)
			lenSide := -1
			for i, o := range []ssa.Value{cmp.X, cmp.Y} {
				if call, ok := o.(*ssa.Call); ok && builtinName(call) == "len" {
					if fld, _ := fieldOf(call.Call.Args[0]); fld != nil && fld == dataFld {
						lenSide = i
					}
				}
			}
			if lenSide < 0 {
				return
			}
			other := cmp.X
			if lenSide == 0 {
				other = cmp.Y
			}
			if call, ok := other.(*ssa.Call); ok && builtinName(call) == "cap" {
				return // capacity management, not a fill-level decision
			}
			// which edge means "cursor is at or beyond the buffered data"?
			op := cmp.Op
			if lenSide == 0 { // len(data) OP cursor  ->  cursor OP' len(data)
				op = map[token.Token]token.Token{token.LSS: token.GTR, token.LEQ: token.GEQ, token.GTR: token.LSS, token.GEQ: token.LEQ, token.EQL: token.EQL, token.NEQ: token.NEQ}[op]
			}
			var exhaustedWhenTrue bool
			switch op {
			case token.GEQ, token.GTR, token.EQL:
				exhaustedWhenTrue = true
			case token.LSS, token.LEQ, token.NEQ:
				exhaustedWhenTrue = false
			default:
				return
			}
			if !val {
				exhaustedWhenTrue = !exhaustedWhenTrue
			}
			idx := 0
			if !exhaustedWhenTrue {
				idx = 1
			}
			blk := iff.Block().Succs[idx]
			key := fname(fn) + "|fill-level test"
			refills := false
			for _, i2 := range blk.Instrs {
				if call, ok := i2.(*ssa.Call); ok {
					if callee := call.Call.StaticCallee(); callee != nil && reachesRead(callee, map[*ssa.Function]bool{}) {
						refills = true
					}
				}
			}
			// a test that demands more than the current byte (cursor+k >= len, k >= 1: lookahead) is not satisfied by
			// one refill: a read may deliver a single byte, so the refill must be repeated until the test fails
			if add, ok := other.(*ssa.BinOp); ok && add.Op == token.ADD && refills {
				k, isK := constInt(add.Y)
				if !isK {
					k, isK = constInt(add.X)
				}
				if isK && k >= 1 {
					readsData := func(b *ssa.BasicBlock) bool {
						if b == iff.Block() {
							return false
						}
						for _, i2 := range b.Instrs {
							switch a := i2.(type) {
							case *ssa.IndexAddr:
								if fld, _ := fieldOf(a.X); fld != nil && fld == dataFld {
									return true
								}
							case *ssa.Slice:
								if fld, _ := fieldOf(a.X); fld != nil && fld == dataFld {
									return true
								}
							}
						}
						return false
					}
					retested := false
					for _, s2 := range blk.Succs {
						for _, rb := range reachableAvoiding(s2, readsData) {
							if rb == iff.Block() {
								retested = true
							}
						}
					}
					lkey := fname(fn) + "|lookahead refill"
					if retested {
						c.ok(lkey, p.instrPos(iff), fmt.Sprintf("the test demands %d bytes beyond the cursor and is repeated after each refill", k+1))
					} else {
						c.bad(lkey, p.instrPos(iff), fmt.Sprintf("the test demands %d bytes beyond the cursor (lookahead) but refills only once before the buffer is read: a reader that delivers one byte per Read leaves the lookahead byte unread, and the scanner copies a byte that is not there yet (quoted fields with doubled quotes are corrupted under one-byte reads)", k+1))
					}
				}
			}
			if refills {
				c.ok(key, p.instrPos(iff), "the `nothing buffered` edge refills from the reader first")
				// (c) a Read may legally deliver nothing without an error: after the refill either the fill level is
				// tested again before the buffer is read, or the refill itself insists on progress
				if _, isLookahead := other.(*ssa.BinOp); !isLookahead {
					readsData := func(b *ssa.BasicBlock) bool {
						if b == iff.Block() {
							return false
						}
						for _, i2 := range b.Instrs {
							switch a := i2.(type) {
							case *ssa.IndexAddr:
								if fld, _ := fieldOf(a.X); fld != nil && fld == dataFld {
									return true
								}
							}
						}
						return false
					}
					retested := false
					for _, s2 := range blk.Succs {
						for _, rb := range reachableAvoiding(s2, readsData) {
							if rb == iff.Block() {
								retested = true
							}
						}
					}
					progress := false
					for _, i2 := range blk.Instrs {
						if call, ok := i2.(*ssa.Call); ok {
							if callee := call.Call.StaticCallee(); callee != nil && refillInsistsOnProgress(callee, 0) {
								progress = true
							}
						}
					}
					pkey := fname(fn) + "|refill delivers something"
					if retested || progress {
						c.ok(pkey, p.instrPos(iff), "after the refill the fill level is tested again, or the refill repeats the Read until bytes arrive")
					} else {
						c.bad(pkey, p.instrPos(iff), "after a single refill the byte at the cursor is read without testing the fill level again: a reader that returns (0, nil) once - legal for an io.Reader - makes the scanner index past the buffered data (index out of range) instead of reading on")
					}
				}
			} else {
				c.bad(key, p.instrPos(iff), "a decision is taken on how many bytes happen to be buffered without refilling: the parse of the same document differs depending on where the underlying reader's read boundaries fall")
			}
		})
	}
}

// ---- R86: what ReadCSV does with a row, in every world of (column count differs, line is empty, IgnoreEmptyLines) ----

func init() {
	register(&Rule{ID: "R86", Name: "ROW-DISPOSITION", Floor: 10,
		Text: "the body of ReadCSV's row loop is explored from the call of Fields() in the eight worlds of (the row's field count differs from the header's, isEmptyLine(row), IgnoreEmptyLines): branches on these three predicates are resolved by the world, all other branches are followed both ways. An empty line with IgnoreEmptyLines set is skipped (no cell appended, no error) whatever its field count; otherwise a row of differing field count is never appended (it ends in the error return, or is skipped); otherwise the row's cells are appended and no error is returned from the loop body. isEmptyLine itself is evaluated (E5) in the four worlds of (one field, first field empty) and is true only when both hold",
		Run:  runR86})
}

func runR86(c *Ctx) {
	p := c.P
	fn := p.Func("internal/io", "ReadCSV")
	if fn == nil {
		c.undecided("internal/io.ReadCSV", "-", "not found")
		return
	}
	fnm := fname(fn)
	var start *ssa.BasicBlock
	var fieldsCall *ssa.Call
	eachInstr(fn, func(in ssa.Instruction) {
		if call, ok := in.(*ssa.Call); ok {
			if o := calleeObj(call); o != nil && o.Name() == "Fields" {
				start, fieldsCall = call.Block(), call
			}
		}
	})
	if start == nil {
		c.undecided(fnm+"|row loop", p.pos(fn.Pos()), "the call of Fields() was not found")
		return
	}
	isSink := func(b *ssa.BasicBlock) bool {
		for _, in := range b.Instrs {
			switch t := in.(type) {
			case *ssa.Store:
				if ia, ok := t.Addr.(*ssa.IndexAddr); ok && isSliceOfSlices(ia.X.Type()) {
					if call, ok := t.Val.(*ssa.Call); ok && builtinName(call) == "append" {
						return true
					}
				}
			case *ssa.Call:
				if callee := t.Call.StaticCallee(); callee != nil && callee.Pkg == fn.Pkg {
					for _, a := range t.Call.Args {
						if isSliceOfSlices(a.Type()) && callee.Name() != "resizeColBytes" && callee.Name() != "resizeColPointers" {
							appends := false
							eachInstr(callee, func(i2 ssa.Instruction) {
								if st, ok := i2.(*ssa.Store); ok {
									if ia, ok := st.Addr.(*ssa.IndexAddr); ok && isSliceOfSlices(ia.X.Type()) {
										appends = true
									}
								}
							})
							if appends {
								return true
							}
						}
					}
				}
			}
		}
		return false
	}
	derivesFromFields := func(v ssa.Value) bool {
		for i := 0; i < 6; i++ {
			switch t := v.(type) {
			case *ssa.Call:
				return t == fieldsCall
			case *ssa.UnOp:
				v = t.X
			case *ssa.Alloc:
				s := singleDef(t)
				if s == nil {
					return false
				}
				v = s
			default:
				return false
			}
		}
		return false
	}
	// the row loop: the innermost loop containing the Fields() call
	var rowHeader *ssa.BasicBlock
	for _, li := range loopsOf(fn) {
		if inLoop(li, start) && (rowHeader == nil || rowHeader.Dominates(li.header)) {
			rowHeader = li.header
		}
	}
	if rowHeader == nil {
		c.undecided(fnm+"|row loop", p.pos(fn.Pos()), "Fields() is not called inside a loop")
		return
	}
	// entering the loop over the row's cells counts as appending them (a row without cells appends nothing)
	cellLoop := map[*ssa.BasicBlock]bool{}
	for _, b := range fn.Blocks {
		if !isSink(b) {
			continue
		}
		for _, li := range loopsOf(fn) {
			if li.header != rowHeader && rowHeader.Dominates(li.header) && inLoop(li, b) {
				cellLoop[li.header] = true
			}
		}
	}
	isSink0 := isSink
	isSink = func(b *ssa.BasicBlock) bool { return cellLoop[b] || isSink0(b) }
	for w := 0; w < 8; w++ {
		mismatch, empty, ignore := w&1 != 0, w&2 != 0, w&4 != 0
		key := fmt.Sprintf("%s|row world countDiffers=%v emptyLine=%v IgnoreEmptyLines=%v", fnm, mismatch, empty, ignore)
		decide := func(cond ssa.Value) (bool, bool) {
			cv, val := unNot(cond, true)
			if call, ok := cv.(*ssa.Call); ok {
				if h := call.Call.StaticCallee(); h != nil && h == p.anchorEmptyLine() {
					return empty == val, true
				}
			}
			if fieldNameOfLoad(cv) == "IgnoreEmptyLines" {
				return ignore == val, true
			}
			if b, ok := cv.(*ssa.BinOp); ok && (b.Op == token.NEQ || b.Op == token.EQL) {
				lx, okx := b.X.(*ssa.Call)
				ly, oky := b.Y.(*ssa.Call)
				if okx && oky && builtinName(lx) == "len" && builtinName(ly) == "len" {
					if derivesFromFields(lx.Call.Args[0]) != derivesFromFields(ly.Call.Args[0]) {
						differs := mismatch
						if b.Op == token.EQL {
							differs = !differs
						}
						return differs == val, true
					}
				}
			}
			return false, false
		}
		outcomes := map[string]bool{}
		seen := map[*ssa.BasicBlock]bool{}
		var dfs func(b *ssa.BasicBlock, appended bool)
		dfs = func(b *ssa.BasicBlock, appended bool) {
			if isSink(b) {
				appended = true
				outcomes["append"] = true
			}
			if seen[b] && !appended {
				return
			}
			if seen[b] && appended {
				return
			}
			seen[b] = true
			if ret, ok := b.Instrs[len(b.Instrs)-1].(*ssa.Return); ok {
				if mayReportSuccess(ret) {
					outcomes["return-ok"] = true
				} else {
					outcomes["error"] = true
				}
				return
			}
			follow := []bool{true, true}
			if iff, ok := b.Instrs[len(b.Instrs)-1].(*ssa.If); ok {
				if v, known := decide(iff.Cond); known {
					follow[0], follow[1] = v, !v
				}
			}
			for i, s := range b.Succs {
				if i < 2 && !follow[i] {
					continue
				}
				// leaving the body: back to the loop condition (r.Next())
				if s == rowHeader || s == start {
					if !appended {
						outcomes["skip"] = true
					}
					continue
				}
				dfs(s, appended)
			}
		}
		dfs(start, false)
		var got []string
		for k := range outcomes {
			got = append(got, k)
		}
		sortStrings(got)
		want := "append"
		switch {
		case empty && ignore:
			want = "skip"
		case mismatch:
			want = "error"
		}
		okW := false
		switch want {
		case "skip":
			okW = outcomes["skip"] && !outcomes["append"] && !outcomes["error"]
		case "error":
			// the property quantifies over well-formed documents: what matters is that a row of the wrong width is
			// never appended (the columns would get out of step); today it is an error
			okW = (outcomes["error"] || outcomes["skip"]) && !outcomes["append"]
		case "append":
			okW = outcomes["append"] && !outcomes["error"] && !outcomes["skip"]
		}
		if okW {
			c.ok(key, p.pos(start.Instrs[0].Pos()), "the row is handled by: "+want)
		} else {
			c.bad(key, p.pos(start.Instrs[0].Pos()), fmt.Sprintf("the row must end in %q but the reachable outcomes are %v (skip = next row without appending, error = error return, append = cells appended)", want, got))
		}
	}
	// isEmptyLine
	if ef := p.anchorEmptyLine(); ef == nil || len(ef.Params) != 1 {
		c.undecided("internal/io.isEmptyLine", "-", "not found")
	} else {
		for w := 0; w < 4; w++ {
			one, firstEmpty := w&1 != 0, w&2 != 0
			key := fmt.Sprintf("internal/io.isEmptyLine|world oneField=%v firstFieldEmpty=%v", one, firstEmpty)
			pe := &pathExec{fn: ef}
			atom := func(x ssa.Value) (bool, bool) {
				b, ok := x.(*ssa.BinOp)
				if !ok || b.Op != token.EQL && b.Op != token.NEQ {
					return false, false
				}
				call, ok := b.X.(*ssa.Call)
				if !ok || builtinName(call) != "len" {
					return false, false
				}
				k, isK := constInt(b.Y)
				if !isK {
					return false, false
				}
				if call.Call.Args[0] == ssa.Value(ef.Params[0]) && k == 1 {
					return one == (b.Op == token.EQL), true
				}
				if _, isElem := call.Call.Args[0].(*ssa.UnOp); isElem && k == 0 {
					if !one {
						return false, false // fields[0] of a row that does not have exactly one field: irrelevant, must not decide
					}
					return firstEmpty == (b.Op == token.EQL), true
				}
				return false, false
			}
			pe.oracle = func(pe *pathExec, cond ssa.Value) (bool, bool) { return pe.evalBool(cond, atom) }
			end, why := pe.run()
			ret, ok := end.(*ssa.Return)
			if !ok {
				if !one {
					// evaluating the first field's length for a row without exactly one field: only acceptable if the result is false anyway
					c.bad(key, p.pos(ef.Pos()), "the emptiness of the first field is consulted although the row does not have exactly one field: a row such as `,5` counts as an empty line")
				} else {
					c.undecided(key, p.pos(ef.Pos()), "cannot evaluate: "+why)
				}
				continue
			}
			v, known := pe.evalBool(ret.Results[0], atom)
			want := one && firstEmpty
			switch {
			case !known && !one:
				c.bad(key, p.instrPos(ret), "the result depends on the first field although the row does not have exactly one field")
			case !known:
				c.undecided(key, p.instrPos(ret), "result not decided by the world")
			case v == want:
				c.ok(key, p.instrPos(ret), fmt.Sprintf("returns %v", v))
			default:
				c.bad(key, p.instrPos(ret), fmt.Sprintf("returns %v; an empty line is a row of exactly one empty field", v))
			}
		}
	}
}

// reachesBlock: target is reachable from b without passing through `not`.
func reachesBlock(b, target, not *ssa.BasicBlock) bool {
	for _, r := range reachableAvoiding(b, func(x *ssa.BasicBlock) bool { return x == not }) {
		if r == target {
			return true
		}
	}
	return false
}

// headerOfRowLoop: s is the block holding the loop condition that leads back to start (the r.Next() test).
func headerOfRowLoop(s, start *ssa.BasicBlock) bool {
	if !s.Dominates(start) {
		return false
	}
	for _, succ := range s.Succs {
		if succ == start {
			return true
		}
	}
	return false
}

// ---- R87: a grown buffer starts with the content of the one it replaces ----

func init() {
	register(&Rule{ID: "R87", Name: "RESIZE-PRESERVES", Floor: 2,
		Text: "in internal/io, wherever an element of a per-column buffer table ([][]byte, [][]bytePointer) handed in as a parameter is replaced by a slice allocated in the function (the RowCountHint pre-sizing), the replacement is built by appending the old element's content to the new allocation (or allocated with the old length and filled by copy): the cells read so far are carried over",
		Run:  runR87})
}

func runR87(c *Ctx) {
	p := c.P
	for _, fn := range p.FuncsIn("internal/io") {
		fnm := fname(fn)
		eachInstr(fn, func(in ssa.Instruction) {
			st, ok := in.(*ssa.Store)
			if !ok {
				return
			}
			ia, ok := st.Addr.(*ssa.IndexAddr)
			if !ok || !isSliceOfSlices(ia.X.Type()) {
				return
			}
			if _, isParam := rootValue(ia.X).(*ssa.Parameter); !isParam {
				return
			}
			// is the stored value rooted in a make of this function?
			rooted, carries := false, false
			seen := map[ssa.Value]bool{}
			var walk func(v ssa.Value)
			walk = func(v ssa.Value) {
				if seen[v] {
					return
				}
				seen[v] = true
				switch t := v.(type) {
				case *ssa.MakeSlice:
					rooted = true
				case *ssa.Phi:
					for _, e := range t.Edges {
						walk(e)
					}
				case *ssa.Call:
					if builtinName(t) == "append" && len(t.Call.Args) == 2 {
						// append(new, old...) where old is the element being replaced (range value / same element)
						src := t.Call.Args[1]
						if ld, ok := src.(*ssa.UnOp); ok && ld.Op == token.MUL {
							if ia2, ok := ld.X.(*ssa.IndexAddr); ok && rootValue(ia2.X) == rootValue(ia.X) {
								carries = true
							}
						}
						// append(old, ...): the old element itself, grown - its content is the prefix of the result
						if ld, ok := t.Call.Args[0].(*ssa.UnOp); ok && ld.Op == token.MUL {
							if ia2, ok := ld.X.(*ssa.IndexAddr); ok && rootValue(ia2.X) == rootValue(ia.X) {
								if mk, isMk := t.Call.Args[1].(*ssa.MakeSlice); isMk {
									if k, isK := constInt(mk.Len); isK && k == 0 {
										carries, rooted = true, true // nothing is added behind the old content either
									}
								}
							}
						}
						walk(t.Call.Args[0])
					}
				}
			}
			walk(st.Val)
			if !rooted {
				return
			}
			// the other idiom: make([]T, len(old), cap) followed by copy(new, old)
			if mk, ok := st.Val.(*ssa.MakeSlice); ok && !carries {
				isOldElem := func(v ssa.Value) bool {
					if ld, ok := v.(*ssa.UnOp); ok && ld.Op == token.MUL {
						if ia2, ok := ld.X.(*ssa.IndexAddr); ok && rootValue(ia2.X) == rootValue(ia.X) {
							return true
						}
					}
					return false
				}
				lenOfOld := false
				if lc, ok := mk.Len.(*ssa.Call); ok && builtinName(lc) == "len" && isOldElem(lc.Call.Args[0]) {
					lenOfOld = true
				}
				// the destination of the copy: the allocation itself, or the element just stored, read back
				isNewElem := func(v ssa.Value) bool {
					if v == ssa.Value(mk) {
						return true
					}
					ld, ok := v.(*ssa.UnOp)
					if !ok || ld.Op != token.MUL || ld.Block() != st.Block() || !precedes(st, ld) {
						return false
					}
					ia2, ok := ld.X.(*ssa.IndexAddr)
					return ok && ia2.X == ia.X && ia2.Index == ia.Index
				}
				// the source: the old element, read before the store replaced it
				isOldRead := func(v ssa.Value) bool {
					ld, ok := v.(*ssa.UnOp)
					return ok && isOldElem(v) && precedes(ld, st)
				}
				eachInstr(fn, func(in2 ssa.Instruction) {
					if cp, ok := in2.(*ssa.Call); ok && builtinName(cp) == "copy" && isNewElem(cp.Call.Args[0]) && isOldRead(cp.Call.Args[1]) && lenOfOld {
						carries = true
					}
				})
			}
			key := fnm + "|replacement buffer"
			if carries {
				c.ok(key, p.instrPos(st), "the new buffer is the new allocation with the old element appended")
			} else {
				c.bad(key, p.instrPos(st), "a column buffer is replaced by a fresh allocation that does not carry over the old content: the cells read before the resize are lost")
			}
		})
	}
}

// ---- R110: small guards of the CSV scanner ----

func init() {
	register(&Rule{ID: "R110", Name: "CSV-GUARDS", Floor: 2,
		Text: "in internal/fastcsv: (a) a guard `len(x) > k` whose protected accesses are only of the last element x[len(x)-1] has k = 0 - the CR of a CRLF line end is stripped from the last field of rows of every width, also single-column rows; (b) the wrapper that defers an io.EOF delivered together with data does so whenever at least one byte was read (`n > 0`), so a final read of a single byte is not lost; (c) in the scanner methods that report progress by a bool, a reader error other than io.EOF that is stored into the sticky error field is followed by `return false`: scanning stops at the failure instead of treating the partial field as data",
		Run:  runR110})
}

func runR110(c *Ctx) {
	p := c.P
	for _, fn := range p.FuncsIn("internal/fastcsv") {
		fnm := fname(fn)
		eachInstr(fn, func(in ssa.Instruction) {
			switch t := in.(type) {
			case *ssa.If:
				cond, _ := unNot(t.Cond, true)
				b, ok := cond.(*ssa.BinOp)
				if !ok {
					return
				}
				// (b) err == io.EOF && n > k: the count test
				if isIntegerType(b.X.Type()) {
					if pr, ok := b.X.(*ssa.Extract); ok {
						if call, ok := pr.Tuple.(*ssa.Call); ok && pr.Index == 0 {
							if o := calleeObj(call); o != nil && o.Name() == "Read" {
								k, isK := constInt(b.Y)
								key := fnm + "|EOF with data"
								// the test must separate `no byte` from `at least one byte`, whichever way it is written
								// (n > 0, n != 0, n >= 1, or the guard-clause forms n <= 0, n == 0, n < 1)
								splitsAtOne := isK && (k == 0 && (b.Op == token.GTR || b.Op == token.NEQ || b.Op == token.LEQ || b.Op == token.EQL) ||
									k == 1 && (b.Op == token.GEQ || b.Op == token.LSS))
								if splitsAtOne {
									c.ok(key, p.instrPos(t), "deferred whenever a byte was read")
								} else if isK {
									c.bad(key, p.instrPos(t), fmt.Sprintf("the byte count of a Read is tested as `n %s %d`: a read that returns one last byte together with io.EOF loses that byte", b.Op, k))
								}
								return
							}
						}
					}
				}
				// (a) len(x) > k guarding x[len(x)-1]
				call, ok := b.X.(*ssa.Call)
				if !ok || builtinName(call) != "len" || b.Op != token.GTR {
					return
				}
				k, isK := constInt(b.Y)
				if !isK {
					return
				}
				want := accessPath(call.Call.Args[0])
				lastOnly, any := true, false
				eachInstr(fn, func(i2 ssa.Instruction) {
					ia, ok := i2.(*ssa.IndexAddr)
					if !ok || accessPath(ia.X) != want || !t.Block().Dominates(ia.Block()) || ia.Block() == t.Block() {
						return
					}
					any = true
					sub, ok := ia.Index.(*ssa.BinOp)
					if !ok || sub.Op != token.SUB {
						lastOnly = false
						return
					}
					if c1, ok := constInt(sub.Y); !ok || c1 != 1 {
						lastOnly = false
					}
				})
				if !any || !lastOnly {
					return
				}
				key := fnm + "|last-element guard on " + want
				if k == 0 {
					c.ok(key, p.instrPos(t), "len > 0 protects the access to the last element")
				} else {
					c.bad(key, p.instrPos(t), fmt.Sprintf("the last element of %s is handled only when len > %d: rows (or fields) of %d element(s) skip the handling - the CR of a CRLF line end stays in a single-column row", want, k, k))
				}
			case *ssa.Store:
				// (c)
				fa, ok := t.Addr.(*ssa.FieldAddr)
				if !ok || fieldNameAt(fa) != "err" || !isErrorType(t.Val.Type()) {
					return
				}
				if cst, ok := t.Val.(*ssa.Const); ok && cst.IsNil() {
					return
				}
				res := fn.Signature.Results()
				if res.Len() != 1 {
					return
				}
				if bt, ok := res.At(0).Type().Underlying().(*types.Basic); !ok || bt.Kind() != types.Bool {
					return
				}
				// under err == io.EOF? then end of input, true is fine
				eof := false
				for _, g := range dominatingGuards(t.Block()) {
					if bo, ok := g.Cond.(*ssa.BinOp); ok && (bo.Op == token.EQL && g.Val || bo.Op == token.NEQ && !g.Val) {
						if ld, ok := bo.Y.(*ssa.UnOp); ok {
							if gl, ok := ld.X.(*ssa.Global); ok && gl.Name() == "EOF" {
								eof = true
							}
						}
					}
				}
				if eof {
					return
				}
				if _, isGlobalEOF := t.Val.(*ssa.UnOp); isGlobalEOF {
					return // fs.err = io.EOF
				}
				key := fnm + "|stop at reader failure"
				ret, ok := t.Block().Instrs[len(t.Block().Instrs)-1].(*ssa.Return)
				if ok && isConstBool(ret.Results[0], false) {
					c.ok(key, p.instrPos(t), "the failure is recorded and scanning stops")
				} else if ok {
					c.bad(key, p.instrPos(t), "a reader failure is recorded but the method reports progress (true): the row scan continues on incomplete data and the failure can be overwritten")
				}
			}
		})
	}
}
