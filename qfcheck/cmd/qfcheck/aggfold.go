package main

import (
	"fmt"
	"go/token"
	"go/types"

	"golang.org/x/tools/go/ssa"
)

// R115: the built-in aggregations are the folds their names denote. Each is a loop over the group's values;
// the rule checks the fold inductively: the accumulator's initial value, one symbolic iteration (E5, in the
// worlds the iteration distinguishes) and the value returned.

func init() {
	register(&Rule{ID: "R115", Name: "AGG-FOLD", Floor: 8,
		Text: "every function of type func([]T) T registered under sum, avg, max, min or majority in a column package's table is a single loop whose counter enumerates every element of the slice it ranges over (E2's range-key rule), checked as a fold: sum/avg - the slice is the whole argument, the accumulator starts at the constant 0 and one iteration (evaluated symbolically from the loop header back to it) replaces it by accumulator + element; sum returns the accumulator, avg returns it divided by the converted len of the argument. max/min - the accumulator starts as element 0 of the argument, the loop covers the argument or the argument from index 1, and one iteration replaces the accumulator by the larger/smaller of (accumulator, element): a call of math.Max/math.Min or of a module function that is itself evaluated in the three order worlds, or an if-form evaluated in those worlds. majority - two counters start at 0; in the world `element true` exactly the first gains 1 and in the world `element false` exactly the second, and the result is first > second. By induction over the group's values the function returns the named summary of exactly the values it is given",
		Run:  runR115})
}

// twoWayExtreme: g(a, b) returns the larger (want > 0) or smaller (want < 0) of its two arguments, decided in
// the three order worlds.
// worlds of a float comparison in which one side is NaN
const (
	nanAcc  = 2 // the accumulator (first argument) is NaN
	nanElem = 3 // the element (second argument) is NaN
)

// nanWorldAtom answers a condition atom in a world where a (nanAcc) or b (nanElem) is NaN: ordered comparisons
// and == that involve the NaN side are false, != is true, math.IsNaN answers per side, x != x / x == x too.
func nanWorldAtom(v ssa.Value, a, b ssa.Value, world int, pe *pathExec) (bool, bool) {
	isNaN := func(x ssa.Value) (bool, bool) {
		x = pe.resolve(x)
		switch x {
		case a:
			return world == nanAcc, true
		case b:
			return world == nanElem, true
		}
		return false, false
	}
	switch t := v.(type) {
	case *ssa.Call:
		if o := calleeObj(t); isFuncNamed(o, "math", "", "IsNaN") && len(t.Call.Args) == 1 {
			return isNaN(t.Call.Args[0])
		}
	case *ssa.BinOp:
		nx, okx := isNaN(t.X)
		ny, oky := isNaN(t.Y)
		if !okx || !oky {
			return false, false
		}
		if !nx && !ny {
			return false, false // two ordinary values: not decided in this world
		}
		switch t.Op {
		case token.LSS, token.LEQ, token.GTR, token.GEQ, token.EQL:
			return false, true
		case token.NEQ:
			return true, true
		}
	}
	return false, false
}

func twoWayExtreme(g *ssa.Function, want int) (bool, string) {
	if g == nil {
		return false, "no static callee"
	}
	if g.Pkg != nil && g.Pkg.Pkg.Path() == "math" {
		if want > 0 && g.Name() == "Max" || want < 0 && g.Name() == "Min" {
			return true, ""
		}
		return false, "math." + g.Name()
	}
	if g.Blocks == nil || len(g.Params) != 2 {
		return false, "not a two-argument module function"
	}
	a, b := ssa.Value(g.Params[0]), ssa.Value(g.Params[1])
	rels := []int{-1, 0, 1}
	if isFloatType(g.Params[0].Type()) {
		rels = append(rels, nanAcc, nanElem) // a is NaN / b is NaN: the result must be NaN either way
	}
	for _, rel := range rels { // sign of a - b
		pe := &pathExec{fn: g}
		pe.oracle = func(pe *pathExec, cond ssa.Value) (bool, bool) {
			return pe.evalBool(cond, func(v ssa.Value) (bool, bool) {
				if rel == nanAcc || rel == nanElem {
					return nanWorldAtom(v, a, b, rel, pe)
				}
				bo, ok := v.(*ssa.BinOp)
				if !ok {
					return false, false
				}
				r := rel
				switch {
				case bo.X == a && bo.Y == b:
				case bo.X == b && bo.Y == a:
					r = -rel
				default:
					return false, false
				}
				switch bo.Op {
				case token.LSS:
					return r < 0, true
				case token.LEQ:
					return r <= 0, true
				case token.GTR:
					return r > 0, true
				case token.GEQ:
					return r >= 0, true
				case token.EQL:
					return r == 0, true
				case token.NEQ:
					return r != 0, true
				}
				return false, false
			})
		}
		end, why := pe.run()
		ret, ok := end.(*ssa.Return)
		if !ok || len(ret.Results) != 1 {
			return false, "cannot evaluate " + g.Name() + ": " + why
		}
		res := pe.resolve(ret.Results[0])
		if res != a && res != b {
			return false, g.Name() + " does not return one of its arguments"
		}
		if rel == 0 {
			continue
		}
		if rel == nanAcc || rel == nanElem {
			if (rel == nanAcc) != (res == a) {
				return false, g.Name() + " drops a NaN argument (every comparison with NaN is false): the result then depends on the order of the values"
			}
			continue
		}
		wantA := rel*want > 0 // a is the extreme we want
		if wantA != (res == a) {
			return false, fmt.Sprintf("%s returns the %s of its arguments", g.Name(), map[bool]string{true: "smaller", false: "larger"}[want > 0])
		}
	}
	return true, ""
}

// checkFold checks fn as the fold ekey (sum, avg, max, min, majority) over values, one of its parameters;
// bind gives the function values bound to fn's function-typed parameters when fn is a helper.
func checkFold(fn *ssa.Function, values ssa.Value, ekey string, bind map[*ssa.Parameter]ssa.Value, depth int) ([]string, string) {
	kind := map[string]string{"sum": "sum", "avg": "sum", "max": "ext", "min": "ext", "majority": "maj"}[ekey]
	loops := loopsOf(fn)
	if len(loops) == 0 && depth < 2 {
		// a wrapper: the fold is done by a helper of the same package that receives the values
		var ret *ssa.Return
		nRet := 0
		eachInstr(fn, func(in ssa.Instruction) {
			if r, ok := in.(*ssa.Return); ok {
				ret, nRet = r, nRet+1
			}
		})
		if nRet == 1 && len(ret.Results) == 1 {
			res := ret.Results[0]
			subKey := ekey
			if ekey == "avg" {
				q, ok := res.(*ssa.BinOp)
				okQ := ok && q.Op == token.QUO
				if okQ {
					cv, isCv := q.Y.(*ssa.Convert)
					var lc *ssa.Call
					if isCv {
						lc, _ = cv.X.(*ssa.Call)
					}
					if lc == nil || builtinName(lc) != "len" || lc.Call.Args[0] != values {
						okQ = false
					}
				}
				if !okQ {
					return []string{"the value returned is not (sum of the argument) / float64(len(argument))"}, ""
				}
				res, subKey = q.X, "sum"
			}
			if call, ok := res.(*ssa.Call); ok {
				if g := call.Call.StaticCallee(); g != nil && g.Pkg == fn.Pkg && g.Blocks != nil && len(call.Call.Args) == len(g.Params) {
					var gv ssa.Value
					gbind := map[*ssa.Parameter]ssa.Value{}
					nv := 0
					for i, a := range call.Call.Args {
						if a == values {
							gv = g.Params[i]
							nv++
						} else if pr, isP := a.(*ssa.Parameter); isP && bind[pr] != nil {
							gbind[g.Params[i]] = bind[pr]
						} else {
							gbind[g.Params[i]] = a
						}
					}
					if nv == 1 {
						return checkFold(g, gv, subKey, gbind, depth+1)
					}
				}
			}
		}
	}
	if len(loops) != 1 {
		return nil, fmt.Sprintf("%s has %d loops, the fold is expected to be a single loop", fname(fn), len(loops))
	}
	hdr := loops[0].header
	// counter and base from the header's exit test
	var idx, base ssa.Value
	if iff, ok := hdr.Instrs[len(hdr.Instrs)-1].(*ssa.If); ok {
		if cmp, ok := iff.Cond.(*ssa.BinOp); ok && cmp.Op == token.LSS {
			if call, ok := cmp.Y.(*ssa.Call); ok && builtinName(call) == "len" && rangeKeyOf(cmp.X, call.Call.Args[0]) {
				idx, base = cmp.X, call.Call.Args[0]
			} else if singleDef(cmp.Y) != nil {
				if call, ok := singleDef(cmp.Y).(*ssa.Call); ok && builtinName(call) == "len" && rangeKeyOf(cmp.X, call.Call.Args[0]) {
					idx, base = cmp.X, call.Call.Args[0]
				}
			}
		}
	}
	startsAtOne := false
	if idx == nil {
		// classic counter that starts at 1: `for i := 1; i < len(values); i++`
		if iff, ok := hdr.Instrs[len(hdr.Instrs)-1].(*ssa.If); ok {
			if cmp, ok := iff.Cond.(*ssa.BinOp); ok && cmp.Op == token.LSS {
				if phi, ok := cmp.X.(*ssa.Phi); ok && len(phi.Edges) == 2 && phi.Block() == hdr {
					one, stepOK := false, false
					for _, e := range phi.Edges {
						if k, isK := constInt(e); isK && k == 1 {
							one = true
						}
						if add, ok := e.(*ssa.BinOp); ok && add.Op == token.ADD && add.X == ssa.Value(phi) {
							if k, isK := constInt(add.Y); isK && k == 1 {
								stepOK = true
							}
						}
					}
					if call, ok := cmp.Y.(*ssa.Call); ok && one && stepOK && builtinName(call) == "len" {
						idx, base, startsAtOne = phi, call.Call.Args[0], true
					}
				}
			}
		}
	}
	if idx == nil {
		// range loops evaluate len once before the loop
		if loops[0].base != nil {
			idx, base = loops[0].key, loops[0].base
		}
	}
	if idx == nil {
		return nil, "the loop is not recognised as enumerating every element of a slice"
	}
	whole := base == values && !startsAtOne
	fromOne := base == values && startsAtOne
	if s, ok := base.(*ssa.Slice); ok && s.X == values && s.High == nil && s.Max == nil {
		if k, isK := constInt(s.Low); isK && k == 1 && !startsAtOne {
			fromOne = true
		}
		if s.Low == nil && !startsAtOne {
			whole = true
		}
	}
	isElem := func(v ssa.Value) bool {
		ld, ok := v.(*ssa.UnOp)
		if !ok || ld.Op != token.MUL {
			return false
		}
		ia, ok := ld.X.(*ssa.IndexAddr)
		return ok && ia.X == base && ia.Index == idx
	}
	// accumulators: header phis other than the counter's own
	var accs []*ssa.Phi
	for _, in := range hdr.Instrs {
		phi, ok := in.(*ssa.Phi)
		if !ok {
			break
		}
		if ssa.Value(phi) == idx {
			continue
		}
		if add, ok := idx.(*ssa.BinOp); ok && add.X == ssa.Value(phi) {
			continue
		}
		accs = append(accs, phi)
	}
	initOf := func(phi *ssa.Phi) ssa.Value {
		for i, pred := range hdr.Preds {
			if !inLoop(loops[0], pred) {
				return phi.Edges[i]
			}
		}
		return nil
	}
	// one iteration in a world; returns the new accumulator values
	step := func(elemTrue bool, rel int) ([]ssa.Value, string) {
		pe := &pathExec{fn: fn, start: hdr}
		pe.stopAt = func(b *ssa.BasicBlock) bool { return b == hdr }
		pe.oracle = func(pe *pathExec, cond ssa.Value) (bool, bool) {
			return pe.evalBool(cond, func(v ssa.Value) (bool, bool) {
				if iff, ok := hdr.Instrs[len(hdr.Instrs)-1].(*ssa.If); ok && v == iff.Cond {
					return true, true
				}
				if isElem(v) {
					return elemTrue, true
				}
				if (rel == nanAcc || rel == nanElem) && len(accs) == 1 {
					var elemV ssa.Value
					switch t := v.(type) {
					case *ssa.BinOp:
						for _, o := range []ssa.Value{pe.resolve(t.X), pe.resolve(t.Y)} {
							if isElem(o) {
								elemV = o
							}
						}
					case *ssa.Call:
						if len(t.Call.Args) == 1 && isElem(pe.resolve(t.Call.Args[0])) {
							elemV = pe.resolve(t.Call.Args[0])
						}
					}
					if elemV == nil {
						elemV = ssa.Value(nil)
					}
					return nanWorldAtom(v, ssa.Value(accs[0]), elemV, rel, pe)
				}
				if bo, ok := v.(*ssa.BinOp); ok && len(accs) == 1 {
					x, y := pe.resolve(bo.X), pe.resolve(bo.Y)
					r := rel // sign of acc - elem
					switch {
					case x == ssa.Value(accs[0]) && isElem(y):
					case isElem(x) && y == ssa.Value(accs[0]):
						r = -rel
					default:
						return false, false
					}
					switch bo.Op {
					case token.LSS:
						return r < 0, true
					case token.LEQ:
						return r <= 0, true
					case token.GTR:
						return r > 0, true
					case token.GEQ:
						return r >= 0, true
					}
				}
				return false, false
			})
		}
		_, why := pe.run()
		if pe.stopped != hdr {
			return nil, "one iteration cannot be evaluated: " + why
		}
		latch := pe.path[len(pe.path)-1]
		pi := -1
		for i, pred := range hdr.Preds {
			if pred == latch {
				pi = i
			}
		}
		if pi < 0 {
			return nil, "the iteration does not return to the loop header"
		}
		var out []ssa.Value
		for _, a := range accs {
			out = append(out, pe.resolve(a.Edges[pi]))
		}
		return out, ""
	}
	// the value returned after the loop
	var ret *ssa.Return
	eachInstr(fn, func(in ssa.Instruction) {
		if r, ok := in.(*ssa.Return); ok && !inLoop(loops[0], r.Block()) && hdr.Dominates(r.Block()) {
			ret = r
		}
	})
	if ret == nil {
		return nil, "no return after the loop"
	}
	var problems []string
	und := ""
	switch kind {
	case "sum":
		if !whole {
			problems = append(problems, "the loop does not cover the whole argument")
		}
		if len(accs) != 1 {
			und = fmt.Sprintf("%d accumulators", len(accs))
			break
		}
		acc := accs[0]
		in0 := initOf(acc)
		if k, isK := constInt(in0); !(isK && k == 0) && !isFloatConst(in0, 0) {
			problems = append(problems, "the accumulator starts at "+describe(in0)+", not 0")
		}
		nv, why := step(false, 0)
		if nv == nil {
			und = why
			break
		}
		bo, ok := nv[0].(*ssa.BinOp)
		if !ok || bo.Op != token.ADD || !(bo.X == ssa.Value(acc) && isElem(bo.Y) || isElem(bo.X) && bo.Y == ssa.Value(acc)) {
			problems = append(problems, "one iteration turns the accumulator into "+describe(nv[0])+", not accumulator + element")
		}
		res := ret.Results[0]
		if ekey == "sum" {
			if res != ssa.Value(acc) {
				problems = append(problems, "the value returned is not the accumulator")
			}
		} else {
			q, ok := res.(*ssa.BinOp)
			okQ := ok && q.Op == token.QUO && q.X == ssa.Value(acc)
			if okQ {
				cv, isCv := q.Y.(*ssa.Convert)
				var lc *ssa.Call
				if isCv {
					lc, _ = cv.X.(*ssa.Call)
				}
				if lc == nil || builtinName(lc) != "len" || lc.Call.Args[0] != values {
					okQ = false
				}
			}
			if !okQ {
				problems = append(problems, "the value returned is not accumulator / float64(len(argument))")
			}
		}
	case "ext":
		want := 1
		if ekey == "min" {
			want = -1
		}
		if !whole && !fromOne {
			problems = append(problems, "the loop covers neither the argument nor the argument from index 1")
		}
		if len(accs) != 1 {
			und = fmt.Sprintf("%d accumulators", len(accs))
			break
		}
		acc := accs[0]
		in0 := initOf(acc)
		first := false
		if ld, ok := in0.(*ssa.UnOp); ok && ld.Op == token.MUL {
			if ia, ok := ld.X.(*ssa.IndexAddr); ok && ia.X == values {
				if k, isK := constInt(ia.Index); isK && k == 0 {
					first = true
				}
			}
		}
		if !first {
			und = "the accumulator does not start as element 0 of the argument (other initialisations are not evaluated)"
			break
		}
		// call form
		nv, why := step(false, 0)
		if nv != nil {
			if call, ok := nv[0].(*ssa.Call); ok && len(call.Call.Args) == 2 {
				a0, a1 := call.Call.Args[0], call.Call.Args[1]
				if !(a0 == ssa.Value(acc) && isElem(a1) || isElem(a0) && a1 == ssa.Value(acc)) {
					problems = append(problems, "one iteration combines "+describe(a0)+" and "+describe(a1)+", not accumulator and element")
				}
				g := call.Call.StaticCallee()
				if pr, isP := call.Call.Value.(*ssa.Parameter); isP && g == nil {
					g, _ = bind[pr].(*ssa.Function)
				}
				if ok, why := twoWayExtreme(g, want); !ok {
					problems = append(problems, "the accumulator is combined with the element by a function that is not "+ekey+" of two values: "+why)
				}
				break
			}
		}
		// if form: three worlds
		_ = why
		for _, rel := range []int{-1, 0, 1} {
			nv, why := step(false, rel)
			if nv == nil {
				und = why
				break
			}
			isAcc, isEl := nv[0] == ssa.Value(acc), isElem(nv[0])
			if !isAcc && !isEl {
				und = "one iteration yields " + describe(nv[0]) + ", neither accumulator nor element"
				break
			}
			if rel == 0 {
				continue
			}
			wantAcc := rel*want > 0
			if wantAcc != isAcc {
				problems = append(problems, fmt.Sprintf("with accumulator %s element the iteration keeps the %s", map[int]string{-1: "<", 1: ">"}[rel], map[bool]string{true: "accumulator", false: "element"}[isAcc]))
			}
		}
		// float elements: a NaN anywhere in the group must decide the result, wherever it stands. Every
		// comparison with NaN is false, so a plain `if v > acc { acc = v }` keeps a NaN only when it comes first.
		if und == "" && len(problems) == 0 && isFloatType(acc.Type()) {
			for _, w := range []int{nanAcc, nanElem} {
				nv, why := step(false, w)
				if nv == nil {
					und = "NaN world: " + why
					break
				}
				isAcc, isEl := nv[0] == ssa.Value(acc), isElem(nv[0])
				if w == nanAcc && !isAcc || w == nanElem && !isEl {
					problems = append(problems, "a NaN value is dropped by the comparison (every comparison with NaN is false): "+ekey+" of a group then depends on where the NaN stands among its rows - NaN when it is first, a number otherwise")
					break
				}
			}
		}
		if ret.Results[0] != ssa.Value(acc) {
			problems = append(problems, "the value returned is not the accumulator")
		}
	case "maj":
		if !whole {
			problems = append(problems, "the loop does not cover the whole argument")
		}
		if len(accs) == 1 {
			// one counter of the true elements, compared with the rest: t > len(b)-t, 2*t > len(b)
			t := accs[0]
			if k, isK := constInt(initOf(t)); !isK || k != 0 {
				problems = append(problems, "the counter starts at "+describe(initOf(t))+", not 0")
			}
			for _, world := range []bool{true, false} {
				nv, why := step(world, 0)
				if nv == nil {
					und = why
					break
				}
				d := int64(-1)
				if nv[0] == ssa.Value(t) {
					d = 0
				} else if bo, ok := nv[0].(*ssa.BinOp); ok && bo.Op == token.ADD && bo.X == ssa.Value(t) {
					if k, isK := constInt(bo.Y); isK {
						d = k
					}
				}
				if want := map[bool]int64{true: 1, false: 0}[world]; d != want {
					problems = append(problems, fmt.Sprintf("for an element that is %v the counter of true elements changes by %d", world, d))
				}
			}
			if und != "" {
				break
			}
			isLen := func(v ssa.Value) bool {
				call, ok := v.(*ssa.Call)
				return ok && builtinName(call) == "len" && call.Call.Args[0] == values
			}
			isRest := func(v ssa.Value) bool { // len(b) - t
				bo, ok := v.(*ssa.BinOp)
				return ok && bo.Op == token.SUB && isLen(bo.X) && bo.Y == ssa.Value(t)
			}
			isTwice := func(v ssa.Value) bool {
				bo, ok := v.(*ssa.BinOp)
				if !ok {
					return false
				}
				if bo.Op == token.ADD && bo.X == ssa.Value(t) && bo.Y == ssa.Value(t) {
					return true
				}
				if bo.Op == token.MUL {
					kx, isKx := constInt(bo.X)
					ky, isKy := constInt(bo.Y)
					return bo.X == ssa.Value(t) && isKy && ky == 2 || bo.Y == ssa.Value(t) && isKx && kx == 2
				}
				return false
			}
			bo, ok := ret.Results[0].(*ssa.BinOp)
			good := ok && (bo.Op == token.GTR && (bo.X == ssa.Value(t) && isRest(bo.Y) || isTwice(bo.X) && isLen(bo.Y)) ||
				bo.Op == token.LSS && (isRest(bo.X) && bo.Y == ssa.Value(t) || isLen(bo.X) && isTwice(bo.Y)))
			if !good {
				problems = append(problems, "the result is "+describe(ret.Results[0])+", which does not compare the count of true elements with the count of the others")
			}
			break
		}
		if len(accs) != 2 {
			und = fmt.Sprintf("%d counters", len(accs))
			break
		}
		for _, a := range accs {
			if k, isK := constInt(initOf(a)); !isK || k != 0 {
				problems = append(problems, "a counter starts at "+describe(initOf(a))+", not 0")
			}
		}
		delta := func(nv ssa.Value, a *ssa.Phi) (int64, bool) {
			if nv == ssa.Value(a) {
				return 0, true
			}
			if bo, ok := nv.(*ssa.BinOp); ok && bo.Op == token.ADD && bo.X == ssa.Value(a) {
				return constInt(bo.Y)
			}
			return 0, false
		}
		tIdx := -1
		for _, world := range []bool{true, false} {
			nv, why := step(world, 0)
			if nv == nil {
				und = why
				break
			}
			d0, ok0 := delta(nv[0], accs[0])
			d1, ok1 := delta(nv[1], accs[1])
			if !ok0 || !ok1 {
				und = "a counter is not updated by a constant"
				break
			}
			if !(d0 == 1 && d1 == 0 || d0 == 0 && d1 == 1) {
				problems = append(problems, fmt.Sprintf("for an element that is %v the counters change by %d and %d: exactly one of them counts it", world, d0, d1))
				continue
			}
			gained := 0
			if d1 == 1 {
				gained = 1
			}
			if world {
				tIdx = gained
			} else if gained == tIdx {
				problems = append(problems, "true and false elements are counted by the same counter")
			}
		}
		if und != "" || tIdx < 0 {
			break
		}
		t, f := ssa.Value(accs[tIdx]), ssa.Value(accs[1-tIdx])
		bo, ok := ret.Results[0].(*ssa.BinOp)
		if !ok || !(bo.Op == token.GTR && bo.X == t && bo.Y == f || bo.Op == token.LSS && bo.X == f && bo.Y == t) {
			problems = append(problems, "the result is "+describe(ret.Results[0])+", not `count of true > count of false`")
		}
	}
	return problems, und
}

func runR115(c *Ctx) {
	p := c.P
	n := 0
	for _, cp := range []string{"internal/bcolumn", "internal/icolumn", "internal/fcolumn"} {
		for _, e := range comparatorTables(p, cp) {
			fn := e.fn
			sig := fn.Signature
			if sig.Params().Len() != 1 || sig.Results().Len() != 1 || fn.Blocks == nil {
				continue
			}
			sl, ok := sig.Params().At(0).Type().Underlying().(*types.Slice)
			if !ok || !types.Identical(sl.Elem(), sig.Results().At(0).Type()) {
				continue
			}
			kind := ""
			switch e.key {
			case "sum", "avg":
				kind = "sum"
			case "max", "min":
				kind = "ext"
			case "majority":
				kind = "maj"
			default:
				continue
			}
			n++
			key := fmt.Sprintf("%s.%s[%s]", cp, e.table, e.key)
			pos := p.pos(fn.Pos())
			_ = kind
			problems, und := checkFold(fn, fn.Params[0], e.key, nil, 0)
			switch {
			case und != "":
				c.undecided(key, pos, "cannot check "+fname(fn)+": "+und)
			case len(problems) > 0:
				c.bad(key, pos, fname(fn)+": "+joinStrings(problems, "; "))
			default:
				c.ok(key, pos, fname(fn)+" is the fold "+e.key+" (initial value, one iteration, result)")
			}
		}
	}
	if n == 0 {
		c.undecided("aggregations|tables", "-", "no aggregation tables found")
	}
}

func joinStrings(xs []string, sep string) string {
	out := ""
	for i, x := range xs {
		if i > 0 {
			out += sep
		}
		out += x
	}
	return out
}

// ---- R116: growing the hash table refreshes the state that triggered the growth ----

func init() {
	register(&Rule{ID: "R116", Name: "GROW-REFRESH", Floor: 1,
		Text: "in internal/grouper, where an insert path calls a function G under a branch `t.F > constant` on a field F of the table, and G replaces a slice field of the same table by a larger allocation (the growth step): every path through G stores F, and the value stored is the old F divided by a constant > 1 or a quotient over the length of the new allocation. Otherwise the trigger stays true after growing and the table doubles again on every following insert of an existing key - memory is exhausted after a few dozen rows and GroupBy/Distinct never return their partition",
		Run:  runR116})
}

func runR116(c *Ctx) {
	p := c.P
	n := 0
	for _, fn := range p.FuncsIn("internal/grouper") {
		eachInstr(fn, func(in ssa.Instruction) {
			iff, ok := in.(*ssa.If)
			if !ok {
				return
			}
			cmp, ok := iff.Cond.(*ssa.BinOp)
			if !ok || cmp.Op != token.GTR && cmp.Op != token.GEQ {
				return
			}
			fld, recv := fieldOf(cmp.X)
			if fld == nil {
				return
			}
			if _, isConst := cmp.Y.(*ssa.Const); !isConst {
				return
			}
			// the true side calls G(recv)
			for _, in2 := range iff.Block().Succs[0].Instrs {
				call, ok := in2.(*ssa.Call)
				if !ok {
					continue
				}
				g := call.Call.StaticCallee()
				if g == nil || g.Blocks == nil || g.Pkg != fn.Pkg || len(call.Call.Args) == 0 || rootValue(call.Call.Args[0]) != rootValue(recv) {
					continue
				}
				// G replaces a slice field by a make
				var mk *ssa.MakeSlice
				eachInstr(g, func(i3 ssa.Instruction) {
					if st, ok := i3.(*ssa.Store); ok {
						if _, isFA := st.Addr.(*ssa.FieldAddr); isFA {
							if m, ok := st.Val.(*ssa.MakeSlice); ok {
								mk = m
							}
						}
					}
				})
				if mk == nil {
					continue
				}
				n++
				key := fname(g) + "|refreshes " + fld.Name()
				var stores []*ssa.Store
				eachInstr(g, func(i3 ssa.Instruction) {
					if st, ok := i3.(*ssa.Store); ok {
						if fa, ok := st.Addr.(*ssa.FieldAddr); ok && fieldNameAt(fa) == fld.Name() {
							stores = append(stores, st)
						}
					}
				})
				if len(stores) == 0 {
					c.bad(key, p.pos(g.Pos()), fmt.Sprintf("%s is called because %s exceeds its limit and allocates a larger table, but never stores %s: the trigger stays true and every later insert grows the table again", fname(g), fld.Name(), fld.Name()))
					continue
				}
				// on every path to a return
				covered := true
				for _, b := range g.Blocks {
					if _, isRet := b.Instrs[len(b.Instrs)-1].(*ssa.Return); !isRet {
						continue
					}
					dom := false
					for _, st := range stores {
						if st.Block().Dominates(b) {
							dom = true
						}
					}
					if !dom {
						covered = false
					}
				}
				if !covered {
					c.bad(key, p.pos(g.Pos()), fmt.Sprintf("%s returns on some path without storing %s", fname(g), fld.Name()))
					continue
				}
				shapeOK := true
				for _, st := range stores {
					q, ok := st.Val.(*ssa.BinOp)
					if !ok || q.Op != token.QUO {
						shapeOK = false
						continue
					}
					oldF, _ := fieldOf(q.X)
					if oldF != nil && oldF.Name() == fld.Name() {
						// old / k, k > 1
						k, isK := q.Y.(*ssa.Const)
						if !isK || k.Value == nil || !(k.Float64() > 1) {
							shapeOK = false
						}
						continue
					}
					// count / len(new)
					den := q.Y
					if cv, ok := den.(*ssa.Convert); ok {
						den = cv.X
					}
					lc, ok := den.(*ssa.Call)
					if !ok || builtinName(lc) != "len" {
						shapeOK = false
					}
				}
				if shapeOK {
					c.ok(key, p.instrPos(stores[0]), fld.Name()+" is reduced (divided by the growth factor, or recomputed over the new length) on every path")
				} else {
					c.undecided(key, p.instrPos(stores[0]), "the value stored into "+fld.Name()+" is neither the old value divided by a constant > 1 nor a quotient over a length")
				}
			}
		})
	}
	if n == 0 {
		c.okTrivial("internal/grouper|growth trigger", "-", "no growth step triggered by a stored field: nothing to refresh")
	}
}
