package main

// Engine E1: prestate-mutation (purity) analysis.
//
// For every public root the root is abstractly interpreted with its callees (context-sensitive by
// re-analysis per abstract argument tuple, memoised; recursion by fixpoint) over a field-sensitive
// points-to heap. Abstract objects: In (memory that existed before the operation: whatever the root's
// parameters reach, created lazily along access paths), Glob (package-level variables), New
// (allocated by this operation, one per allocation site), Local (non-escaping local variable cells,
// flow-sensitive with strong updates), Closure/Func (function values). Every instruction that writes
// memory (Store, MapUpdate, copy, append, delete, clear, and library mutators) whose target is an
// In or Glob object is an effect on prestate / global state and is reported.

import (
	"fmt"
	"go/token"
	"go/types"
	"os"
	"sort"
	"strings"
	"time"

	"golang.org/x/tools/go/ssa"
)

type nodeKind int

const (
	nIn nodeKind = iota
	nGlob
	nNew
	nLocal
	nFunc
)

type pnode struct {
	kind   nodeKind
	key    string
	fn     *ssa.Function // nFunc: the function (closures: bindings in heap under "$k")
	depth  int
	parent *pnode
	label  string
	code   bool // a function value read from prestate/global: immutable
}

type ploc struct {
	n   *pnode
	rel string
}

type locset map[ploc]bool
type aval map[string]locset

// maxKeySegs bounds by-value nesting inside one abstract value (structs in interfaces in structs ...).
// Only recursive value types (expression and clause trees, which carry names, constants and user
// functions) ever exceed it; deeper levels are represented by the same prestate nodes as shallower
// ones because prestate access paths fold on repeated labels.
const maxKeySegs = 5

var truncatedKeys int

func (a aval) add(key string, l ploc) bool {
	if strings.Count(key, ".") > maxKeySegs {
		truncatedKeys++
		return false
	}
	s := a[key]
	if s == nil {
		s = locset{}
		a[key] = s
	}
	if s[l] {
		return false
	}
	s[l] = true
	return true
}

func (a aval) merge(prefix string, b aval) bool {
	ch := false
	for k, s := range b {
		for l := range s {
			if a.add(prefix+k, l) {
				ch = true
			}
		}
	}
	return ch
}

func (a aval) sub(prefix string) aval {
	out := aval{}
	for k, s := range a {
		if hasPathPrefix(k, prefix) {
			for l := range s {
				out.add(k[len(prefix):], l)
			}
		}
	}
	return out
}

func (a aval) clone() aval {
	out := aval{}
	out.merge("", a)
	return out
}

func hasPathPrefix(k, prefix string) bool {
	if !strings.HasPrefix(k, prefix) {
		return false
	}
	if len(k) == len(prefix) {
		return true
	}
	switch k[len(prefix)] {
	case '.', '#', '$':
		return true
	}
	return prefix == ""
}

func (a aval) key() string {
	var ks []string
	for k, s := range a {
		if len(s) == 0 {
			continue
		}
		var ls []string
		for l := range s {
			ls = append(ls, l.n.key+"@"+l.rel)
		}
		sort.Strings(ls)
		ks = append(ks, k+"={"+strings.Join(ls, ",")+"}")
	}
	sort.Strings(ks)
	return strings.Join(ks, ";")
}

type leaf struct {
	path  string
	iface bool
	fn    bool // function-typed leaf: the pointee is immutable code
}

type effect struct {
	Root   string
	Pos    string
	Fn     string
	What   string
	Target string
	Chain  []string
}

type purity struct {
	p          *Prog
	res        *callResolver
	nodes      map[string]*pnode
	heap       map[*pnode]map[string]locset
	changed    bool
	leaves     map[types.Type][]leaf
	memo       map[string]*memoEntry
	prev       map[string]aval
	stack      []string
	root       string
	effects    map[string]*effect
	undec      map[string]*effect
	stats      struct{ activations, writes, freshWrites int }
	writeSites map[ssa.Instruction]bool
	lastRet    aval
	cbShared   map[string]*effect // user callbacks handed a slice into prestate memory
}

type memoEntry struct {
	ret  aval
	done bool
}

func newPurity(p *Prog) *purity {
	return &purity{p: p, res: p.resolver(), nodes: map[string]*pnode{}, heap: map[*pnode]map[string]locset{},
		leaves: map[types.Type][]leaf{}, effects: map[string]*effect{}, undec: map[string]*effect{}, writeSites: map[ssa.Instruction]bool{}, cbShared: map[string]*effect{}}
}

func (pu *purity) node(kind nodeKind, key string) *pnode {
	if n, ok := pu.nodes[key]; ok {
		return n
	}
	n := &pnode{kind: kind, key: key}
	pu.nodes[key] = n
	return n
}

func (pu *purity) inChild(n *pnode, rel string) *pnode {
	// recursive data (clause trees, expression trees): a label that already occurs on the access path
	// folds back onto the ancestor reached by that label, so prestate paths stay finite.
	for anc := n; anc != nil; anc = anc.parent {
		if anc.label == rel && anc.parent != nil {
			return anc
		}
	}
	if n.depth >= 8 {
		return n // collapse very deep paths: the node stands for everything beyond
	}
	c := pu.node(n.kind, n.key+rel+">")
	c.depth = n.depth + 1
	c.parent, c.label = n, rel
	return c
}

// foldRel folds repeated segments of a by-value path (interfaces nested in interfaces): ".a.b.a" -> ".a".
func foldRel(rel string) string {
	if strings.Count(rel, ".") < 2 {
		return rel
	}
	segs := strings.Split(rel, ".")
	seen := map[string]int{}
	for i, sg := range segs {
		if i == 0 {
			continue
		}
		base := sg
		if j := strings.IndexAny(base, "#$"); j >= 0 {
			base = base[:j]
		}
		if first, ok := seen[base]; ok {
			tail := ""
			if j := strings.IndexAny(sg, "#$"); j >= 0 {
				tail = sg[j:]
			}
			return strings.Join(segs[:first+1], ".") + tail
		}
		seen[base] = i
	}
	return rel
}

// flatten lists the pointer-bearing leaves of a by-value type.
func (pu *purity) flatten(t types.Type) []leaf {
	if l, ok := pu.leaves[t]; ok {
		return l
	}
	pu.leaves[t] = nil // recursion guard (recursive types only recurse through pointers = leaves)
	var out []leaf
	switch u := t.Underlying().(type) {
	case *types.Struct:
		for i := 0; i < u.NumFields(); i++ {
			f := u.Field(i)
			for _, l := range pu.flatten(f.Type()) {
				out = append(out, leaf{"." + f.Name() + l.path, l.iface, l.fn})
			}
		}
	case *types.Array:
		out = append(out, pu.flatten(u.Elem())...)
	case *types.Tuple:
		for i := 0; i < u.Len(); i++ {
			for _, l := range pu.flatten(u.At(i).Type()) {
				out = append(out, leaf{fmt.Sprintf("#%d", i) + l.path, l.iface, l.fn})
			}
		}
	case *types.Pointer, *types.Slice, *types.Map, *types.Chan:
		out = []leaf{{"", false, false}}
	case *types.Signature:
		out = []leaf{{"", false, true}}
	case *types.Interface:
		out = []leaf{{"", true, false}}
	case *types.Basic:
		if u.Kind() == types.UnsafePointer {
			out = []leaf{{"", false, false}}
		}
	}
	pu.leaves[t] = out
	return out
}

func (pu *purity) contents(n *pnode, key string) locset {
	m := pu.heap[n]
	if m == nil {
		return nil
	}
	return m[key]
}

// read loads a value of type t stored at location (n, rel).
func (pu *purity) read(n *pnode, rel string, t types.Type) aval {
	out := aval{}
	lazy := n.kind == nIn || n.kind == nGlob
	for _, lf := range pu.flatten(t) {
		key := rel + lf.path
		if lazy {
			key = foldRel(key)
			if lf.iface {
				out.add(lf.path+"#box", ploc{n, key})
			} else {
				ch := pu.inChild(n, key)
				if lf.fn {
					ch.code = true
				}
				out.add(lf.path, ploc{ch, ""})
			}
		}
		if lf.iface {
			for k, s := range pu.heap[n] {
				if hasPathPrefix(k, key) && !strings.HasSuffix(k, "#boxall") {
					for l := range s {
						out.add(lf.path+k[len(key):], l)
					}
				}
			}
		} else {
			for l := range pu.contents(n, key) {
				out.add(lf.path, l)
			}
		}
	}
	// elements copied wholesale out of prestate (copy/append): read through to the source lazily
	if !lazy {
		for k, s := range pu.heap[n] {
			if !strings.HasSuffix(k, "#boxall") {
				continue
			}
			base := k[:len(k)-len("#boxall")]
			if !hasPathPrefix(rel, base) {
				continue
			}
			for l := range s {
				if l.n != n {
					out.merge("", pu.read(l.n, l.rel+rel[len(base):], t))
				}
			}
		}
	}
	return out
}

// materialise turns an interface value into the value of concrete type t it may hold.
func (pu *purity) materialise(x aval, t types.Type) aval {
	out := aval{}
	_, toIface := t.Underlying().(*types.Interface)
	lvs := pu.flatten(t)
	fits := func(k string) bool {
		if toIface {
			return true
		}
		for _, lf := range lvs {
			if k == lf.path || lf.iface && hasPathPrefix(k, lf.path) {
				return true
			}
		}
		return false
	}
	for k, s := range x {
		if k == "#box" {
			for l := range s {
				out.merge("", pu.read(l.n, l.rel, t))
			}
			continue
		}
		if !fits(k) { // a key that the asserted concrete type cannot carry belongs to another dynamic type
			continue
		}
		// a function object is not a *string / []int and vice versa (both are leaves with the same path)
		wantFn, exact := false, false
		for _, lf := range lvs {
			if k == lf.path && !lf.iface {
				wantFn, exact = lf.fn, true
			}
		}
		for l := range s {
			if exact && !toIface && (l.n.kind == nFunc || l.n.code) != wantFn {
				continue
			}
			out.add(k, l)
		}
	}
	return out
}

// write stores value v at location l (weak update on heap objects).
func (pu *purity) heapWrite(l ploc, v aval) {
	m := pu.heap[l.n]
	if m == nil {
		m = map[string]locset{}
		pu.heap[l.n] = m
	}
	for k, s := range v {
		key := l.rel + k
		dst := m[key]
		if dst == nil {
			dst = locset{}
			m[key] = dst
		}
		for x := range s {
			if !dst[x] {
				dst[x] = true
				pu.changed = true
			}
		}
	}
}

// ---- activation ----

type activation struct {
	pu    *purity
	fn    *ssa.Function
	regs  map[ssa.Value]aval
	cells map[*pnode]aval // flow-sensitive state at the current program point
	ret   aval
	depth int
}

func (a *activation) localNode(al *ssa.Alloc) *pnode {
	return a.pu.node(nLocal, fmt.Sprintf("L:%s:%s:%d", fname(a.fn), al.Name(), a.depth))
}

func (a *activation) val(v ssa.Value) aval {
	switch t := v.(type) {
	case *ssa.Const:
		return aval{}
	case *ssa.Function:
		out := aval{}
		n := a.pu.node(nFunc, "F:"+fname(t)+fmt.Sprintf("@%p", t))
		n.fn = t
		out.add("", ploc{n, ""})
		return out
	case *ssa.Global:
		out := aval{}
		out.add("", ploc{a.pu.node(nGlob, "G:"+t.Pkg.Pkg.Path()+"."+t.Name()), ""})
		return out
	case *ssa.Builtin:
		return aval{}
	}
	if r, ok := a.regs[v]; ok {
		return r
	}
	return aval{}
}

func (a *activation) setReg(v ssa.Value, x aval) bool {
	old := a.regs[v]
	if old == nil {
		a.regs[v] = x.clone()
		return len(x) > 0
	}
	return old.merge("", x)
}

func cloneCells(c map[*pnode]aval) map[*pnode]aval {
	out := map[*pnode]aval{}
	for k, v := range c {
		out[k] = v.clone()
	}
	return out
}

func mergeCells(dst, src map[*pnode]aval) bool {
	ch := false
	for k, v := range src {
		d := dst[k]
		if d == nil {
			dst[k] = v.clone()
			ch = true
			continue
		}
		if d.merge("", v) {
			ch = true
		}
	}
	return ch
}

// loadFrom reads a value of type t through the pointer value ptr.
func (a *activation) loadFrom(ptr aval, t types.Type) aval {
	out := aval{}
	for l := range ptr[""] {
		if l.n.kind == nLocal {
			if c, ok := a.cells[l.n]; ok {
				out.merge("", c.sub(l.rel))
			}
			continue
		}
		if l.n.kind == nFunc {
			continue
		}
		out.merge("", a.pu.read(l.n, l.rel, t))
	}
	// a pointer obtained from an interface box (x.(*T) on a prestate interface)
	for l := range ptr["#box"] {
		inner := a.pu.read(l.n, l.rel, types.NewPointer(t))
		out.merge("", a.loadFrom(inner, t))
	}
	return out
}

func (a *activation) storeTo(ptr aval, v aval, in ssa.Instruction, what string) {
	targets := ptr[""]
	if len(ptr["#box"]) > 0 {
		targets = locset{}
		for l := range ptr[""] {
			targets[l] = true
		}
		for l := range ptr["#box"] {
			for x := range a.pu.read(l.n, l.rel, types.NewPointer(types.Typ[types.Int]))[""] {
				targets[x] = true
			}
		}
	}
	strong := len(targets) == 1
	for l := range targets {
		switch l.n.kind {
		case nLocal:
			c := a.cells[l.n]
			if c == nil {
				c = aval{}
				a.cells[l.n] = c
			}
			if strong {
				for k := range c {
					if hasPathPrefix(k, l.rel) {
						delete(c, k)
					}
				}
			}
			c.merge(l.rel, v)
		case nFunc:
		default:
			a.pu.recordWrite(l, in, what, a)
			a.pu.heapWrite(l, v)
		}
	}
}

func (pu *purity) recordWrite(l ploc, in ssa.Instruction, what string, a *activation) {
	pu.stats.writes++
	pu.writeSites[in] = true
	if l.n.kind != nIn && l.n.kind != nGlob {
		pu.stats.freshWrites++
		return
	}
	pos := pu.p.instrPos(in)
	k := pu.root + "|" + pos + "|" + l.n.key + l.rel
	if pu.effects[k] != nil {
		return
	}
	kind := "memory that existed before the operation"
	if l.n.kind == nGlob {
		kind = "package-level state"
	}
	pu.effects[k] = &effect{Root: pu.root, Pos: pos, Fn: fname(in.Parent()), What: what + " writes " + kind, Target: l.n.key + l.rel, Chain: append([]string(nil), pu.stack...)}
}

// reachesPrestate reports whether any object reachable from v is In/Glob.
func (pu *purity) reachesPrestate(v aval) (bool, string) {
	seen := map[*pnode]bool{}
	var visit func(n *pnode) (bool, string)
	visit = func(n *pnode) (bool, string) {
		if seen[n] {
			return false, ""
		}
		seen[n] = true
		if n.kind == nIn || n.kind == nGlob {
			return true, n.key
		}
		for _, s := range pu.heap[n] {
			for l := range s {
				if ok, w := visit(l.n); ok {
					return true, w
				}
			}
		}
		return false, ""
	}
	for _, s := range v {
		for l := range s {
			if ok, w := visit(l.n); ok {
				return true, w
			}
		}
	}
	return false, ""
}

// reachesGlobal: a mutable object (slice, map, pointer target) of package-level state reachable from v.
func (pu *purity) reachesGlobal(v aval) string {
	seen := map[*pnode]bool{}
	var visit func(n *pnode) string
	visit = func(n *pnode) string {
		if seen[n] {
			return ""
		}
		seen[n] = true
		if n.code {
			return ""
		}
		if n.kind == nGlob && n.parent != nil {
			return n.key // an object reached through a package-level variable (not the variable's own cell)
		}
		for _, s := range pu.heap[n] {
			for l := range s {
				if w := visit(l.n); w != "" {
					return w
				}
			}
		}
		return ""
	}
	for k, s := range v {
		if strings.HasSuffix(k, "#box") {
			for l := range s {
				if l.n.kind == nGlob {
					return l.n.key + l.rel
				}
			}
			continue
		}
		for l := range s {
			if w := visit(l.n); w != "" {
				return w
			}
		}
	}
	return ""
}

// analyse runs fn on abstract arguments and returns the abstract result.
func (pu *purity) analyse(fn *ssa.Function, args []aval, free []aval, depth int) aval {
	if fn.Blocks == nil {
		return aval{}
	}
	var kb strings.Builder
	fmt.Fprintf(&kb, "%p", fn)
	for _, x := range args {
		kb.WriteString("|" + x.key())
	}
	for _, x := range free {
		kb.WriteString("|$" + x.key())
	}
	mk := kb.String()
	if e, ok := pu.memo[mk]; ok {
		if !e.done { // recursion: use the result of the previous outer iteration
			if p, ok := pu.prev[mk]; ok {
				return p
			}
			return aval{}
		}
		return e.ret
	}
	if os.Getenv("QF_TRACE") != "" && depth > 6 && depth < 10 {
		fmt.Fprintf(os.Stderr, "depth %d %s key=%s\n", depth, fname(fn), mk)
	}
	if depth > 40 {
		pu.undecided(fn.Pos(), fname(fn), "call depth bound exceeded")
		return aval{}
	}
	e := &memoEntry{}
	pu.memo[mk] = e
	pu.stats.activations++
	if os.Getenv("QF_TRACE") != "" && len(mk) > 40000 {
		fmt.Fprintf(os.Stderr, "BIGKEY %s\n%s\n", fname(fn), mk[:6000])
		os.Exit(3)
	}
	if os.Getenv("QF_TRACE") != "" && pu.stats.activations%200 == 0 {
		fmt.Fprintf(os.Stderr, "ACT %d depth %d %s keylen=%d\n", pu.stats.activations, depth, fname(fn), len(mk))
	}
	pu.stack = append(pu.stack, fname(fn))
	a := &activation{pu: pu, fn: fn, regs: map[ssa.Value]aval{}, ret: aval{}, depth: depth}
	for i, prm := range fn.Params {
		if i < len(args) {
			a.regs[prm] = args[i].clone()
		}
	}
	for i, fv := range fn.FreeVars {
		if i < len(free) {
			a.regs[fv] = free[i].clone()
		}
	}
	a.run()
	pu.stack = pu.stack[:len(pu.stack)-1]
	e.ret, e.done = a.ret, true
	if p, ok := pu.prev[mk]; !ok || p.key() != a.ret.key() {
		pu.prev[mk] = a.ret.clone()
		pu.changed = true
	}
	return a.ret
}

func (pu *purity) undecided(pos token.Pos, fn, what string) {
	k := pu.root + "|" + fn + "|" + what
	if pu.undec[k] == nil {
		pu.undec[k] = &effect{Root: pu.root, Pos: pu.p.pos(pos), Fn: fn, What: what, Chain: append([]string(nil), pu.stack...)}
	}
}

func (a *activation) run() {
	fn := a.fn
	in := map[*ssa.BasicBlock]map[*pnode]aval{}
	in[fn.Blocks[0]] = map[*pnode]aval{}
	// iterate blocks in order until the per-activation state is stable
	for iter := 0; iter < 50; iter++ {
		changed := false
		for _, b := range fn.Blocks {
			st, ok := in[b]
			if !ok {
				continue
			}
			a.cells = cloneCells(st)
			for _, ins := range b.Instrs {
				if a.step(ins) {
					changed = true
				}
				if os.Getenv("QF_TRACE") != "" {
					for n, c := range a.cells {
						if len(c) > 300 {
							i := 0
							for k := range c {
								fmt.Fprintf(os.Stderr, "BIG cell %s in %s after %s: key %s\n", n.key, fname(a.fn), ins, k)
								if i++; i > 12 {
									break
								}
							}
							os.Exit(3)
						}
					}
				}
			}
			for _, s := range b.Succs {
				if in[s] == nil {
					in[s] = cloneCells(a.cells)
					changed = true
				} else if mergeCells(in[s], a.cells) {
					changed = true
				}
			}
		}
		if !changed {
			return
		}
	}
	a.pu.undecided(fn.Pos(), fname(fn), "intraprocedural fixpoint did not converge")
}

func tupleWrap(i int, v aval) aval {
	out := aval{}
	out.merge(fmt.Sprintf("#%d", i), v)
	return out
}

// step interprets one instruction; returns true if a register changed.
func (a *activation) step(ins ssa.Instruction) bool {
	pu := a.pu
	switch t := ins.(type) {
	case *ssa.Alloc:
		out := aval{}
		if t.Heap {
			n := pu.node(nNew, "N:"+fname(a.fn)+":"+t.Name()+":"+pu.p.instrPos(t))
			out.add("", ploc{n, ""})
		} else {
			n := a.localNode(t)
			if _, ok := a.cells[n]; !ok {
				a.cells[n] = aval{}
			}
			out.add("", ploc{n, ""})
		}
		return a.setReg(t, out)
	case *ssa.MakeSlice, *ssa.MakeMap, *ssa.MakeChan:
		out := aval{}
		v := ins.(ssa.Value)
		out.add("", ploc{pu.node(nNew, "N:"+fname(a.fn)+":"+v.Name()+":"+pu.p.instrPos(ins)), ""})
		return a.setReg(v, out)
	case *ssa.MakeClosure:
		fnv := t.Fn.(*ssa.Function)
		n := pu.node(nFunc, "C:"+fname(fnv)+":"+pu.p.instrPos(t))
		n.fn = fnv
		for i, b := range t.Bindings {
			pu.heapWrite(ploc{n, fmt.Sprintf("$%d", i)}, a.val(b))
		}
		out := aval{}
		out.add("", ploc{n, ""})
		return a.setReg(t, out)
	case *ssa.Phi:
		ch := false
		for _, e := range t.Edges {
			if a.setReg(t, a.val(e)) {
				ch = true
			}
		}
		return ch
	case *ssa.FieldAddr:
		st := deref(t.X.Type()).Underlying().(*types.Struct)
		suffix := "." + st.Field(t.Field).Name()
		out := aval{}
		x := a.val(t.X)
		for l := range x[""] {
			out.add("", ploc{l.n, l.rel + suffix})
		}
		for l := range x["#box"] {
			for y := range pu.read(l.n, l.rel, t.X.Type())[""] {
				out.add("", ploc{y.n, y.rel + suffix})
			}
		}
		return a.setReg(t, out)
	case *ssa.Field:
		st := t.X.Type().Underlying().(*types.Struct)
		return a.setReg(t, a.val(t.X).sub("."+st.Field(t.Field).Name()))
	case *ssa.IndexAddr:
		x := a.val(t.X)
		out := aval{}
		for l := range x[""] {
			out.add("", l)
		}
		return a.setReg(t, out)
	case *ssa.Index:
		return a.setReg(t, a.val(t.X))
	case *ssa.Slice:
		return a.setReg(t, a.val(t.X))
	case *ssa.ChangeType:
		return a.setReg(t, a.val(t.X))
	case *ssa.ChangeInterface:
		return a.setReg(t, a.val(t.X))
	case *ssa.MakeInterface:
		return a.setReg(t, a.val(t.X))
	case *ssa.SliceToArrayPointer:
		return a.setReg(t, a.val(t.X))
	case *ssa.Convert:
		// string <-> []byte / []rune allocate; pointer <-> unsafe.Pointer alias
		if _, isSlice := t.Type().Underlying().(*types.Slice); isSlice {
			out := aval{}
			out.add("", ploc{pu.node(nNew, "N:"+fname(a.fn)+":"+t.Name()+":"+pu.p.instrPos(t)), ""})
			return a.setReg(t, out)
		}
		if len(pu.flatten(t.Type())) > 0 {
			return a.setReg(t, a.val(t.X))
		}
		return false
	case *ssa.TypeAssert:
		v := pu.materialise(a.val(t.X), t.AssertedType)
		if t.CommaOk {
			v = tupleWrap(0, v)
		}
		return a.setReg(t, v)
	case *ssa.Extract:
		return a.setReg(t, a.val(t.Tuple).sub(fmt.Sprintf("#%d", t.Index)))
	case *ssa.UnOp:
		if t.Op == token.MUL {
			return a.setReg(t, a.loadFrom(a.val(t.X), t.Type()))
		}
		return false
	case *ssa.Store:
		a.storeTo(a.val(t.Addr), a.val(t.Val), t, "store")
		return false
	case *ssa.MapUpdate:
		m := a.val(t.Map)
		for l := range m[""] {
			if l.n.kind == nLocal || l.n.kind == nFunc {
				continue
			}
			pu.recordWrite(l, t, "map update", a)
			k := aval{}
			k.merge("#k", a.val(t.Key))
			k.merge("#v", a.val(t.Value))
			pu.heapWrite(l, k)
		}
		return false
	case *ssa.Lookup:
		x := a.val(t.X)
		out := aval{}
		if mt, ok := t.X.Type().Underlying().(*types.Map); ok {
			for l := range x[""] {
				if l.n.kind == nLocal || l.n.kind == nFunc {
					continue
				}
				out.merge("", pu.read(l.n, l.rel+"#v", mt.Elem()))
			}
		}
		if t.CommaOk {
			out = tupleWrap(0, out)
		}
		return a.setReg(t, out)
	case *ssa.Range:
		return a.setReg(t, a.val(t.X))
	case *ssa.Next:
		if t.IsString {
			return false
		}
		rg, ok := t.Iter.(*ssa.Range)
		if !ok {
			return false
		}
		mt, ok := rg.X.Type().Underlying().(*types.Map)
		if !ok {
			return false
		}
		out := aval{}
		for l := range a.val(t.Iter)[""] {
			if l.n.kind == nLocal || l.n.kind == nFunc {
				continue
			}
			out.merge("#1", pu.read(l.n, l.rel+"#k", mt.Key()))
			out.merge("#2", pu.read(l.n, l.rel+"#v", mt.Elem()))
		}
		return a.setReg(t, out)
	case *ssa.Return:
		ch := false
		if len(t.Results) == 1 {
			ch = a.ret.merge("", a.val(t.Results[0]))
		} else {
			for i, r := range t.Results {
				if a.ret.merge(fmt.Sprintf("#%d", i), a.val(r)) {
					ch = true
				}
			}
		}
		return ch
	case *ssa.Call:
		return a.setReg(t, a.call(t))
	case *ssa.Defer:
		a.call(t)
		return false
	case *ssa.Go:
		a.pu.undecided(t.Pos(), fname(a.fn), "go statement: concurrency inside the library invalidates the frame-rule argument")
		a.call(t)
		return false
	case *ssa.Send:
		a.pu.undecided(t.Pos(), fname(a.fn), "channel send")
		return false
	case *ssa.Select:
		a.pu.undecided(t.Pos(), fname(a.fn), "select")
		return false
	case *ssa.BinOp, *ssa.If, *ssa.Jump, *ssa.Panic, *ssa.RunDefers, *ssa.DebugRef:
		return false
	}
	return false
}

func (a *activation) freshResult(ci ssa.CallInstruction, t types.Type) aval {
	out := aval{}
	v, ok := ci.(ssa.Value)
	if !ok {
		return out
	}
	n := a.pu.node(nNew, "N:"+fname(a.fn)+":"+v.Name()+":call:"+a.pu.p.instrPos(ci))
	for _, lf := range a.pu.flatten(t) {
		out.add(lf.path, ploc{n, lf.path})
	}
	return out
}

func (a *activation) call(ci ssa.CallInstruction) aval {
	pu := a.pu
	cc := ci.Common()
	resT := cc.Signature().Results()
	var resType types.Type = resT
	if resT.Len() == 1 {
		resType = resT.At(0).Type()
	}
	args := make([]aval, len(cc.Args))
	for i, x := range cc.Args {
		args[i] = a.val(x)
	}
	if b, ok := cc.Value.(*ssa.Builtin); ok {
		return a.builtin(ci, b.Name(), args, resType)
	}
	out := aval{}
	if cc.IsInvoke() {
		recv := a.val(cc.Value)
		callees := pu.res.callees(ci)
		extIface := !inModule(cc.Method.Pkg())
		if len(callees) == 0 || extIface {
			// interface declared outside the module (io.Writer, error, fmt.Stringer, sql driver types...)
			out.merge("", a.external(ci, cc.Method, append([]aval{recv}, args...), resType))
		}
		if extIface {
			// A value the caller supplied behind an external interface (io.Reader, io.Writer) cannot have one
			// of the module's unexported implementations as dynamic type: only receivers the module built
			// itself (concrete keys) dispatch to module implementers.
			conc := aval{}
			for k, s := range recv {
				if !strings.HasSuffix(k, "#box") {
					for l := range s {
						conc.add(k, l)
					}
				}
			}
			recv = conc
			if len(recv) == 0 {
				callees = nil
			}
		}
		for _, callee := range callees {
			if len(callee.Params) == 0 {
				continue
			}
			r := pu.materialise(recv, callee.Params[0].Type())
			out.merge("", pu.analyse(callee, append([]aval{r}, args...), nil, a.depth+1))
		}
		return out
	}
	if callee := cc.StaticCallee(); callee != nil {
		if callee.Blocks != nil && (callee.Pkg == nil || inModule(callee.Pkg.Pkg) || callee.Parent() != nil) {
			var free []aval
			if mc, ok := cc.Value.(*ssa.MakeClosure); ok {
				for _, b := range mc.Bindings {
					free = append(free, a.val(b))
				}
			}
			return pu.analyse(callee, args, free, a.depth+1)
		}
		obj, _ := callee.Object().(*types.Func)
		return a.external(ci, obj, args, resType)
	}
	// dynamic call of a function value
	fv := a.val(cc.Value)
	known := false
	for l := range fv[""] {
		switch l.n.kind {
		case nFunc:
			known = true
			var free []aval
			for i := range l.n.fn.FreeVars {
				fr := aval{}
				for k, s := range pu.heap[l.n] {
					pre := fmt.Sprintf("$%d", i)
					if hasPathPrefix(k, pre) {
						for x := range s {
							fr.add(k[len(pre):], x)
						}
					}
				}
				free = append(free, fr)
			}
			if l.n.fn.Blocks != nil && (l.n.fn.Pkg == nil || inModule(l.n.fn.Pkg.Pkg) || l.n.fn.Parent() != nil) {
				out.merge("", pu.analyse(l.n.fn, args, free, a.depth+1))
			} else {
				obj, _ := l.n.fn.Object().(*types.Func)
				out.merge("", a.external(ci, obj, args, resType))
			}
		case nIn:
			known = true
			if isOptionFuncType(cc.Value.Type()) {
				// an option value (csv.Columns(order), csv.EnumValues(m), ...) handed in by the caller: one of
				// the module's option closures of that type; whatever it captured is memory of the caller
				// (prestate reached through the function value), so storing a captured map or slice into the
				// configuration and writing through it later is a write to the caller's memory
				for _, callee := range pu.res.callees(ci) {
					if callee.Parent() == nil {
						continue
					}
					var free []aval
					for i, fv := range callee.FreeVars {
						free = append(free, pu.read(l.n, fmt.Sprintf("$%s%d", callee.Parent().Name(), i), fv.Type()))
					}
					out.merge("", pu.analyse(callee, args, free, a.depth+1))
				}
				break
			}
			// user-supplied callback: documented contract - must not mutate or retain its arguments
			a.noteCallbackArgs(ci, args)
			out.merge("", a.freshResult(ci, resType))
		case nGlob:
			// function table in a package-level variable: resolve by signature over address-taken functions
			for _, callee := range pu.res.callees(ci) {
				known = true
				out.merge("", pu.analyse(callee, args, nil, a.depth+1))
			}
		}
	}
	if len(fv["#box"]) > 0 {
		known = true // function value held in a prestate interface (Instruction.Fn): user callback
		a.noteCallbackArgs(ci, args)
		out.merge("", a.freshResult(ci, resType))
	}
	if !known {
		for _, callee := range pu.res.callees(ci) {
			known = true
			out.merge("", pu.analyse(callee, args, nil, a.depth+1))
		}
		if !known {
			out.merge("", a.freshResult(ci, resType))
		}
	}
	return out
}

// noteCallbackArgs records user callbacks that are handed a slice whose backing array is memory that existed
// before the operation (column storage, an argument): the callback's contract says it must not keep its
// arguments, but a slice argument is routinely sorted or scratched in place (a median), and through a view into
// storage that rewrites the frame and every frame sharing the column.
func (a *activation) noteCallbackArgs(ci ssa.CallInstruction, args []aval) {
	pu := a.pu
	cargs := ci.Common().Args
	for i, av := range args {
		if i >= len(cargs) {
			break
		}
		if _, isSlice := cargs[i].Type().Underlying().(*types.Slice); !isSlice {
			continue
		}
		for l := range av[""] {
			if l.n.kind != nIn {
				continue
			}
			pos := pu.p.instrPos(ci)
			k := pu.root + "|" + pos + "|" + l.n.key
			if pu.cbShared[k] == nil {
				pu.cbShared[k] = &effect{Root: pu.root, Pos: pos, Fn: fname(ci.Parent()), What: "a user-supplied function is called with a slice of memory that existed before the operation", Target: l.n.key + l.rel, Chain: append([]string(nil), pu.stack...)}
			}
		}
	}
}

// isOptionFuncType: a named function type declared in one of the module's config packages
// (csv.ConfigFunc, csv.ToConfigFunc, groupby.ConfigFunc, ...).
func isOptionFuncType(t types.Type) bool {
	n, ok := t.(*types.Named)
	if !ok || n.Obj().Pkg() == nil || !strings.HasPrefix(n.Obj().Pkg().Path(), rel("config")+"/") {
		return false
	}
	_, isSig := n.Underlying().(*types.Signature)
	return isSig
}

func (a *activation) builtin(ci ssa.CallInstruction, name string, args []aval, resType types.Type) aval {
	pu := a.pu
	switch name {
	case "append":
		out := aval{}
		n := pu.node(nNew, "N:"+fname(a.fn)+":append:"+pu.p.instrPos(ci))
		out.add("", ploc{n, ""})
		var elems aval = aval{}
		if len(args) > 1 {
			for l := range args[1][""] {
				if l.n.kind == nLocal {
					if c, ok := a.cells[l.n]; ok {
						elems.merge("", c.sub(l.rel))
					}
					continue
				}
				elems.merge("", pu.readAll(l.n, l.rel))
			}
		}
		for l := range args[0][""] {
			out.add("", l)
			if l.n.kind == nLocal || l.n.kind == nFunc {
				continue
			}
			// append may write into spare capacity behind the slice it is given
			pu.recordWrite(l, ci, "append (may write into spare capacity)", a)
			pu.heapWrite(l, elems)
			pu.heapWrite(ploc{n, ""}, pu.readAll(l.n, l.rel))
		}
		pu.heapWrite(ploc{n, ""}, elems)
		return out
	case "copy":
		src := aval{}
		for l := range args[1][""] {
			if l.n.kind == nLocal || l.n.kind == nFunc {
				continue
			}
			src.merge("", pu.readAll(l.n, l.rel))
		}
		for l := range args[0][""] {
			if l.n.kind == nLocal || l.n.kind == nFunc {
				continue
			}
			pu.recordWrite(l, ci, "copy", a)
			pu.heapWrite(l, src)
		}
		return aval{}
	case "delete", "clear":
		for l := range args[0][""] {
			if l.n.kind == nLocal || l.n.kind == nFunc {
				continue
			}
			pu.recordWrite(l, ci, name, a)
		}
		return aval{}
	case "ssa:wrapnilchk":
		return args[0]
	}
	return aval{}
}

// readAll returns everything stored under location (n, rel), keyed relative to rel
// (used for element-wise copies where the element type's leaves are already flattened in the keys).
func (pu *purity) readAll(n *pnode, rel string) aval {
	out := aval{}
	if n.kind == nIn || n.kind == nGlob {
		// element copies out of prestate: represent lazily as a box so that later typed reads materialise children
		out.add("#boxall", ploc{n, rel})
	}
	for k, s := range pu.heap[n] {
		if hasPathPrefix(k, rel) {
			for l := range s {
				out.add(k[len(rel):], l)
			}
		}
	}
	return out
}

// ---- library summaries ----

type extSum struct {
	writes   []int // argument indexes (receiver = 0) whose pointee is written
	retAlias []int // result may alias these arguments
	pure     bool
}

func extKey(obj *types.Func) string {
	if obj == nil {
		return "?"
	}
	sig := obj.Type().(*types.Signature)
	pk := ""
	if obj.Pkg() != nil {
		pk = obj.Pkg().Path()
	}
	if r := sig.Recv(); r != nil {
		return pk + "." + types.TypeString(deref(r.Type()), func(*types.Package) string { return "" }) + "." + obj.Name()
	}
	return pk + "." + obj.Name()
}

// purePkgs: every exported function of these packages neither writes through nor retains its arguments.
var purePkgs = map[string]string{
	"strings": "immutable strings", "math": "values only", "math/bits": "values only", "unicode": "values only",
	"errors": "error construction", "reflect": "only TypeOf/ValueOf/Kind used; inspection", "math/rand": "top-level functions are internally locked",
	"unsafe": "reinterpretation only", "regexp": "documented safe for concurrent use, does not modify arguments",
	"regexp/syntax": "as regexp", "time": "values only", "os": "not reached from frame operations",
}

var extTable = map[string]extSum{
	"sort.Strings": {writes: []int{0}}, "sort.Ints": {writes: []int{0}}, "sort.Float64s": {writes: []int{0}},
	"sort.Slice": {writes: []int{0}}, "sort.SliceStable": {writes: []int{0}}, "sort.Sort": {writes: []int{0}}, "sort.Stable": {writes: []int{0}},
	"strconv.AppendInt": {writes: []int{0}, retAlias: []int{0}}, "strconv.AppendBool": {writes: []int{0}, retAlias: []int{0}},
	"strconv.AppendFloat": {writes: []int{0}, retAlias: []int{0}}, "strconv.AppendQuote": {writes: []int{0}, retAlias: []int{0}},
	"strconv.AppendUint":      {writes: []int{0}, retAlias: []int{0}},
	"unicode/utf8.EncodeRune": {writes: []int{0}}, "unicode/utf8.AppendRune": {writes: []int{0}, retAlias: []int{0}},
	"io.Reader.Read": {writes: []int{1}}, "io.Writer.Write": {}, "io.ReadFull": {writes: []int{1}},
	"bytes.Buffer.Write": {writes: []int{0}}, "bytes.Buffer.WriteString": {writes: []int{0}}, "bytes.Buffer.WriteByte": {writes: []int{0}},
	"bytes.Buffer.Bytes": {retAlias: []int{0}}, "bytes.Buffer.String": {pure: true}, "bytes.Buffer.Reset": {writes: []int{0}},
	"bytes.Compare": {pure: true}, "bytes.Equal": {pure: true},
	"bufio.Writer.Write": {writes: []int{0}}, "bufio.Writer.Flush": {writes: []int{0}},
	"encoding/csv.NewWriter": {retAlias: []int{0}}, "encoding/csv.Writer.Write": {writes: []int{0}}, "encoding/csv.Writer.Flush": {writes: []int{0}}, "encoding/csv.Writer.Error": {pure: true},
	"encoding/json.NewDecoder": {retAlias: []int{0}}, "encoding/json.Decoder.Decode": {writes: []int{0, 1}},
	"database/sql.Rows.Scan": {writes: []int{0, 1}}, "database/sql.Rows.Next": {writes: []int{0}}, "database/sql.Rows.Columns": {}, "database/sql.Rows.Err": {pure: true}, "database/sql.Rows.Close": {writes: []int{0}},
	"database/sql.Tx.Prepare": {}, "database/sql.Tx.Exec": {}, "database/sql.Stmt.Query": {}, "database/sql.Stmt.Close": {},
	"fmt.Sprintf": {pure: true}, "fmt.Sprint": {pure: true}, "fmt.Sprintln": {pure: true}, "fmt.Errorf": {pure: true},
	"fmt.Fprintf": {writes: []int{0}}, "fmt.Fprint": {writes: []int{0}}, "fmt.Fprintln": {writes: []int{0}}, "fmt.Println": {pure: true}, "fmt.Printf": {pure: true},
	"fmt.Stringer.String": {pure: true}, ".error.Error": {pure: true},
	"strconv.Itoa": {pure: true}, "strconv.Atoi": {pure: true}, "strconv.ParseFloat": {pure: true}, "strconv.ParseBool": {pure: true},
	"strconv.FormatInt": {pure: true}, "strconv.FormatFloat": {pure: true}, "strconv.FormatBool": {pure: true}, "strconv.ParseInt": {pure: true}, "strconv.Quote": {pure: true},
	"unicode/utf8.DecodeRuneInString": {pure: true}, "unicode/utf8.RuneLen": {pure: true}, "unicode/utf8.DecodeRune": {pure: true}, "unicode/utf8.RuneCountInString": {pure: true}, "unicode/utf8.ValidString": {pure: true},
}

// externalHandles: types declared outside the module that stand for external resources handed in by
// the caller for I/O (not frame memory). Calls through them are I/O by design.
var externalHandleIfaces = map[string]bool{"io.Writer.Write": true, "io.Reader.Read": true}

func (a *activation) external(ci ssa.CallInstruction, obj *types.Func, args []aval, resType types.Type) aval {
	pu := a.pu
	key := extKey(obj)
	out := a.freshResult(ci, resType)
	if obj != nil && obj.Pkg() != nil {
		if _, ok := purePkgs[obj.Pkg().Path()]; ok {
			return out
		}
	}
	sum, ok := extTable[key]
	if !ok {
		// fail closed: an unknown external callee that receives prestate-reachable memory is undecided
		for i, x := range args {
			if yes, what := pu.reachesPrestate(x); yes {
				pu.undecided(ci.Pos(), fname(a.fn), fmt.Sprintf("external callee %s receives prestate-reachable memory (%s) as argument %d and has no library summary", key, what, i))
			}
		}
		return out
	}
	if sum.pure {
		return out
	}
	for _, w := range sum.writes {
		if w >= len(args) {
			continue
		}
		for l := range args[w][""] {
			if l.n.kind == nLocal {
				continue
			}
			// writes through caller-supplied I/O handles (the io.Writer/Reader/sql handles themselves) are I/O, not frame memory
			if w == 0 && (key == "io.Reader.Read" || strings.HasPrefix(key, "database/sql.")) {
				continue
			}
			pu.recordWrite(l, ci, "library call "+key, a)
		}
	}
	for _, r := range sum.retAlias {
		if r < len(args) {
			for _, lf := range pu.flatten(resType) {
				for l := range args[r][""] {
					out.add(lf.path, l)
				}
			}
		}
	}
	return out
}

// ---- roots ----

func (pu *purity) rootArgs(fn *ssa.Function) []aval {
	var args []aval
	for i, prm := range fn.Params {
		n := pu.node(nIn, fmt.Sprintf("P:%s", prm.Name()))
		_ = i
		args = append(args, pu.read(n, "", prm.Type()))
	}
	return args
}

// runRoot analyses one public root to a fixpoint and returns the number of outer iterations.
func (pu *purity) runRoot(fn *ssa.Function) int {
	pu.root = fname(fn)
	pu.nodes = map[string]*pnode{}
	pu.heap = map[*pnode]map[string]locset{}
	pu.prev = map[string]aval{}
	for it := 1; it <= 12; it++ {
		pu.changed = false
		pu.memo = map[string]*memoEntry{}
		pu.stack = nil
		ret := pu.analyse(fn, pu.rootArgs(fn), nil, 0)
		if !pu.changed {
			pu.lastRet = ret
			return it
		}
	}
	pu.undecided(fn.Pos(), fname(fn), "interprocedural fixpoint did not converge in 12 iterations")
	return 12
}

// publicRoots: exported functions and methods of non-internal packages, plus the methods of the
// internal View types that public view types promote by embedding.
func publicRoots(p *Prog) []*ssa.Function {
	var out []*ssa.Function
	for _, fn := range p.Funcs {
		if fn.Parent() != nil || fn.Object() == nil {
			continue
		}
		obj, ok := fn.Object().(*types.Func)
		if !ok || !obj.Exported() {
			continue
		}
		path := fn.Pkg.Pkg.Path()
		internal := strings.Contains(path, "/internal/")
		sig := obj.Type().(*types.Signature)
		if r := sig.Recv(); r != nil {
			n, ok := deref(r.Type()).(*types.Named)
			if !ok {
				continue
			}
			if internal {
				if n.Obj().Name() != "View" {
					continue
				}
			} else if !n.Obj().Exported() {
				continue
			}
		} else if internal {
			continue
		}
		out = append(out, fn)
	}
	return out
}

var r1RootExempt = map[string]string{
	"(*config/eval.Context).SetFunc": "the context-building API: mutating its receiver is its documented purpose; a Context is not a frame",
}

func init() {
	register(&Rule{ID: "R1", Name: "PURITY", Floor: 80,
		Text: "for every public root (exported function/method of a non-internal package, and the promoted View methods) no instruction reachable through resolved callees writes memory that existed before the operation started: Store, MapUpdate, copy, append (spare capacity), delete, clear and library mutators are interpreted over a field-sensitive points-to heap with prestate (In), global (Glob), fresh (New) and flow-sensitive local objects; one obligation per root",
		Run:  runR1})
	register(&Rule{ID: "R2", Name: "GLOBALS", Floor: 4,
		Text: "no public root writes package-level state (from the same interpretation as R1); the module contains no go statement, no use of sync / sync/atomic, and no package-level *rand.Rand (only goroutine-safe top-level math/rand functions)",
		Run:  runR2})
}

type purityResult struct {
	roots   []*ssa.Function
	effects map[string][]*effect // root -> effects on In
	globals map[string][]*effect
	undec   map[string][]*effect
	iters   map[string]int
	retGlob map[string]string        // root -> package-level object its result may alias
	outlive map[*ssa.Function]string // closures reachable from some root's result or stored into prestate / package-level state -> root
	retIn   map[string]string        // root -> client-writable part of the result that aliases memory that existed before
	cbIn    map[string][]*effect     // root -> user callbacks handed a slice into prestate memory
	stats   struct{ activations, writes, freshWrites, writeSites int }
}

// r66Exempt: results that alias prestate by documented design, one named symbol each.
var r66Exempt = map[string]string{
	"(internal/ecolumn.View).ItemAt": "a nullable string is represented as *string and an enum cell is returned as a pointer to its dictionary entry (no copy per access, by design); writing through it is outside the API contract. No operation of the library alters a frame, which is what C01 states; recorded as an API hazard in DESIGN.md",
	"function.StrS":                  "documented to return its argument (`StrS returns s`); the argument is the caller's pointer",
	"function.ConcatS":               "returns one of its arguments when the other is nil (documented nil handling); the arguments are the caller's pointers",
	"config/csv.NewToConfig":         "internal constructor (`should never be called from outside QFrame`): the configuration holds what the caller's options captured, e.g. the Columns order slice",
	"config/groupby.NewConfig":       "internal constructor: the configuration holds the caller's column name slice captured by groupby.Columns",
	"config/eval.NewConfig":          "internal constructor: the configuration holds the caller's *Context captured by eval.EvalContext; sharing the context is the purpose of the option",
}

// outlivingFuncs: function objects created by the operation that survive it: reachable from the root's
// result, or from memory that existed before (stored into an argument or a package-level variable).
func (pu *purity) outlivingFuncs(ret aval) map[*ssa.Function]bool {
	out := map[*ssa.Function]bool{}
	seen := map[*pnode]bool{}
	var visit func(n *pnode)
	visit = func(n *pnode) {
		if seen[n] {
			return
		}
		seen[n] = true
		if n.kind == nFunc && n.fn != nil {
			out[n.fn] = true
		}
		for k, s := range pu.heap[n] {
			for l := range s {
				if os.Getenv("QF_DEBUG_OUTLIVE") != "" && !seen[l.n] {
					fmt.Fprintf(os.Stderr, "OUTLIVE %s --[%s]--> %s\n", n.key, k, l.n.key)
				}
				visit(l.n)
			}
		}
	}
	for k, s := range ret {
		for l := range s {
			if os.Getenv("QF_DEBUG_OUTLIVE") != "" {
				fmt.Fprintf(os.Stderr, "OUTLIVE ret[%s] --> %s\n", k, l.n.key)
			}
			visit(l.n)
		}
	}
	for n := range pu.heap {
		if n.kind == nIn || n.kind == nGlob {
			visit(n)
		}
	}
	return out
}

// exposedPrestate: a slice, map or pointer the caller of root fn can write through (top level of a result,
// or reached through exported fields only) that is memory which existed before the call.
func (pu *purity) exposedPrestate(fn *ssa.Function, ret aval) string {
	res := fn.Signature.Results()
	var t types.Type = res
	if res.Len() == 1 {
		t = res.At(0).Type()
	}
	for _, lf := range pu.flatten(t) {
		if lf.iface || lf.fn || !clientVisiblePath(lf.path) {
			continue
		}
		for l := range ret[lf.path] {
			if l.n.kind == nIn {
				return fmt.Sprintf("result%s aliases %s%s", lf.path, l.n.key, l.rel)
			}
		}
	}
	return ""
}

func clientVisiblePath(path string) bool {
	for _, seg := range strings.Split(path, ".") {
		if i := strings.IndexAny(seg, "#$"); i >= 0 {
			seg = seg[:i]
		}
		if seg == "" {
			continue
		}
		if r := seg[0]; r < 'A' || r > 'Z' {
			return false
		}
	}
	return true
}

// purityResult analyses the public roots whose name passes filter (nil = all); results are cached per root.
func (p *Prog) purityResult(filter func(string) bool) *purityResult {
	if p.pur == nil {
		p.pur = &purityResult{effects: map[string][]*effect{}, globals: map[string][]*effect{}, undec: map[string][]*effect{}, iters: map[string]int{}, retGlob: map[string]string{}, retIn: map[string]string{}, outlive: map[*ssa.Function]string{}, cbIn: map[string][]*effect{}}
		p.pur.roots = publicRoots(p)
	}
	r := p.pur
	pu := newPurity(p)
	for _, fn := range r.roots {
		if f := os.Getenv("QF_ROOT"); f != "" && !strings.Contains(fname(fn), f) {
			continue
		}
		if _, done := r.iters[fname(fn)]; done || filter != nil && !filter(fname(fn)) {
			continue
		}
		t0 := time.Now()
		a0 := pu.stats.activations
		r.iters[fname(fn)] = pu.runRoot(fn)
		if g := pu.reachesGlobal(pu.lastRet); g != "" {
			r.retGlob[fname(fn)] = g
		}
		if w := pu.exposedPrestate(fn, pu.lastRet); w != "" {
			r.retIn[fname(fn)] = w
		}
		for f := range pu.outlivingFuncs(pu.lastRet) {
			if _, ok := r.outlive[f]; !ok {
				r.outlive[f] = fname(fn)
			}
		}
		if os.Getenv("QF_DEBUG") != "" {
			fmt.Fprintf(os.Stderr, "root %-50s iters=%d activations=%d nodes=%d %.2fs\n", fname(fn), r.iters[fname(fn)], pu.stats.activations-a0, len(pu.nodes), time.Since(t0).Seconds())
		}
	}
	for _, e := range pu.effects {
		if strings.HasPrefix(e.Target, "G:") {
			r.globals[e.Root] = append(r.globals[e.Root], e)
		} else {
			r.effects[e.Root] = append(r.effects[e.Root], e)
		}
	}
	for _, e := range pu.undec {
		r.undec[e.Root] = append(r.undec[e.Root], e)
	}
	for _, e := range pu.cbShared {
		r.cbIn[e.Root] = append(r.cbIn[e.Root], e)
	}
	r.stats.activations += pu.stats.activations
	r.stats.writes += pu.stats.writes
	r.stats.freshWrites += pu.stats.freshWrites
	r.stats.writeSites += len(pu.writeSites)
	return r
}

func fmtEffects(es []*effect) string {
	sort.Slice(es, func(i, j int) bool { return es[i].Pos+es[i].Target < es[j].Pos+es[j].Target })
	var parts []string
	for i, e := range es {
		if i >= 3 {
			parts = append(parts, fmt.Sprintf("... and %d more", len(es)-3))
			break
		}
		chain := strings.Join(e.Chain, " -> ")
		parts = append(parts, fmt.Sprintf("%s in %s at %s (target %s; call chain %s)", e.What, e.Fn, e.Pos, e.Target, chain))
	}
	return strings.Join(parts, "; ")
}

func runR1(c *Ctx) { runPurity(c, nil) }

// purityRule registers a restriction of R1 to the public roots of one operation family.
func purityRule(id, name string, floor int, roots ...string) {
	set := map[string]bool{}
	for _, r := range roots {
		set[r] = true
	}
	register(&Rule{ID: id, Name: name, Floor: floor,
		Text: "R1 PURITY restricted to the public roots " + strings.Join(roots, ", ") + ": none of them writes memory that existed before the call (the index, column slices and maps handed to the operation are copied before being changed)",
		Run:  func(c *Ctx) { runPurity(c, func(n string) bool { return set[n] }) }})
}

func runPurity(c *Ctx, filter func(string) bool) {
	p := c.P
	r := p.purityResult(filter)
	for _, fn := range r.roots {
		name := fname(fn)
		if filter != nil && !filter(name) {
			continue
		}
		key := name + "|root"
		pos := p.pos(fn.Pos())
		if why, ok := r1RootExempt[name]; ok {
			c.okTrivial(key, pos, "frozen exception: "+why)
			continue
		}
		if es := r.undec[name]; len(es) > 0 {
			c.undecided(key, pos, fmtEffects(es))
			continue
		}
		if es := r.effects[name]; len(es) > 0 {
			c.bad(key, pos, fmtEffects(es))
			continue
		}
		c.ok(key, pos, fmt.Sprintf("no write to prestate on any path (fixpoint in %d iteration(s))", r.iters[name]))
	}
	c.note("activations", r.stats.activations)
	c.note("write_instructions_interpreted", r.stats.writeSites)
	c.note("write_events", r.stats.writes)
	c.note("write_events_on_fresh_objects", r.stats.freshWrites)
}

func runR2(c *Ctx) {
	p := c.P
	r := p.purityResult(nil)
	nBad := 0
	for _, fn := range r.roots {
		name := fname(fn)
		if es := r.globals[name]; len(es) > 0 {
			nBad++
			c.bad(name+"|global write", p.pos(fn.Pos()), fmtEffects(es))
		}
	}
	if nBad == 0 {
		c.ok("all roots|no global write", "-", fmt.Sprintf("%d public roots, none writes package-level state", len(r.roots)))
	}
	sharedStateCounts(c)
}

// sharedStateCounts: exact counts of constructs that would give the library hidden shared state.
func sharedStateCounts(c *Ctx) {
	p := c.P
	nGo, nSync, nRand := 0, 0, 0
	var where []string
	for _, fn := range p.Funcs {
		eachInstr(fn, func(in ssa.Instruction) {
			if _, ok := in.(*ssa.Go); ok {
				nGo++
				where = append(where, "go statement at "+p.instrPos(in))
			}
			if ci, ok := in.(ssa.CallInstruction); ok {
				if o := calleeObj(ci); o != nil && o.Pkg() != nil {
					switch o.Pkg().Path() {
					case "sync", "sync/atomic":
						nSync++
						where = append(where, "sync use at "+p.instrPos(in))
					case "math/rand":
						if o.Name() == "New" || o.Name() == "NewSource" || o.Type().(*types.Signature).Recv() != nil {
							nRand++
							where = append(where, "private rand.Rand at "+p.instrPos(in))
						}
					}
				}
			}
		})
	}
	for name, n := range map[string]int{"go statements": nGo, "sync/atomic uses": nSync, "private math/rand generators": nRand} {
		if n == 0 {
			c.ok("module|"+name, "-", "count is 0: the argument \"operations share only prestate, which nobody writes\" applies")
		} else {
			c.undecided("module|"+name, "-", fmt.Sprintf("%d found (%s): the library now has internal concurrency or shared generators; the static race-freedom argument no longer applies as stated", n, strings.Join(where, ", ")))
		}
	}
}

// purityRuleG: like purityRule, and additionally reports writes to package-level state by those roots.
func purityRuleG(id, name string, floor int, roots ...string) {
	set := map[string]bool{}
	for _, r := range roots {
		set[r] = true
	}
	register(&Rule{ID: id, Name: name, Floor: floor,
		Text: "R1 PURITY and R2 GLOBALS restricted to the public roots " + strings.Join(roots, ", ") + ": none of them writes memory that existed before the call, and none reads or writes mutable package-level state (caches, memo tables)",
		Run: func(c *Ctx) {
			filter := func(n string) bool { return set[n] }
			runPurity(c, filter)
			r := c.P.purityResult(filter)
			for _, fn := range r.roots {
				name := fname(fn)
				if !set[name] {
					continue
				}
				if es := r.globals[name]; len(es) > 0 {
					c.bad(name+"|global write", c.P.pos(fn.Pos()), fmtEffects(es))
				}
			}
		}})
}

func init() {
	purityRule("R1s", "PURITY-SORT", 1, "(qframe.QFrame).Sort")
	purityRule("R1g", "PURITY-GROUP", 4, "(qframe.QFrame).GroupBy", "(qframe.Grouper).Aggregate", "(qframe.Grouper).QFrames", "(qframe.QFrame).Distinct")
	purityRule("R1a", "PURITY-APPLY", 4, "(qframe.QFrame).Apply", "(qframe.QFrame).FilteredApply", "(qframe.QFrame).WithRowNums", "(qframe.QFrame).Eval")
	purityRule("R1x", "PURITY-EXPR", 2, "qframe.Expr", "qframe.Val")
	purityRule("R1r", "PURITY-READ", 4, "qframe.ReadCSV", "qframe.ReadJSON", "qframe.ReadSQL", "qframe.New")
	purityRule("R1n", "PURITY-PROJECT", 6, "qframe.New", "(qframe.QFrame).Select", "(qframe.QFrame).Drop", "(qframe.QFrame).Slice", "(qframe.QFrame).Copy", "(qframe.QFrame).Filter")
}

func init() {
	register(&Rule{ID: "R66", Name: "NO-STORAGE-ESCAPE", Floor: 80,
		Text: "no public root hands its caller a writable reference into memory that existed before the call: every slice, map or pointer that is a result itself or is reached from a result through exported fields only (what client code can write through without the library) is allocated by the operation; frames, groupers and views are opaque (unexported fields) and may share storage. From the same interpretation as R1; one obligation per public root",
		Run: func(c *Ctx) {
			p := c.P
			r := p.purityResult(nil)
			for _, fn := range r.roots {
				name := fname(fn)
				if why, ex := r66Exempt[name]; ex {
					if _, ok := r.retIn[name]; ok {
						c.okTrivial(name+"|result", p.pos(fn.Pos()), "frozen exception: "+why)
					} else {
						c.okTrivial(name+"|result", p.pos(fn.Pos()), "no client-writable part of the result is prestate (the frozen exception is no longer needed)")
					}
					continue
				}
				if w, ok := r.retIn[name]; ok {
					c.bad(name+"|result", p.pos(fn.Pos()), w+": the caller can modify frame storage (or an argument) through the returned value")
				} else if es := r.undec[name]; len(es) > 0 {
					c.undecided(name+"|result", p.pos(fn.Pos()), fmtEffects(es))
				} else {
					c.okTrivial(name+"|result", p.pos(fn.Pos()), "no client-writable part of the result is prestate")
				}
			}
		}})
	register(&Rule{ID: "R125", Name: "CALLBACK-SLICE-PRIVATE", Floor: 80,
		Text: "no public root calls a user-supplied function (aggregation, apply or filter callback) with a slice whose backing array is memory that existed before the call - column storage or an argument: the values of a group are gathered into a buffer of the operation's own before the function sees them. A callback that sorts or scratches its argument in place (a median) would otherwise rewrite the column under every frame that shares it, and race with concurrent readers. From the same interpretation as R1; one obligation per public root. Pointer arguments are not covered (an enum cell is handed out as a pointer into the dictionary by design, see R66's frozen exceptions)",
		Run: func(c *Ctx) {
			p := c.P
			r := p.purityResult(nil)
			for _, fn := range r.roots {
				name := fname(fn)
				if es := r.cbIn[name]; len(es) > 0 {
					c.bad(name+"|callback arguments", p.pos(fn.Pos()), fmtEffects(es))
				} else {
					c.okTrivial(name+"|callback arguments", p.pos(fn.Pos()), "every slice handed to a user function is allocated by the operation")
				}
			}
		}})
	register(&Rule{ID: "R47", Name: "FRESH-RESULT", Floor: 3,
		Text: "the value returned by the evaluation-context and configuration constructors (eval.NewDefaultCtx, eval.NewConfig and the other config constructors) does not alias mutable package-level state: a context handed to a caller who then calls SetFunc on it must not share maps with the built-in table of other contexts",
		Run: func(c *Ctx) {
			p := c.P
			want := func(n string) bool {
				return strings.HasPrefix(n, "config/") && (strings.Contains(n, ".New") || strings.Contains(n, "Ctx"))
			}
			r := p.purityResult(want)
			for _, fn := range r.roots {
				name := fname(fn)
				if !want(name) {
					continue
				}
				if g, ok := r.retGlob[name]; ok {
					c.bad(name+"|result", p.pos(fn.Pos()), "the returned value aliases package-level state ("+g+"): mutating one context/config (SetFunc) changes what every other one sees")
				} else if es := r.undec[name]; len(es) > 0 {
					c.undecided(name+"|result", p.pos(fn.Pos()), fmtEffects(es))
				} else {
					c.ok(name+"|result", p.pos(fn.Pos()), "result reaches no package-level object")
				}
			}
		}})
}
