package main

import (
	"fmt"
	"go/token"
	"go/types"

	"golang.org/x/tools/go/ssa"
)

func init() {
	register(&Rule{ID: "R52", Name: "CLAUSE-ALL", Floor: 2,
		Text: "the loops over the sub-clauses in AndClause.filter and OrClause.filter evaluate every sub-clause: the only exits from the loop are exhaustion of the range or an exit taken because the accumulated frame carries an error; an early exit on any other condition (e.g. `all rows already selected`) skips clauses whose evaluation would have reported an error",
		Run:  runR52})
	register(&Rule{ID: "R53", Name: "CALLBACK-ARG-FRESH", Floor: 10,
		Text: "a pointer handed to a per-row user callback inside a loop is never the address of a variable that lives across iterations: built-ins such as function.StrS and function.ConcatS return their argument, so a reused cell makes every row alias the last one",
		Run:  runR53})
	register(&Rule{ID: "R54", Name: "TABLE-PTR-LOCAL", Floor: 1,
		Text: "the address of a hash-table entry (an element of a []tableEntry) is only held in local variables of the function that computed it: it is never stored into a struct field, a global or a heap cell, because growing the table replaces the entries slice and such a pointer would keep writing into the discarded table",
		Run:  runR54})
	register(&Rule{ID: "R55", Name: "NULL-OPTION", Floor: 2,
		Text: "every Column.Comparable built for Distinct/GroupBy receives the caller's groupby.Null option as its equalNull argument (traced through the helper's parameter to a load of Config.GroupByNull at every call site); only Sort passes a constant",
		Run:  runR55})
}

// ---------- R52 ----------

func runR52(c *Ctx) {
	p := c.P
	for _, name := range []string{"AndClause.filter", "OrClause.filter"} {
		fn := p.Func("", name)
		if fn == nil {
			c.undecided("qframe."+name, "-", "not found")
			continue
		}
		found := false
		for _, li := range loopsOf(fn) {
			if li.base == nil {
				continue
			}
			if fld, _ := fieldOf(li.base); fld == nil || fld.Name() != "subClauses" {
				continue
			}
			found = true
			key := fname(fn) + "|loop over sub-clauses"
			bad := ""
			for _, b := range fn.Blocks {
				if !inLoop(li, b) {
					continue
				}
				for _, s := range b.Succs {
					if inLoop(li, s) || b == li.header {
						continue
					}
					// an exit from inside the loop body: allowed only under an Err test
					if !guardedByErrField(s) && !guardedByErrField(b) {
						bad = p.pos(b.Instrs[len(b.Instrs)-1].Pos())
						if bad == "-" {
							bad = p.pos(s.Instrs[0].Pos())
						}
					}
				}
				// a return inside the loop body
				if ret, ok := b.Instrs[len(b.Instrs)-1].(*ssa.Return); ok && !guardedByErrField(b) {
					bad = p.instrPos(ret)
				}
			}
			if bad != "" {
				c.bad(key, p.pos(fn.Pos()), fmt.Sprintf("the loop is left early at %s on a condition other than an error: the remaining sub-clauses are never evaluated, so their errors (unknown column, bad comparator) are lost", bad))
			} else {
				c.ok(key, p.pos(fn.Pos()), "every sub-clause is evaluated (only exit: range exhausted / error)")
			}
		}
		if !found {
			c.undecided(fname(fn)+"|loop over sub-clauses", p.pos(fn.Pos()), "no range over subClauses found")
		}
	}
}

// ---------- R53 ----------

func runR53(c *Ctx) {
	p := c.P
	scope := map[string]bool{rel(""): true}
	for _, cp := range columnPkgs {
		scope[rel(cp)] = true
	}
	for _, fn := range p.Funcs {
		if !scope[fn.Pkg.Pkg.Path()] {
			continue
		}
		var loops []loopInfo
		done := false
		eachInstr(fn, func(in ssa.Instruction) {
			call, ok := in.(*ssa.Call)
			if !ok || call.Call.IsInvoke() || call.Call.StaticCallee() != nil || builtinName(call) != "" {
				return
			}
			if isUser, _ := userFuncOrigin(call.Call.Value, 0); !isUser {
				return
			}
			if !done {
				loops, done = loopsOf(fn), true
			}
			var li *loopInfo
			for i := range loops {
				if inLoop(loops[i], call.Block()) {
					li = &loops[i]
				}
			}
			if li == nil {
				return
			}
			for _, a := range call.Call.Args {
				if _, isPtr := a.Type().Underlying().(*types.Pointer); !isPtr {
					continue
				}
				key := fname(fn) + "|pointer argument of callback"
				var stale *ssa.Alloc
				seen := map[ssa.Value]bool{}
				var walk func(v ssa.Value, d int)
				walk = func(v ssa.Value, d int) {
					if v == nil || seen[v] || d > 6 {
						return
					}
					seen[v] = true
					switch t := v.(type) {
					case *ssa.Alloc:
						if !inLoop(*li, t.Block()) {
							stale = t
						}
					case *ssa.Phi:
						for _, e := range t.Edges {
							walk(e, d+1)
						}
					case *ssa.FieldAddr:
						walk(t.X, d+1)
					}
				}
				walk(a, 0)
				if stale != nil {
					c.bad(key, p.instrPos(call), fmt.Sprintf("the callback receives the address of %s, a variable declared outside the per-row loop and overwritten every iteration: results that retain the pointer (StrS, ConcatS, identity-like user functions) all end up showing the last row", stale.Comment))
				} else {
					c.ok(key, p.instrPos(call), "fresh per row (result of a call / allocated in the iteration / a cell of the column)")
				}
			}
		})
	}
}

// ---------- R54 ----------

func runR54(c *Ctx) {
	p := c.P
	n := 0
	for _, fn := range p.FuncsIn("internal/grouper") {
		eachInstr(fn, func(in ssa.Instruction) {
			ia, ok := in.(*ssa.IndexAddr)
			if !ok || !isEntriesSlice(ia.X.Type()) {
				return
			}
			n++
			key := fname(fn) + "|address of table entry"
			bad := ""
			seen := map[ssa.Value]bool{}
			var walk func(v ssa.Value, d int)
			walk = func(v ssa.Value, d int) {
				if seen[v] || d > 8 {
					return
				}
				seen[v] = true
				for _, r := range *v.Referrers() {
					switch t := r.(type) {
					case *ssa.Phi:
						walk(t, d+1)
					case *ssa.Store:
						if t.Val != v {
							continue // writing through the pointer is what it is for
						}
						if al, ok := t.Addr.(*ssa.Alloc); ok && !al.Heap {
							// a local pointer variable: follow its loads
							for _, ar := range *al.Referrers() {
								if ld, ok := ar.(*ssa.UnOp); ok && ld.Op == token.MUL {
									walk(ld, d+1)
								}
							}
							continue
						}
						bad = p.instrPos(t)
					case *ssa.MakeInterface, *ssa.MapUpdate:
						bad = p.instrPos(r)
					case *ssa.Return:
						bad = p.instrPos(r)
					}
				}
			}
			walk(ia, 0)
			if bad != "" {
				c.bad(key, p.instrPos(ia), fmt.Sprintf("a pointer to a table entry is kept beyond this function (stored/returned at %s): after the table grows it points into the discarded entries slice, and rows added through it vanish from their group", bad))
			} else {
				c.ok(key, p.instrPos(ia), "used only locally")
			}
		})
	}
	if n == 0 {
		c.undecided("internal/grouper|entries", "-", "no access to a table entries slice found")
	}
}

// ---------- R55 ----------

func runR55(c *Ctx) {
	p := c.P
	res := p.resolver()
	isNullOption := func(v ssa.Value) bool {
		fld, x := fieldOf(v)
		if fld == nil || fld.Name() != "GroupByNull" {
			return false
		}
		_ = x
		return true
	}
	for _, fn := range p.FuncsIn("") {
		eachInstr(fn, func(in ssa.Instruction) {
			call, ok := in.(*ssa.Call)
			if !ok || !call.Call.IsInvoke() || call.Call.Method.Name() != "Comparable" || len(call.Call.Args) != 3 {
				return
			}
			key := fname(fn) + "|equalNull argument"
			arg := call.Call.Args[1]
			switch t := arg.(type) {
			case *ssa.Const:
				if fn.Name() == "Sort" {
					c.ok(key, p.instrPos(call), "Sort: null-vs-null ties are irrelevant for ordering (constant)")
				} else {
					c.bad(key, p.instrPos(call), "a constant is passed as equalNull outside Sort: the groupby.Null option is ignored on this path")
				}
			case *ssa.Parameter:
				// every caller must pass the option
				idx := -1
				for i, prm := range fn.Params {
					if prm == t {
						idx = i
					}
				}
				okAll, n := true, 0
				for _, caller := range p.FuncsIn("") {
					eachInstr(caller, func(i2 ssa.Instruction) {
						ci, ok := i2.(*ssa.Call)
						if !ok {
							return
						}
						for _, callee := range res.callees(ci) {
							if callee != fn {
								continue
							}
							args := argsFor(ci, callee)
							if args == nil {
								continue
							}
							n++
							if !isNullOption(args[idx]) {
								okAll = false
								c.bad(fname(caller)+"|Null option passed on", p.instrPos(ci), "the helper that builds the comparables is not given config.GroupByNull: the groupby.Null option is ignored on this path")
							}
						}
					})
				}
				if okAll && n > 0 {
					c.ok(key, p.instrPos(call), fmt.Sprintf("parameter fed from config.GroupByNull at all %d call sites", n))
				} else if n == 0 {
					c.undecided(key, p.instrPos(call), "no caller found")
				}
			default:
				if isNullOption(arg) {
					c.ok(key, p.instrPos(call), "config.GroupByNull")
				} else {
					c.bad(key, p.instrPos(call), "equalNull does not come from the groupby.Null option")
				}
			}
		})
	}
}
